"""C12 - registry edits take effect everywhere, immediately, regardless of history.

Event log per registry (add / re-add / modify by float / modify by quantity / remove / define_unit, interleaved with unit
construction from atomic, prefixed, alias and compound strings, array creation, conversion and arithmetic) checked against
  (1) the sequential model ref/regmodel.py + the independent expression evaluator ref/uexpr.py  ("the scale and dimension
      implied by the registry's current contents"),
  (2) the same probes on a *fresh* registry built from the model's contents in the same (warm) process,
  (3) the same probes in a *cold* process (fork of a pristine fork server) on a fresh registry,
  (4) snapshots of every retained Unit / array created before an edit ("keep the value they had"),
  (5) the outcome class of every edit call against the same call on a fresh registry with the pre-edit contents,
  (7) the same ufunc-level operation applied, only after the last edit and in a chosen order, to arrays of one spelling built
      before / between / after the edits ("generations"): each result must be its operand's values x the scale the spelling had
      when that operand was built (catalogue: vf/gen/c12_pairs.py),
  (8) registry-bound objects other than Unit / array: a UnitSystem(..., registry=reg) spelled with reg's own symbols, used through
      every door (system[dim], in_base / convert_to_base / get_base_equivalent by object, name, 'code', dataset holder, registry
      default) for some dimensions before / between / after edits; every use judged by the sequential model, the final grid also
      against a new system on the used registry, a fresh registry and a cold process (vf/monitors/c12_systems.py).
"""
import itertools
from fractions import Fraction as Fr
import numpy as np
from vf import core
from vf.ref import dims, defs, names, uexpr, regmodel
from vf.monitors.c12_coldserver import ColdServer
from vf.gen import c12_pairs as gp
from vf.monitors import c12_systems as gs

RULE = ("one evaluation = one observed outcome (scale+dimension+offset of a Unit built from a string, SI values+unit of an array "
        "creation/conversion/arithmetic result, snapshot of a retained object, or outcome class of an edit call) compared with the "
        "sequential registry model, with a fresh registry of the same contents (warm process), or with a cold process; "
        "distinct cell = (oracle, kind of the last edit touching the probe's symbols, probe class, string constructed before that "
        "edit or not, expected known/unknown). Exhaustive part: all edit sequences of length 3 (thorough: 4) over 2 symbols x "
        "{add A, add B, modify float, modify quantity, remove, define_unit} x probe-round masks; random part: histories of up to "
        "40 (thorough 60) steps over 2-3 live registries of several provenances, 4 symbols incl. one built-in (pc). "
        "A registry may be held through several OBJECTS: every step (warm-up probe, edit, probe) is addressed to one handle; handles "
        "obtained the shallow way (copy.copy(reg), Unit.copy(), the registry of q.in_mks()/in_cgs()/in_base()/convert_to_mks() of "
        "base-unit data, get_base_equivalent()) share one table and one model, so an evaluation through handle B after an edit through "
        "handle A is judged against the table's current contents like any other (cells add: how the handle was obtained, "
        "edit-via/probe-via role, built through this handle before the edit or not); independent copies (deepcopy, pickle, JSON, "
        "Unit.copy(deep=True), deepcopy/pickle of a quantity) get their own model and must not follow the source's edits nor the "
        "source theirs. Enumerated part: 15 ways of obtaining the second object x every edit op of the catalogue x base state x "
        "(first editor, which handles were warmed, handle taken before/after the symbol existed), two edits in opposite directions. "
        "Generations part: one evaluation = the result (SI values = data x result-unit scale, dimension vector; truth values for "
        "comparisons) of ONE operation of the catalogue (40 one-operand operations: the memoised unit rules sqrt/cbrt/square/power/"
        "reciprocal/multiply/divide/add/subtract, scalar and same-other-unit forms, own-unit forms, reductions, comparisons against a "
        "threshold lying between the generations, unit-object arithmetic; 8 two-operand operations combining two generations in both "
        "orientations) on ONE array of a history base - array - [edit step - array]* in which every array is built with the same "
        "spelling and NO operation runs before the last edit (state 'warm-before-edit': the whole catalogue ran once on the first "
        "array before the first edit; thorough also 'isolated': one operation per registry), for each evaluation order of the "
        "generations (oldest first / newest first; thorough: up to 6 permutations); 13 (thorough 18) edit scripts incl. edits through a "
        "second handle, arrays built through a second handle, edit of a companion symbol (control), 2-3 successive edits; distinct cell "
        "= (script, operation, pre-/post-edit operand, evaluated first/later, spelling class, state, decisive or control). The same "
        "judgement is applied at the end of every random / handle history (and every 'deep' exhaustive one) to up to two retained "
        "arrays and a new array of the same spelling (5 one-operand + 2 two-operand operations, rotating; order alternating). "
        "Unit-system part: one evaluation = ONE use of ONE door (13: system[dim object], system['name'], in_base by system object / "
        "name / 'code' / dataset-like holder / registry default, convert_to_base, scalar in_base, get_base_equivalent by object / name, "
        "in_units(system[dim]), in_base of data already in the system's unit) for ONE dimension (7: three base, three derived, one control "
        "spelled with a never-edited default symbol) of a UnitSystem bound to the edited registry (5 spellings: atomic / SI-prefixed / "
        "Unit-object arguments / quantity argument with a coefficient / half default symbols; derived dimensions implicit or assigned by "
        "system[dim] = string), at any point of a history base - system - [uses] - edit step - [uses] - ... - full grid (18, thorough 24, "
        "edit scripts x 1-2 (thorough 2-3) of 5 choices of the part of the grid used before and between the edits; random histories with up to three systems "
        "on one registry, assignments and edits through a second handle), judged by the model: the unit the system has for the dimension "
        "is its creation-time spelling read against the CURRENT contents; the final grid is also compared with a new system on the used "
        "registry, with a fresh registry and with a cold process; distinct cell = (oracle, kind of the last edit touching the spelling, "
        "door, dimension class, first use / re-use after the answer changed / re-use with the same answer, returned or refused, spelling)")
ASSUMPTIONS = (
    "trusted base: ref/regmodel.py (dict model), ref/uexpr.py (expression evaluator), ref/defs.py values of the exactly defined "
    "symbols used as companions (m, s, g, kg, cm, km, K, rad, A, cd; pc within its 1e-7 class) and ref/names.py spellings",
    "'implied by the registry's current contents': a NAME means (1) the entry of that name, else (2) a documented built-in spelling "
    "of a symbol that is currently an entry, else (3) SI prefix + prefixable entry ('da' before 'd'); anything else is unknown",
    "a user symbol whose name is a documented built-in spelling of another unit (cl, meter, ...) is judged in the separate "
    "'shadow' sub-monitor only; the history alphabet uses names that are no built-in spelling in any prefixed form",
    "results are compared as physical quantities (value x unit scale, dimension vector); a numeric coefficient folded into the "
    "unit expression by simplification is not a violation",
    "edit calls are judged on their outcome class only against the same call on a fresh registry with the pre-edit contents "
    "(whether define_unit/modify/remove of an existing/missing symbol must raise is not part of the statement); a history whose "
    "edit outcome disagrees with the model but agrees with the fresh registry is abandoned and noted",
    "an edit whose defining quantity is written in a unit with a zero-point offset (point or difference?) is not driven",
    "retained-use sub-monitor: the result of copying/converting/combining a pre-edit object must carry the object's own value; "
    "not judged for base-unit equivalents, Unit(old_unit) (a new construction from the expression), reductions, and pickle round "
    "trips (C11); in every case a string constructed afterwards must mean what the current contents say",
    "in_base('mks') is judged only for registries that hold the default symbols (the unit system may name any of them)",
    "symbols with a zero-point offset are probed for scale/dimension/offset of atomic and prefixed strings only (arithmetic on "
    "offset scales is C08's subject)",
    "retained objects: snapshot (scale, dimension, offset, expression, data bytes) must not change, conversion to SI base units "
    "must give the SI values recorded at creation, and conversion to the creating string under the current contents must "
    "combine the old scale with the new one (or raise when the string is now unknown / of another dimension)",
    "watchdog kills and a dead cold process are never verdicts (counted, INCONCLUSIVE when the cold oracle never answered)",
    "'that registry' is the symbol table, not the Python object: a shallow copy of a registry (copy.copy), the registry of "
    "Unit.copy() and of the result of in_mks/in_cgs/in_base/convert_to_mks/get_base_equivalent on data already in base units are "
    "further handles on the same table (that is what a shallow copy of an object holding a dict is, and conversions of data that are "
    "NOT in base units hand back the very registry object); an edit through any handle must be seen through every handle, and a "
    "result unit bound to any handle on the operands' table counts as bound to the operands' registry",
    "deepcopy / pickle / to_json+from_json of a registry, Unit.copy(deep=True), deepcopy / pickle of a quantity give independent "
    "tables: judged against the model as it was when the copy was taken (plus the fill-in of missing default symbols that "
    "from_json and array unpickling apply, C11's subject) and their own later edits",
    "which handles share a table is decided by this list of ways, not by looking at the library's objects (an unexpected sharing "
    "state is noted, and the probes then fail on their own)",
    "the memoised unit_system_id is judged through every handle after every edit against a new registry object holding the same "
    "table; a stale id through a handle other than the editing one is keyed once per direction, not per edit kind (one mechanism)",
    "the carrier quantity that came with a handle (e.g. the result of q.in_mks()) is in units the alphabet never edits (m, cm, kg); "
    "carrier.to(<probed string>) must give value x carrier scale / current scale of the string, or raise when the dimensions differ",
    "generations monitor: 'keep the value they had' + 'depends only on arguments and current contents' read together: an operation on a "
    "pre-edit array must give the result implied by the scale its spelling had when it was BUILT, on a post-edit array the one implied "
    "by the current table, whichever is evaluated first; reductions and comparisons are judged too (their expected values are computed "
    "from the operand's SI values); combining a pre-edit with a post-edit array of one spelling must use each operand's own scale "
    "(add/subtract/compare/maximum must refuse when the edit changed the dimension)",
    "generations monitor: an evaluation counts as decisive only when the prediction for the operand's own scale differs from the "
    "prediction for another generation's scale (edits that leave the spelling's scale unchanged are controls); the INCONCLUSIVE gate "
    "is on decisive evaluations per (pre-/post-edit operand) x (evaluated first/later), on decisive comparisons and mixed operations, "
    "on every edit script, and on the in-history form",
    "generations monitor inside histories: not driven for spellings of electromagnetic dimension or with a zero-point offset (any "
    "conversion of such a pre-edit array is the known to-base-raises finding / C08's subject, judged by the retained monitor), and the "
    "conversions x.in_base / x.to(...) of the catalogue are left to the retained monitor there",
    "generations monitor: a comparison between a dimensionless array and an array of another dimension (possible only after an edit "
    "that changed the spelling's dimension) is answered rather than refused by unyt with or without any history; whether it should "
    "be refused is not part of this statement - counted as not judged",
    "unit-system monitor: a UnitSystem created with registry=reg is bound to 'that registry'; the unit it has for a dimension is the "
    "spelling it was created with (or last assigned through system[dim] = string), so every use after an edit must give the scale and "
    "dimension the CURRENT contents give that spelling ('exactly as if built against a fresh registry with those contents'), and must "
    "raise when the spelling is now unknown; when an edit gave the spelling another dimension, system[dim] / get_base_equivalent are "
    "still judged (they construct a unit), a conversion of data of the old dimension may raise, and data 'already in the system's "
    "unit' are not judged",
    "unit-system monitor: the 'code' and dataset-holder doors look the system up under the registry's current content id; the harness "
    "registers the same system object under that id right before such a call (what a dataset loader does once); the registry-default "
    "door sets registry.unit_system = system around the call; system[dim] = string is driven for derived dimensions only",
    "unit-system monitor: whether UnitSystem(...) must accept or refuse its arguments is judged only as 'every base spelling is known "
    "and has the base dimension of its slot under the current contents <=> accepted' (what the constructor documents)",
)
MIN_EVALS = 5000
TIMEOUT = 1500

# ----------------------------------------------------------------------------------------------------------- alphabet
CUSTOM = {"foo": True, "zed": False, "qux": True}      # symbol -> prefixable in the A/B variants
BUILTIN = {"pc": True}
SI_BASE = ("kg", "m", "s", "K", "rad", "A", "cd")
EDIT_KINDS = ("add", "readd", "modify-float", "modify-quantity", "remove", "define_unit")
PCLASSES = ("atomic", "prefixed", "compound", "prefixed-compound", "pair-compound", "alias", "alias-prefixed")
RULE_PROBES = ("mul", "sqrt", "div", "add")      # results that come straight out of the lru_cache'd unit rules
RULE_OF = {"mul": "mul", "mul-to-base": "mul", "mul-inv-base": "mul", "mul-mixed": "mul", "sqrt": "sqrt", "div": "div",
           "div-base": "div", "div-base2": "div", "add": "add", "add-base": "add", "rsub-base": "add"}
ACLASSES = ("create", "quantity", "to-base", "to-other", "to_value", "mul", "mul-to-base", "div", "add", "sqrt", "in_base",
            "convert_to_units", "unit-mul", "mul-inv-base", "div-base", "div-base2", "mul-mixed", "add-base", "rsub-base")


def _check_alphabet():
    for s in CUSTOM:
        assert s not in defs.T and names.resolve(s) is None, s
        for p in defs.PREFIX:
            assert names.resolve(p + s) is None and (p + s) not in defs.T, p + s


_check_alphabet()


def ops_for(sym, level):
    """edit catalogue for one symbol.  level 0: the six exhaustive ops; 1: + prefixable flip, modify back, own-registry
    quantity, quantity-form define_unit; 2: + offset variant"""
    pfx = CUSTOM.get(sym, BUILTIN.get(sym, False))
    other = "zed" if sym != "zed" else "foo"
    ops = [("add", sym, 2.0, "L", pfx, 0.0), ("add", sym, 0.5, "M", pfx, 0.0), ("modf", sym, 3.0),
           ("modq", sym, 4.0, "km/s", "default"), ("rm", sym), ("def", sym, 5.0, "g*cm", pfx, "own")]
    if level >= 1:
        ops += [("add", sym, 2.0, "L", not pfx, 0.0), ("modf", sym, 2.0), ("modq", sym, 2.0, other, "own"),
                ("def", sym, 0.25, "km", pfx, "default"), ("modq", sym, 1.0, "k" + other + "*s", "own"),
                ("add", sym, 1.5, "K", pfx, 10.0)]
        # electromagnetic dimensions (base conversion of such quantities walks another path: the CGS/SI pairing rebuilds every
        # atom of the unit from its string) and modify() by a quantity written in the edited symbol itself / its prefixed form
        ops += [("add", sym, 2.0, "M T-2 I-1", pfx, 0.0), ("add", sym, 0.5, "I T", pfx, 0.0)]
        if sym in CUSTOM:      # (a built-in symbol's own table value would enter the new value: the model holds the reference
            #                    table's number for it, equal only within its tolerance class - C02's subject)
            ops += [("modq", sym, 5.0, sym, "own"), ("modq", sym, 2.0, "k" + sym, "own")]
    if level >= 2:
        ops += [("add", sym, 1024.0, "L T-1", pfx, 0.0), ("modf", sym, 1e-3)]
    return ops


def unit_probes(syms, tier):
    """[(string, probe class, symbols mentioned)]"""
    P = []
    many = ["k", "m", "da", "d", "u", "G", "µ", "c"]
    for i, s in enumerate(syms):
        P.append((s, "atomic", (s,)))
        pre = (many if tier == "thorough" else ["k", "m"]) if i == 0 else ["k"]
        P += [(p + s, "prefixed", (s,)) for p in pre]
        P += [(s + "*s", "compound", (s,)), (s + "**2", "compound", (s,)), ("g/k" + s, "prefixed-compound", (s,))]
        if i == 0:
            P += [("1/" + s, "compound", (s,)), ("sqrt(" + s + ")", "compound", (s,)), ("m" + s + "**2*s", "prefixed-compound", (s,))]
        if s in BUILTIN:
            sp = {"pc": ("parsec", "kiloparsec", "Mpc")}[s]
            P += [(sp[0], "alias", (s,)), (sp[1], "alias-prefixed", (s,)), (sp[2] + "/s", "prefixed-compound", (s,))]
    for a, b in zip(syms, syms[1:]):
        P += [(a + "*" + b, "pair-compound", (a, b)), ("k" + a + "/" + b, "pair-compound", (a, b))]
    return P


def array_units(syms):
    """[(unit string, other spelling to convert to or None, symbols mentioned)]"""
    A = [(syms[0], "k" + syms[0], (syms[0],)), ("k" + syms[0], syms[0], (syms[0],))]
    if len(syms) > 1:
        A += [(syms[1], syms[0], (syms[1], syms[0])), (syms[0] + "*" + syms[1], None, (syms[0], syms[1]))]
    for s in syms[2:]:
        A.append((s, "k" + s, (s,)))
    return A


# ----------------------------------------------------------------------------------------------------------- helpers
def dimstr(e):
    v = dims.of_expr(e)
    return None if v is None else [str(x) for x in v]


def dimlist(v):
    return [str(x) for x in v]


def base_string(dimvec):
    parts = []
    for sym, x in zip(SI_BASE, dimvec):
        if x != 0:
            parts.append(sym if x == 1 else f"{sym}**({x})")
    assert dimvec[7] == 0
    return "*".join(parts) if parts else "dimensionless"


def exc(e):
    return ["exc", type(e).__name__]


def same_table(r1, r2):
    """harness bookkeeping, never a verdict: two registry objects are handles on one symbol table (the object itself or a
    shallow copy of it; unyt hands out shallow copies from Unit.copy() and the base-unit conversions)"""
    return r1 is r2 or getattr(r1, "lut", 1) is getattr(r2, "lut", 2)


def observe(unyt, reg, uprobes, aspecs, keep=False, rnames=(), carrier=None):
    """execute the probe set against a registry; pure observation.  Returns (outcomes dict, retained objects).
    carrier: a quantity in never-edited units that was obtained together with the handle `reg` (e.g. the result of
    q.in_mks()); it is converted to every probed array unit (the string is resolved through the carrier's own registry)"""
    out = {}
    objs = []
    Unit = unyt.Unit
    for n in rnames:            # the registry's own mapping interface (no parser in between)
        try:
            out["R|contains|" + n] = ["ok", bool(n in reg)]
        except Exception as e:
            out["R|contains|" + n] = exc(e)
        try:
            e_ = reg[n]
            out["R|getitem|" + n] = ["ok", float(e_[0]), dimstr(e_[1]), float(e_[2])]
        except Exception as e:
            out["R|getitem|" + n] = exc(e)
    for s in uprobes:
        try:
            u = Unit(s, registry=reg)
            out["U|" + s] = ["ok", float(u.base_value), dimstr(u.dimensions), float(u.base_offset)]
            if keep:
                objs.append(("unit", s, u))
        except Exception as e:
            out["U|" + s] = exc(e)
    for sp in aspecs:
        u, b, b2, other = sp["u"], sp["base"], sp["base2"], sp["other"]
        tag = "A|" + u + "|"

        def put(name, fn):
            try:
                r = fn()
                if r is None:
                    return None
                x = r[0] if isinstance(r, tuple) else r
                vals = np.atleast_1d(np.asarray(getattr(x, "d", x), dtype="f8")).tolist()
                uu = getattr(x, "units", None)
                out[tag + name] = ["ok", vals, None if uu is None else float(uu.base_value), None if uu is None else dimstr(uu.dimensions),
                                   None if uu is None else same_table(uu.registry, reg)]
                return x
            except Exception as e:
                out[tag + name] = exc(e)
                return None
        if carrier is not None:
            put("carrier-to", lambda: carrier.to(u))
        a = put("create", lambda: unyt.unyt_array(np.array([1.0, 2.5]), u, registry=reg))
        put("quantity", lambda: unyt.unyt_quantity(3.0, u, registry=reg))
        if a is None:
            continue
        put("to-base", lambda: a.to(b))
        put("to_value", lambda: a.to_value(b))
        if other:
            put("to-other", lambda: a.in_units(other))
        aa = put("mul", lambda: a * a)
        if aa is not None:
            put("mul-to-base", lambda: aa.to(b2))
            put("sqrt", lambda: np.sqrt(aa))
        put("div", lambda: a / a)
        put("add", lambda: a + a.to(b))
        put("in_base", lambda: a.in_base("mks"))
        # mixed-unit arithmetic: the probed unit meets units it can (partly) cancel against
        uq = unyt.unyt_quantity
        put("mul-inv-base", lambda: a * uq(2.0, "1/(" + b + ")", registry=reg))
        put("div-base", lambda: a / uq(2.0, b, registry=reg))
        put("div-base2", lambda: a / uq(4.0, b2, registry=reg))
        put("mul-mixed", lambda: a * uq(5.0, "kg/km", registry=reg))
        put("add-base", lambda: a + uq(3.25, b, registry=reg))
        put("rsub-base", lambda: uq(3.25, b, registry=reg) - a)

        def conv():
            c = a.copy()
            c.convert_to_units(b)
            return c
        put("convert_to_units", conv)
        put("unit-mul", lambda: unyt.unyt_quantity(1.0, Unit(u, registry=reg) * Unit(u, registry=reg)))
        if keep:
            objs.append(("array", u, a))
            if aa is not None:
                objs.append(("array-product", "(" + u + ")**2", aa))
    return out, objs


def feq(a, b, rel):
    if a is None or b is None:
        return a is b
    return a == b or abs(a - b) <= rel * max(abs(a), abs(b))


def same_obs(o1, o2, rel=1e-13):
    if o1[0] != o2[0]:
        return False
    if o1[0] == "exc":
        return o1[1] == o2[1]
    for x, y in zip(o1[1:4], o2[1:4]):       # element 4 (result bound to the probing registry) is judged separately
        if isinstance(x, float) or isinstance(y, float):
            if not feq(x, y, rel):
                return False
        elif isinstance(x, list) and x and isinstance(x[0], float):
            if not isinstance(y, list) or len(x) != len(y) or not all(feq(p, q, rel) for p, q in zip(x, y)):
                return False
        elif x != y:
            return False
    return True


def apply_real(unyt, reg, op):
    """execute one edit op on a real registry; returns 'ok' or the exception class name"""
    kind = op[0]
    try:
        if kind == "add":
            _, sym, scale, dimspec, pfx, offset = op
            reg.add(sym, scale, regmodel.dim_expr(unyt, dims.D(dimspec)), offset=(offset if offset else None), prefixable=pfx)
        elif kind == "modf":
            reg.modify(op[1], op[2])
        elif kind == "modq":
            _, sym, value, uex, where = op
            q = unyt.unyt_quantity(value, uex, registry=reg) if where == "own" else unyt.unyt_quantity(value, uex)
            reg.modify(sym, q)
        elif kind == "rm":
            reg.remove(op[1])
        elif kind == "def":
            _, sym, value, uex, pfx, where = op
            if where == "own":
                unyt.define_unit(sym, (value, uex), prefixable=pfx, registry=reg)
            else:
                unyt.define_unit(sym, unyt.unyt_quantity(value, uex), prefixable=pfx, registry=reg)
        else:
            raise AssertionError(kind)
    except AssertionError:
        raise
    except Exception as e:
        return type(e).__name__
    return "ok"


def edit_kind(op, pre_model):
    k = op[0]
    if k == "add":
        return "readd" if op[1] in pre_model.contents else "add"
    return {"modf": "modify-float", "modq": "modify-quantity", "rm": "remove", "def": "define_unit"}[k]


# ----------------------------------------------------------------------------------------------------------- cold side
def cold_handler(req):
    """runs in a process that never executed workload: fresh registry from the model's contents, same probes"""
    import unyt
    if req.get("what") == "ping":
        return {"pong": True, "cache": len(unyt.unit_registry.default_unit_registry._unit_object_cache)}
    if req.get("what") == "systems":
        return gs.cold(req)
    m = regmodel.RegModel.from_plain(req["model"])
    reg = regmodel.build_registry(unyt, m)
    out, _ = observe(unyt, reg, req["uprobes"], req["aspecs"], rnames=req.get("rnames", ()))
    return out


# ----------------------------------------------------------------------------------------------------------- session
class Table:
    """what belongs to one symbol TABLE (not to one registry object): every handle on the table - the registry itself,
    shallow copies of it, the registries of Unit.copy() / base-unit conversions - shares one instance"""

    def __init__(self, model):
        self.model = model
        self.last_edit = {}          # sym -> (edit kind, model.version after it, Session through which it was made)
        self.pred_hist = {}          # unit string -> list of earlier predictions
        self.last_kind = "none"      # kind of the most recent successful edit of this table
        self.dead = False
        self.handles = []            # Sessions (one per registry object) onto this table
        self.kin = []                # Sessions on OTHER tables related by independent copying (deepcopy, pickle, JSON)


def _shared(name):
    return property(lambda self: getattr(self.tab, name), lambda self, v: setattr(self.tab, name, v))


class Session:
    """one live registry OBJECT (a handle on a table) + the table's model + the bookkeeping the keys and cells are built from"""
    model, last_edit, pred_hist, last_kind, dead, kin = (_shared(n) for n in ("model", "last_edit", "pred_hist", "last_kind", "dead", "kin"))

    def __init__(self, unyt, rec, reg, model, syms, tier, provenance, srv):
        self.tab = Table(model)
        self.tab.handles.append(self)
        self.unyt, self.rec, self.reg = unyt, rec, reg
        self.syms, self.tier, self.prov, self.srv = syms, tier, provenance, srv
        self.uprobes = unit_probes(syms, tier)
        self.aunits = array_units(syms)
        self.constructed = {}        # probe key -> model.version at its last construction THROUGH THIS HANDLE
        self.retained = []           # dicts
        self.full_defaults = not provenance.startswith("empty+si")
        self.multi = False           # more than one live table in this history
        self.idcheck_always = False
        self.role = "original"       # "copy" for a handle obtained from another handle
        self.how = "new"             # how the handle was obtained
        self.carrier = None          # (quantity, value, unit string) obtained together with the handle

    # ---- several handles on one table
    def join(self, other, how):
        """this session is one more handle on other's table"""
        self.tab = other.tab
        self.tab.handles.append(self)
        self.role, self.how = "copy", how

    def editor_of(self, symbols):
        best = (None, -1)
        for s in symbols:
            k = self.last_edit.get(s)
            if k and k[1] > best[1]:
                best = (k[2], k[1])
        return best[0]

    def rel(self, symbols):
        """None, or 'edit-via-<role>:probe-via-<role>' when the last edit touching the symbols was made through ANOTHER handle
        on this table"""
        e = self.editor_of(symbols)
        if e is None or e is self or e not in self.tab.handles:
            return None
        return f"edit-via-{e.role}:probe-via-{self.role}"

    def sfx(self, symbols):
        r = self.rel(symbols)
        return "" if r is None else ":shared-table:" + r

    def cross(self, symbols, what, pclass, warm, decisive=True):
        """coverage of the several-handles class: one judged observation through a handle other than the editing one"""
        r = self.rel(symbols)
        if r is None:
            if len(self.tab.handles) > 1:
                self.rec.count("evals_shared_same_handle")
            return
        rec = self.rec
        rec.count("evals_shared_cross")
        rec.count("evals_shared_cross:" + r)
        if warm == "re":
            rec.count("evals_shared_cross_warm")      # built through THIS handle before the edit made through the other one
            rec.count("evals_shared_cross_warm:" + r)
        ed = self.editor_of(symbols)
        if self.reg is not ed.reg:
            rec.count("evals_shared_cross_distinct_objects")
        how = self.how if self.role == "copy" else ed.how       # the way the copy involved was obtained
        rec.reach(f"shared|{how}|{r}|{what}")
        rec.ok(("shared", how, r, self.edit_of(symbols)[0], what + ":" + pclass, warm))

    # ---- what the model expects
    def aspec(self, u, other):
        o = self.model.outcome(u)
        if o[0] != "ok":
            return {"u": u, "base": "m", "base2": "m**2", "other": other}
        d = o[2]
        if d[7] != 0:
            return None
        return {"u": u, "base": base_string(d), "base2": base_string(dims.power(d, 2)), "other": other}

    def has_offset(self, symbols):
        for s in symbols:
            e = self.model.contents.get(s)
            if e is not None and e.offset:
                return True
        return False

    def edit_of(self, symbols):
        best = ("none", -1)
        for s in symbols:
            k = self.last_edit.get(s)
            if k and k[1] > best[1]:
                best = k[:2]
        return best

    # ---- edits
    def edit(self, op):
        unyt, rec = self.unyt, self.rec
        if self.dead:
            return
        if op[0] in ("modq", "def") and op[-1] == "own":
            try:        # a quantity in an offset unit used as a definition: point or difference?  not stated, not driven
                if self.has_offset(self.model.evaluate(op[3]).symbols):
                    rec.count("skipped_offset_quantity_edits")
                    return
            except Exception:
                pass
        pre = self.model.copy()
        kind = edit_kind(op, pre)
        w = apply_real(unyt, self.reg, op)
        fresh = fresh_registry(unyt, pre)
        f = apply_real(unyt, fresh, op)
        rec.count("edit_calls")
        rec.count("edit:" + kind)
        if w != f:
            rec.violation(f"C12:{kind}:outcome-differs-from-fresh:warm={w}:fresh={f}",
                          f"{op} on the history's registry -> {w}; the same call on a fresh registry with the same contents -> {f}",
                          {"op": op, "prov": self.prov, "log": self.model.log[-12:]})
            self.dead = True
            return
        rec.ok(("edit-outcome", kind, "ok" if w == "ok" else "raise"))
        rec.count("evals_edit_outcome")
        m = self.model.apply(op)
        if (m == "ok") != (w == "ok"):
            rec.note(f"model-outcome-differs:{kind}:model={m}:real={w}")
            rec.count("abandoned_histories")
            self.dead = True
            return
        if w != "ok":
            return
        self.last_edit[op[1]] = (kind, self.model.version, self)
        self.last_kind = kind
        if len(self.tab.handles) > 1:
            rec.count("edits_shared_table")
            rec.count("edits_shared_table:via-" + self.role)
            rec.count("edits_shared_table:" + kind)
        if self.idcheck_always:
            # (6) memoised content hash, read right after the edit (before any lookup writes a derived entry into the table):
            # must be the hash a new registry object holding this very table computes - through every handle on the table
            for h in self.tab.handles:
                h.check_system_id(editor=self)
        for h in self.tab.handles:      # objects built through any handle before the edit keep the value they had
            h.check_retained(kind, op)

    # ---- probes
    def probe(self, subset=None, fresh=False, cold=False, arrays=True):
        if self.dead:
            return
        unyt, rec, model = self.unyt, self.rec, self.model
        ups = [p for i, p in enumerate(self.uprobes) if subset is None or i in subset]
        aspecs, ameta = [], {}
        if arrays:
            for j, (u, other, symbols) in enumerate(self.aunits):
                if subset is not None and (j + 1000) not in subset:
                    continue
                if self.has_offset(symbols):
                    continue
                sp = self.aspec(u, other)
                if sp is not None:
                    aspecs.append(sp)
                    ameta[u] = symbols
        ustrings = [p[0] for p in ups]
        rnames = [p[0] for p in ups if p[1] in ("atomic", "prefixed")]
        obs, objs = observe(unyt, self.reg, ustrings, aspecs, keep=True, rnames=rnames, carrier=self.carrier and self.carrier[0])
        rec.count("probe_rounds")
        if len(self.tab.handles) > 1:
            rec.count("probe_rounds_shared_table")
            rec.count("probe_rounds_shared_table:via-" + self.role)
        # (1) model oracle
        for (s, pclass, symbols) in ups:
            self.judge_unit(s, pclass, symbols, obs["U|" + s])
            if pclass in ("atomic", "prefixed"):
                self.judge_mapping(s, pclass, symbols, obs["R|contains|" + s], obs["R|getitem|" + s])
        for sp in aspecs:
            self.judge_array(sp, ameta[sp["u"]], obs)
        # (2) fresh registry, warm process
        if fresh:
            fr = fresh_registry(unyt, model)
            obs_f, _ = observe(unyt, fr, ustrings, aspecs, rnames=rnames)
            self.diff(obs, obs_f, "fresh", ups, ameta)
        # (3) cold process
        if cold and self.srv is not None:
            obs_c = self.srv.call({"model": model.plain(user_only=True), "uprobes": ustrings, "aspecs": aspecs, "rnames": rnames})
            if obs_c is None:
                rec.count("cold_failed")
            else:
                rec.count("cold_rounds")
                self.diff(obs, obs_c, "cold", ups, ameta)
        # bookkeeping after judging
        v = model.version
        for k in obs:
            self.constructed[k] = v
        self.retain(objs, aspecs)

    def check_system_id(self, editor=None):
        unyt, rec = self.unyt, self.rec
        rec.count("evals_system_id")
        if editor is not None and editor is not self:
            r = f"edit-via-{editor.role}:probe-via-{self.role}"
            rec.count("evals_shared_system_id")
            try:
                warm = self.reg.unit_system_id
                cold = unyt.UnitRegistry(lut=dict(self.reg.lut), add_default_symbols=False).unit_system_id
            except Exception as e:
                rec.note("unit_system_id-raised:" + type(e).__name__)
                return
            if warm == cold:
                rec.ok(("shared", self.how if self.role == "copy" else editor.how, r, self.last_kind, "system-id"))
            else:
                # one mechanism whatever the edit kind (the memo lives in the registry object, the table does not)
                rec.violation(f"C12:stale-unit_system_id:shared-table:{r}",
                              f"after {self.model.log[-1:]} made through another handle on the same table ({editor.how} / {self.how}), "
                              f"registry.unit_system_id of this handle is still {warm}; a new registry object holding exactly this table "
                              f"answers {cold} (Unit.__hash__ is built on it)",
                              {"prov": self.prov, "how": self.how, "editor": editor.how, "log": self.model.log[-12:]})
            return
        try:
            warm = self.reg.unit_system_id
            cold = unyt.UnitRegistry(lut=dict(self.reg.lut), add_default_symbols=False).unit_system_id
        except Exception as e:
            rec.note("unit_system_id-raised:" + type(e).__name__)
            return
        if warm == cold:
            rec.ok(("system-id", self.last_kind))
        else:
            rec.violation(f"C12:{self.last_kind}:stale-unit_system_id",
                          f"registry.unit_system_id is {warm} after {self.model.log[-3:]}, but a new registry object holding exactly the same "
                          f"table answers {cold}: the memoised hash was not reset by the edit (Unit.__hash__ is built on it)",
                          {"prov": self.prov, "log": self.model.log[-12:]})

    def warmth(self, key, edit_version):
        c = self.constructed.get(key)
        return "first" if c is None else ("re" if c < edit_version else "same")

    def judge_unit(self, s, pclass, symbols, o):
        rec, model = self.rec, self.model
        exp = model.outcome(s)
        kind, ver = self.edit_of(symbols)
        hist = self.pred_hist.setdefault(s, [])
        warm = self.warmth("U|" + s, ver)
        cell = ("model", kind, pclass, warm, exp[0])
        rec.reach(kind + "|" + pclass)
        rec.count("evals_model_unit")
        decisive = None
        for k_ in self.kin:          # independent copies: this table must not follow the other table's edits
            if k_.tab is not self.tab and k_.model.outcome(s)[:3] != exp[:3]:
                decisive = k_
                rec.count("evals_independent_decisive")
                rec.reach(f"independent|{self.how if self.how != 'new' else k_.how}|{pclass}")
                break
        case = {"string": s, "observed": o, "expected": [exp[0]] + ([exp[1], dimlist(exp[2])] if exp[0] == "ok" else []),
                "last_edit": kind, "prov": self.prov, "log": model.log[-12:]}
        bad = None
        if exp[0] == "unknown":
            if o[0] == "ok":
                stale = any(h[0] == "ok" and feq(h[1], o[1], 1e-9) and dimlist(h[2]) == o[2] for h in hist)
                bad = ("still-known" if stale else "resolves-unknown-name",
                       f"Unit({s!r}) = scale {o[1]!r} dims {o[2]} although no current entry gives that name a meaning")
        else:
            _, scale, d, tol = exp
            if o[0] != "ok":
                bad = ("unknown", f"Unit({s!r}) raised {o[1]}; current contents give scale {scale!r} dims {dims.show(d)}")
            elif o[2] != dimlist(d):
                stale = any(h[0] == "ok" and dimlist(h[2]) == o[2] for h in hist)
                bad = ("stale-dimension" if stale else "wrong-dimension",
                       f"Unit({s!r}) has dims {o[2]}; current contents give {dims.show(d)}")
            elif not feq(o[1], scale, tol + 1e-12):
                stale = any(h[0] == "ok" and feq(h[1], o[1], 1e-9) for h in hist)
                bad = ("stale" if stale else "wrong-scale", f"Unit({s!r}).base_value = {o[1]!r}; current contents give {scale!r}")
            elif pclass in ("atomic", "prefixed"):
                r = model.lookup(s)
                if r is not None and not feq(o[3], r.offset, 1e-12):
                    bad = ("offset", f"Unit({s!r}).base_offset = {o[3]!r}; current entry has {r.offset!r}")
        if bad and decisive is not None:
            eo = decisive.model.outcome(s)
            if (eo[0] == "unknown" and o[0] != "ok") or (eo[0] == "ok" and o[0] == "ok" and o[2] == dimlist(eo[2]) and feq(o[1], eo[1], eo[3] + 1e-12)):
                bad = ("follows-independent-copy", bad[1] + f"; that is what the table of the independent copy ({decisive.how}/{self.how}) holds after {decisive.model.log[-2:]}")
        if bad:
            rec.violation(f"C12:{kind}:{bad[0]}:{pclass}" + self.sfx(symbols), bad[1] + f" (after {kind}; history {model.log[-6:]}; handle {self.how})", dict(case, how=self.how))
        else:
            rec.ok(cell)
            self.cross(symbols, "unit", pclass, warm)
            if decisive is not None:
                rec.ok(("independent", self.how, decisive.how, kind, pclass))
        if not hist or hist[-1] != exp:
            hist.append(exp)

    def judge_mapping(self, s, pclass, symbols, oc, og):
        """`name in registry` and `registry[name]`: entry or SI prefix + prefixable entry, nothing else"""
        rec, model = self.rec, self.model
        r = model.lookup(s, builtin_spellings=False)
        kind, ver = self.edit_of(symbols)
        rec.count("evals_model_mapping", 2)
        rec.reach(kind + "|mapping:" + pclass)
        case = {"name": s, "contains": oc, "getitem": og, "expected": None if r is None else [r.scale, dimlist(r.dim)], "prov": self.prov,
                "log": model.log[-12:]}
        if oc != ["ok", r is not None]:
            rec.violation(f"C12:{kind}:registry-contains:{pclass}" + self.sfx(symbols), f"({s!r} in registry) -> {oc}; current contents say {r is not None} "
                          f"(after {kind}; history {model.log[-6:]})", case)
        else:
            rec.ok(("model", kind, "contains:" + pclass, r is not None))
        if r is None:
            good = og[0] == "exc"
            what = "still-known"
        else:
            good = og[0] == "ok" and og[2] == dimlist(r.dim) and feq(og[1], r.scale, r.tol + 1e-12) and feq(og[3], r.offset, 1e-12)
            what = "unknown" if og[0] != "ok" else "stale-or-wrong"
        if good:
            rec.ok(("model", kind, "getitem:" + pclass, r is not None))
            self.cross(symbols, "mapping", pclass, self.warmth("R|getitem|" + s, ver))
        else:
            rec.violation(f"C12:{kind}:registry-getitem:{what}:{pclass}" + self.sfx(symbols), f"registry[{s!r}] -> {og}; current contents give "
                          f"{'no such symbol' if r is None else (r.scale, dims.show(r.dim), r.offset)} (after {kind}; history {model.log[-6:]})", case)

    def expected_array(self, sp):
        """name -> (SI values, dimvec, unit scale or None, tol) or 'raise' or None (not judged)"""
        m = self.model
        o = m.outcome(sp["u"])
        E = {}
        if o[0] != "ok":
            for n in ("create", "quantity") + (("carrier-to",) if self.carrier else ()):
                E[n] = "raise"
            return E
        _, s, d, tol = o
        v = np.array([1.0, 2.5])
        if self.carrier:
            oc = m.outcome(self.carrier[2])
            if oc[0] == "ok":          # (the carrier's own unit is never edited by the alphabet; not judged should it vanish)
                E["carrier-to"] = (np.array([self.carrier[1] * oc[1]]), d, s, tol + oc[3]) if oc[2] == d else "raise"
        ob, ob2 = m.outcome(sp["base"]), m.outcome(sp["base2"])
        E["create"] = (v * s, d, s, tol)
        E["quantity"] = (np.array([3.0]) * s, d, s, tol)
        E["mul"] = (v * v * s * s, dims.power(d, 2), None, 2 * tol)
        E["sqrt"] = (v * s, d, None, 2 * tol)
        E["div"] = (np.array([1.0, 1.0]), dims.ZERO, None, tol)
        E["unit-mul"] = (np.array([s * s]), dims.power(d, 2), None, 2 * tol)
        if ob[0] == "ok" and ob[2] == d:
            E["to-base"] = (v * s, d, ob[1], tol)
            E["to_value"] = (v * s / ob[1], None, None, tol)
            E["add"] = (2 * v * s, d, None, tol)
            E["convert_to_units"] = (v * s, d, ob[1], tol)
            if self.full_defaults:      # the mks unit system may name any default symbol (J/kg for length**2/time**2, ...)
                E["in_base"] = (v * s, d, None, tol)
            E["mul-inv-base"] = (v * s * 2.0 / ob[1], dims.ZERO, None, tol)
            E["div-base"] = (v * s / (2.0 * ob[1]), dims.ZERO, None, tol)
            E["add-base"] = (v * s + 3.25 * ob[1], d, None, 4 * tol)
            E["rsub-base"] = (3.25 * ob[1] - v * s, d, None, 16 * tol)
            if ob2[0] == "ok":
                E["div-base2"] = (v * s / (4.0 * ob2[1]), dims.div(d, dims.power(d, 2)), None, tol)
            okm = m.outcome("kg/km")
            if okm[0] == "ok":
                E["mul-mixed"] = (v * s * 5.0 * okm[1], dims.mul(d, okm[2]), None, tol + okm[3])
        else:
            E["to-base"] = E["to_value"] = E["convert_to_units"] = "raise"
        if ob2[0] == "ok" and ob2[2] == dims.power(d, 2):
            E["mul-to-base"] = (v * v * s * s, dims.power(d, 2), ob2[1], 2 * tol)
        else:
            E["mul-to-base"] = "raise"
        if sp["other"]:
            oo = m.outcome(sp["other"])
            if oo[0] == "ok" and oo[2] == d:
                E["to-other"] = (v * s, d, oo[1], tol + oo[3])
            else:
                E["to-other"] = "raise"
        return E

    def _array_bad(self, name, e, o, u):
        """None when the observed outcome o of sub-probe `name` on unit string u agrees with the expectation e"""
        if e == "raise":
            if o[0] == "ok":
                return ("not-refused", f"{name} with unit string {u!r} returned {o[1:]} although the current contents give the "
                                       f"string no meaning / another dimension")
            return None
        si, d, uscale, tol = e
        tol = tol + 1e-12
        if o[0] != "ok":
            return ("raised", f"{name} on [1.0, 2.5] {u} raised {o[1]}; current contents give SI values {si.tolist()}")
        vals = np.array(o[1])
        got = vals * (o[2] if o[2] is not None else 1.0)
        if d is not None and o[3] != dimlist(d):
            return ("dimension", f"{name} on {u} data has dims {o[3]}; current contents give {dims.show(d)}")
        if got.shape != si.shape or not np.all(np.abs(got - si) <= tol * np.abs(si)):
            return ("value", f"{name} on [1.0, 2.5] {u}: SI values {got.tolist()} (data {o[1]}, unit scale {o[2]}); "
                             f"current contents give {si.tolist()}")
        if uscale is not None and not feq(o[2], uscale, tol):
            return ("unit-scale", f"{name} on {u}: result unit scale {o[2]!r}; requested unit has {uscale!r}")
        return None

    def judge_array(self, sp, symbols, obs):
        rec, model = self.rec, self.model
        kind, ver = self.edit_of(symbols)
        E = self.expected_array(sp)
        u = sp["u"]
        failed = []
        for name, e in E.items():
            key = "A|" + u + "|" + name
            o = obs.get(key)
            if o is None or e is None:
                continue
            rec.reach(kind + "|array:" + name)
            rec.count("evals_model_array")
            warm = self.warmth(key, ver)
            cell = ("model", kind, "array:" + name, warm, "raise" if e == "raise" else "ok")
            case = {"unit": u, "probe": name, "spec": sp, "observed": o, "last_edit": kind, "prov": self.prov, "log": model.log[-12:]}
            if o[0] == "ok" and o[4] is False and name in RULE_PROBES:
                # mechanism of its own: the result unit belongs to a registry the operands do not belong to; every later
                # string conversion of the result is then read against that other registry's contents
                rec.violation(f"C12:result-bound-to-other-registry:{name}",
                              f"{name} on data in {u!r} created with registry=reg returned units whose .registry is not reg "
                              f"(another live registry had equal contents when the cached unit rule was first evaluated); "
                              f"later .to(<string>) of the result is resolved against the other registry", case)
            bad = self._array_bad(name, e, o, u)
            if bad:
                failed.append((name, e, bad, case))
            else:
                rec.ok(cell)
                self.cross(symbols, "array", name, warm)
        if not failed:
            return
        # (only in histories with several live registries: single-registry histories carry a unique mark, nothing foreign can
        # be cached for them, and an extra add() could cure an unrelated staleness and hide it)
        # diagnosis by consequence, through the public interface only: give this registry a table no other registry has (one
        # more unique symbol) and repeat the sub-probes that failed.  The unit-rule caches are keyed by the table's hash, so a
        # failure that disappears was caused by an entry cached for *another* registry of equal contents (known mechanism,
        # keyed per rule); a failure that stays is reported under its own key.
        redo = {}
        # (not for a table with several handles: the extra add() through this handle would also cure a memo that the edit
        # made through the other handle failed to reach, and file that under the foreign-cache key)
        if self.multi and len(self.tab.handles) == 1 and any(n in RULE_OF for n, _, _, _ in failed):
            add_mark(self.unyt, self.reg, model, next_mark("c12probe"))
            rec.count("foreign_cache_diagnoses")
            redo, _ = observe(self.unyt, self.reg, [], [sp])
        for name, e, bad, case in failed:
            o2 = redo.get("A|" + u + "|" + name)
            if name in RULE_OF and o2 is not None and self._array_bad(name, e, o2, u) is None:
                rec.violation(f"C12:result-bound-to-other-registry:{RULE_OF[name]}",
                              f"{bad[1]}; the same call is right once this registry's table differs from every other registry's "
                              f"(cached unit rule of another registry with equal contents answered)", case)
            else:
                rec.violation(f"C12:{kind}:array-{bad[0]}:{name}" + self.sfx(symbols), bad[1] + f" (after {kind}; history {model.log[-6:]}; handle {self.how})",
                              dict(case, how=self.how))

    def diff(self, obs, other, which, ups, ameta):
        rec = self.rec
        pcl = {"U|" + s: (pc, sy) for (s, pc, sy) in ups}
        for k, o in obs.items():
            o2 = other.get(k)
            if o2 is None:
                continue
            if k in pcl:
                pclass, symbols = pcl[k]
            elif k.startswith("R|"):
                _, api, n = k.split("|")
                pclass, symbols = api + ":" + pcl["U|" + n][0], pcl["U|" + n][1]
            else:
                _, u, name = k.split("|")
                pclass, symbols = "array:" + name, ameta.get(u, ())
            kind, ver = self.edit_of(symbols)
            rec.count("evals_" + which)
            unbound = [x for x in (o, o2) if x[0] == "ok" and len(x) > 4 and x[4] is False]
            rule = RULE_OF.get(pclass[6:]) if pclass.startswith("array:") else None
            if unbound and rule and (pclass[6:] in RULE_PROBES or not same_obs(o, o2)):
                # the result unit belongs to another registry of (then) equal contents; when that registry was edited since,
                # its table also leaks into how the result is simplified and labelled.  One mechanism, one key per unit rule.
                rec.violation(f"C12:result-bound-to-other-registry:{rule}",
                              f"{k}: result units bound to a registry the operands do not belong to (history -> {o}; {which} -> {o2})",
                              {"probe": k, "warm": o, which: o2, "prov": self.prov, "log": self.model.log[-12:]})
                continue
            if same_obs(o, o2):
                rec.ok((which, kind, pclass, self.warmth(k, ver), o[0]))
                self.cross(symbols, which, pclass, self.warmth(k, ver))
            else:
                what = "exception-class" if (o[0] == "exc" and o2[0] == "exc") else ("raises-only-" + ("warm" if o[0] == "exc" else which) if o[0] != o2[0] else "result")
                rec.violation(f"C12:{kind}:warm-vs-{which}:{what}:{pclass}" + self.sfx(symbols),
                              f"{k}: after the history -> {o}; {which} registry with the same contents -> {o2} (history {self.model.log[-6:]})",
                              {"probe": k, "warm": o, which: o2, "prov": self.prov, "log": self.model.log[-12:]})

    def clone_check(self, how):
        """a copy of a registry (deepcopy / JSON / pickle) must hold the contents of the original: judged once, right after
        the copy was made, under its own key; a copy that already differs is not driven further"""
        rec, model = self.rec, self.model
        obs, _ = observe(self.unyt, self.reg, [p[0] for p in self.uprobes], [])
        for (s, pclass, symbols) in self.uprobes:
            o, exp = obs["U|" + s], model.outcome(s)
            rec.count("evals_clone")
            rec.reach(f"clone-{how}|{pclass}")
            if exp[0] == "unknown":
                good = o[0] == "exc"
            else:
                good = o[0] == "ok" and o[2] == dimlist(exp[2]) and feq(o[1], exp[1], exp[3] + 1e-12)
            if good:
                rec.ok(("clone", how, pclass, exp[0]))
            else:
                self.dead = True
                m2 = model.copy()
                m2.contents.update(PRISTINE().contents)
                d0 = m2.outcome(s)
                reverted = d0[0] == "ok" and o[0] == "ok" and o[2] == dimlist(d0[2]) and feq(o[1], d0[1], d0[3] + 1e-12)
                rec.violation(f"C12:clone-{how}:{'default-symbol-restored' if reverted else 'contents-differ'}",
                              f"{how} copy of a registry after {model.log[-4:]}: Unit({s!r}, registry=copy) -> {o}; the original's contents give "
                              f"{exp[:2] if exp[0] == 'ok' else 'unknown name'}",
                              {"how": how, "string": s, "observed": o, "prov": self.prov, "log": model.log[-12:]})

    # ---- retained objects
    def retain(self, objs, aspecs):
        base = {sp["u"]: sp for sp in aspecs}
        v = self.model.version
        have = {(r["kind"], r["string"], r["version"]) for r in self.retained}
        for kind, s, x in objs:
            if (kind, s, v) in have:
                continue
            if kind == "unit":
                if not (s in self.syms or s == "k" + self.syms[0]):
                    continue
                r = {"kind": "unit", "string": s, "obj": x, "version": v,
                     "snap": (float(x.base_value), dimstr(x.dimensions), float(x.base_offset), str(x.expr)), "symbols": None}
            else:
                u = s if kind == "array" else s[1:-4]
                sp = base.get(u)
                if sp is None or not same_table(x.units.registry, self.reg):     # the second case is reported by judge_array
                    continue
                b = sp["base"] if kind == "array" else sp["base2"]
                try:
                    si = np.asarray(x.to(b).d, dtype="f8").tolist()
                except Exception:
                    continue
                r = {"kind": kind, "string": s, "obj": x, "version": v, "base": b, "si": si, "m": self.model.outcome(u),
                     "snap": (np.asarray(x.d).tobytes(), float(x.units.base_value), dimstr(x.units.dimensions), str(x.units.expr))}
            self.retained.append(r)
        if len(self.retained) > 10:        # keep the oldest four and the newest six
            self.retained = self.retained[:4] + self.retained[-6:]

    def check_retained(self, kind, op):
        rec, model = self.rec, self.model
        sf = self.sfx((op[1],))          # non-empty when the edit was made through another handle on this table
        for r in self.retained:
            if sf:
                rec.count("evals_shared_retained")
                rec.reach(f"shared|{self.how if self.role == 'copy' else self.editor_of((op[1],)).how}|{sf[14:]}|retained")
            x = r["obj"]
            case = {"retained": r["kind"], "string": r["string"], "created_at_version": r["version"], "op": op, "prov": self.prov,
                    "log": model.log[-12:]}
            rec.count("evals_retained")
            rec.reach(kind + "|retained:" + r["kind"])
            if r["kind"] == "unit":
                now = (float(x.base_value), dimstr(x.dimensions), float(x.base_offset), str(x.expr))
                if now != r["snap"]:
                    rec.violation(f"C12:{kind}:retained-changed:unit" + sf, f"Unit({r['string']!r}) built before {op} changed from {r['snap']} to {now}", case)
                else:
                    rec.ok(("retained", kind, "unit", "snapshot"))
                continue
            now = (np.asarray(x.d).tobytes(), float(x.units.base_value), dimstr(x.units.dimensions), str(x.units.expr))
            if now != r["snap"]:
                rec.violation(f"C12:{kind}:retained-changed:{r['kind']}" + sf, f"array in {r['string']} built before {op} changed: units {r['snap'][1:]} -> {now[1:]}", case)
                continue
            rec.ok(("retained", kind, r["kind"], "snapshot"))
            # conversion to SI base units still gives the values it had
            rec.count("evals_retained")
            try:
                got = np.asarray(x.to(r["base"]).d, dtype="f8")
                if got.shape != np.shape(r["si"]) or not np.all(np.abs(got - np.array(r["si"])) <= 1e-12 * np.abs(np.array(r["si"]))):
                    rec.violation(f"C12:{kind}:retained-value:{r['kind']}:to-base" + sf, f"array in {r['string']} built before {op}: .to({r['base']!r}) was {r['si']}, now {got.tolist()}", case)
                else:
                    rec.ok(("retained", kind, r["kind"], "to-base"))
            except Exception as e:
                # (no handle suffix: an exception here comes from re-reading the unit's atoms against the table itself, which is
                # the same through every handle - one mechanism whichever handle made the edit)
                rec.violation(f"C12:{kind}:retained-value:{r['kind']}:to-base-raises", f"array in {r['string']} built before {op}: .to({r['base']!r}) now raises {type(e).__name__}: {e}", case)
            # conversion to the creating string under the *current* contents
            try:
                if self.has_offset(model.evaluate(r["string"]).symbols):
                    continue            # conversion *to* an offset scale applies the zero point: C08's subject
            except Exception:
                pass
            rec.count("evals_retained")
            o = model.outcome(r["string"])
            bo = model.outcome(r["base"])
            try:
                got = np.asarray(x.to(r["string"]).d, dtype="f8")
                raised = None
            except Exception as e:
                got, raised = None, type(e).__name__
            if o[0] == "ok" and bo[0] == "ok" and o[2] == bo[2]:
                want = np.array(r["si"]) * bo[1] / o[1]
                if raised:
                    rec.violation(f"C12:{kind}:retained-to-current:{r['kind']}:raises" + sf, f"array built in {r['string']} before {op}: .to({r['string']!r}) raises {raised}; old value / current scale gives {want.tolist()}", case)
                elif not np.all(np.abs(got - want) <= (o[3] + bo[3] + 1e-12) * np.abs(want)):
                    rec.violation(f"C12:{kind}:retained-to-current:{r['kind']}:value" + sf, f"array built in {r['string']} before {op}: .to({r['string']!r}) = {got.tolist()}; old SI value {r['si']} over the current scale {o[1]!r} gives {want.tolist()}", case)
                else:
                    rec.ok(("retained", kind, r["kind"], "to-current"))
            else:
                if raised is None:
                    rec.violation(f"C12:{kind}:retained-to-current:{r['kind']}:not-refused" + sf, f"array built in {r['string']} before {op}: .to({r['string']!r}) returned {got.tolist()} although the string is now {'unknown' if o[0] != 'ok' else 'of another dimension'}", case)
                else:
                    rec.ok(("retained", kind, r["kind"], "to-current-refused"))


# ----------------------------------------------------------------------------------------------------------- generations
# (7) the same operation on arrays of several GENERATIONS (built with one spelling before / between / after edits), applied only
# after the last edit, in a chosen order: each result must be the one implied by the scale its operand was built with
GEN_ADDITIVE = ("x+T", "T-x", "x-x[::-1]", "np.diff", "a+b", "a-b", "x+x")
GEN_NO_HISTORY = ("x.in_base", "x.to(T.units)")        # conversions of a retained object: judged by check_retained
GEN_WHO_POS = tuple((w, p) for w in ("pre-edit", "post-edit") for p in ("first", "later"))


def gen_measure(unyt, res):
    """result as a physical quantity: ['q', SI values, dims] / ['bool', list, None]"""
    if isinstance(res, unyt.Unit):
        return ["q", [float(res.base_value)], dimstr(res.dimensions)]
    uu = getattr(res, "units", None)
    arr = np.atleast_1d(np.asarray(getattr(res, "d", res)))
    if arr.dtype == bool:
        return ["bool", [bool(b) for b in arr.ravel()], None]
    vals = arr.astype("f8").ravel()
    if uu is None:
        return ["q", vals.tolist(), dimlist(dims.ZERO)]
    return ["q", (vals * float(uu.base_value)).tolist(), dimstr(uu.dimensions)]


def gen_match(e, o, tol, magn=0.0):
    """None when observation o agrees with expectation e, else the failure kind"""
    if e == "raise":
        return None if o[0] == "exc" else "not-refused"
    if o[0] == "exc":
        return "raised"
    if e[0] == "bool":
        return None if (o[0] == "bool" and o[1] == e[1]) else "value"
    if o[0] != "q":
        return "value"
    if o[2] != dimlist(e[2]):
        return "dimension"
    want, got = np.asarray(e[1], dtype="f8").ravel(), np.asarray(o[1], dtype="f8")
    if want.shape != got.shape or not np.all(np.abs(got - want) <= tol * (np.abs(want) + magn)):
        return "value"
    return None


def gen_as_obs(e):
    return ["exc", "-"] if e == "raise" else (["bool", e[1], None] if e[0] == "bool" else ["q", np.asarray(e[1], dtype="f8").ravel().tolist(), dimlist(e[2])])


def judge_generations(unyt, rec, reg, gens, order, opnames, crossnames, label, uclass, state, ctx, in_base=True):
    """gens: [{'x': array, 'v': raw values, 'scale','dim','tol' of its spelling when it was built, 'who'}] oldest first;
    order: the order in which the generations are evaluated for every operation; reg: registry the helper quantities
    (threshold T in SI base units, 3 s) are created against, after the last edit"""
    uq = unyt.unyt_quantity
    g0, gl = gens[0], gens[-1]
    a0, al = abs(g0["v"][0] * g0["scale"]), abs(gl["v"][0] * gl["scale"])
    t_si = float(np.sqrt(a0 * al)) if (g0["dim"] == gl["dim"] and a0 != al) else 1.7 * al
    S = uq(3.0, "s", registry=reg)
    Ts = {}
    for g in gens:
        if g["dim"] not in Ts:
            Ts[g["dim"]] = uq(t_si, base_string(g["dim"]), registry=reg)
    rec.count("generation_cases")

    def settle(name, g, pos, e, alts, o, tol, magn, cross=False):
        rec.count("evals_generations")
        who = g["who"]
        position = "first" if pos == 0 else "later"
        decisive = any(gen_match(e, gen_as_obs(a), tol, magn) is not None for a in alts)
        bad = gen_match(e, o, tol, magn)
        if cross:
            rec.count("evals_generations_cross")
        if decisive:
            rec.count("evals_generations_decisive")
            rec.count(f"evals_generations_decisive:{who}:{position}")
            if e != "raise" and e[0] == "bool":
                rec.count("evals_generations_bool_decisive")
            rec.reach(f"generations|{name}|{who}|{position}")
        if bad is None:
            rec.ok(("generations", label, name, who, position, uclass, state, "decisive" if decisive else "control"))
            return
        for a, rel in alts_rel(alts, g):
            if gen_match(a, o, tol, magn) is None and gen_match(e, gen_as_obs(a), tol, magn) is not None:
                bad = "takes-scale-of-" + rel + "-generation"
                break
        rec.violation(f"C12:{label}:generations:{name}:{who}-operand:{bad}:evaluated-{position}",
                      f"{name} on an array built in {ctx['u']!r} {who} ({ctx['history']}), applied after the last edit as "
                      f"{'the first' if pos == 0 else 'a later'} of the generations (order {list(order)}): got {o}; the operand's values x the "
                      f"scale its spelling had when it was built ({g['scale']!r}) give {gen_as_obs(e)}",
                      dict(ctx, op=name, order=list(order), generation=g["n"], state=state, observed=o))

    def alts_rel(alts, g):
        return [(a, "an-earlier" if j < g["n"] else "a-later") for a, j in zip(alts, [h["n"] for h in gens if h is not g])]

    for name in opnames:
        if name in ("x.in_base",) and not in_base:
            continue
        fn, expect = gp.UNARY[name]
        for pos, gi in enumerate(order):
            g = gens[gi]
            T = Ts[g["dim"]]
            try:
                o = gen_measure(unyt, fn(np, unyt, g["x"], T, S))
            except Exception as ex:
                o = exc(ex)
            q = g["v"] * g["scale"]
            e = expect(q, g["dim"], t_si, g["v"])
            alts = [expect(h["v"] * h["scale"], h["dim"], t_si, h["v"]) for h in gens if h is not g]
            magn = max(float(np.abs(q).max()), t_si) if name in GEN_ADDITIVE else 0.0
            settle(name, g, pos, e, alts, o, 4 * g["tol"] + 1e-12, magn)
    # the generations combined with each other (both orientations), after the one-operand operations
    pairs = [(i, i + 1) for i in range(len(gens) - 1)] + ([(0, len(gens) - 1)] if len(gens) > 2 else [])
    for name in crossnames:
        fn, expect = gp.CROSS[name]
        for (i, j) in pairs:
            for (ai, bi) in ((i, j), (j, i)):
                a, b = gens[ai], gens[bi]
                try:
                    o = gen_measure(unyt, fn(np, unyt, a["x"], b["x"]))
                except Exception as ex:
                    o = exc(ex)

                def ex_(sa, sb):
                    if expect is None:
                        return ("q", np.array([sa * sb]), dims.mul(a["dim"], b["dim"]))
                    return expect(a["v"] * sa, a["dim"], b["v"] * sb, b["dim"])
                e = ex_(a["scale"], b["scale"])
                if e is None:
                    rec.count("generations_not_judged:" + name)
                    continue
                # what a confusion of the two generations would give: both at a's scale / both at b's scale
                alts = [ex_(a["scale"], a["scale"]), ex_(b["scale"], b["scale"])] if a["dim"] == b["dim"] else []
                magn = float(max(np.abs(a["v"] * a["scale"]).max(), np.abs(b["v"] * b["scale"]).max())) if name in GEN_ADDITIVE else 0.0
                g = dict(a, who="mixed")
                rec.count("evals_generations")
                rec.count("evals_generations_cross")
                tol = 4 * (a["tol"] + b["tol"]) + 1e-12
                decisive = any(gen_match(e, gen_as_obs(x), tol, magn) is not None for x in alts)
                if decisive:
                    rec.count("evals_generations_cross_decisive")
                    rec.reach(f"generations|{name}|mixed")
                bad = gen_match(e, o, tol, magn)
                if bad is None:
                    rec.ok(("generations", label, name, "mixed", "old-left" if ai < bi else "new-left", uclass, state))
                    continue
                if any(gen_match(x, o, tol, magn) is None for x in alts):
                    bad = "both-operands-at-one-scale"
                rec.violation(f"C12:{label}:generations:{name}:mixed-operands:{bad}",
                              f"{name} with a = array built in {ctx['u']!r} in generation {a['n']} (scale {a['scale']!r}) and b = the one of "
                              f"generation {b['n']} (scale {b['scale']!r}) ({ctx['history']}): got {o}; the operands' own values give {gen_as_obs(e)}",
                              dict(ctx, op=name, a=a["n"], b=b["n"], state=state, observed=o))


def gen_orders(n, tier):
    fw = tuple(range(n))
    out = [fw, fw[::-1]]
    if tier == "thorough" and n > 2:
        out += [p for p in itertools.permutations(fw) if p not in out][:4]
    return out


def run_generations(unyt, rec, tier, labels, hows):
    """enumerated part of (7): base state - array - [edit step - array]* - operations on all arrays"""
    scripts = gp.SCRIPTS_THOROUGH if tier == "thorough" else gp.SCRIPTS
    spellings = gp.SPELLINGS_THOROUGH if tier == "thorough" else gp.SPELLINGS_QUICK
    unary, cross = tuple(gp.UNARY), tuple(gp.CROSS)
    vals = np.array([4.0, 9.0])
    for label in labels:
        script = scripts[label]
        uses_copy = any(h == "c" for step in script for h, _ in step) or label in gp.BUILD_VIA
        for how in (hows if uses_copy else (None,)):
            for (u, uclass) in spellings:
                states = [("cold", unary), ("warm-before-edit", unary)]
                if tier == "thorough" and len(script) == 1:
                    states += [("isolated", (n,)) for n in gp.RULE_OPS]
                for state, opnames in states:
                    for order in gen_orders(len(script) + 1, tier):
                        reg, model = unyt.UnitRegistry(), regmodel.RegModel(defaults=True)
                        add_mark(unyt, reg, model, next_mark())
                        ok = True
                        for b in HANDLE_BASE["with"]:
                            ok = ok and apply_real(unyt, reg, b) == "ok" and model.apply(b) == "ok"
                        H = {"o": reg, "c": make_handle(unyt, reg, how)[0] if how else reg}
                        via = gp.BUILD_VIA.get(label, "o" * (len(script) + 1))
                        gens = []

                        def build(n):
                            m = model.outcome(u)
                            if m[0] != "ok":
                                return False
                            x = unyt.unyt_array(vals.copy(), u, registry=H[via[n]])
                            gens.append({"x": x, "v": vals, "scale": m[1], "dim": m[2], "tol": m[3], "n": n, "who": None})
                            return True
                        try:
                            ok = ok and build(0)
                            if ok and state == "warm-before-edit":
                                S0, T0 = unyt.unyt_quantity(3.0, "s", registry=reg), unyt.unyt_quantity(7.0, base_string(gens[0]["dim"]), registry=reg)
                                for n in unary:
                                    gp.UNARY[n][0](np, unyt, gens[0]["x"], T0, S0)
                            for k, step in enumerate(script):
                                for h, op in step:
                                    ok = ok and apply_real(unyt, H[h], op) == "ok" and model.apply(op) == "ok"
                                ok = ok and build(k + 1)
                        except Exception as ex:
                            rec.note(f"generations-setup-raised:{label}:{type(ex).__name__}")
                            ok = False
                        if not ok:
                            rec.note("generations-setup-failed:" + label)
                            continue
                        for g in gens:
                            g["who"] = "post-edit" if g["n"] == len(gens) - 1 else "pre-edit"
                        rec.count("generation_scripts:" + label)
                        if how:
                            rec.count("generation_handles:" + how)
                        ctx = {"u": u, "history": f"foo = 2 m, zed = 0.5 kg; then {script}" + (f"; second handle by {how}, arrays built via {via}" if how else ""),
                               "scales": [g["scale"] for g in gens]}
                        judge_generations(unyt, rec, H[via[-1]], gens, order, opnames, cross if state != "isolated" else (), label, uclass, state, ctx)
    rec.sample({"generations": list(labels), "spellings": [s for s, _ in spellings], "unary": list(unary), "cross": list(cross)})


_GEN_ROT = itertools.count()


def session_generations(sess):
    """(7) inside the histories: a retained pre-edit array and a new array of the same spelling, same operation on both"""
    unyt, rec, model = sess.unyt, sess.rec, sess.model
    if sess.dead:
        return
    cands = []
    for r in sess.retained:
        m = r.get("m")
        if r["kind"] != "array" or not m or m[0] != "ok":
            continue
        o = model.outcome(r["string"])
        if o[0] != "ok" or o[2][7] != 0 or o[2][5] != 0 or m[2][5] != 0:
            continue
        try:
            if sess.has_offset(model.evaluate(r["string"]).symbols):
                continue
        except Exception:
            continue
        cands.append((0 if not feq(o[1], m[1], 1e-9) or o[2] != m[2] else 1, r, o))
    cands.sort(key=lambda c: c[0])
    unary = [n for n in gp.UNARY if n not in GEN_NO_HISTORY]
    cross = list(gp.CROSS)
    for _, r, o in cands[:2]:
        k = next(_GEN_ROT)
        vals = np.array([1.0, 2.5])
        try:
            B = unyt.unyt_array(vals.copy(), r["string"], registry=sess.reg)
        except Exception as ex:
            rec.note("generations-history-build-raised:" + type(ex).__name__)
            continue
        m = r["m"]
        gens = [{"x": r["obj"], "v": vals, "scale": m[1], "dim": m[2], "tol": m[3], "n": 0, "who": "pre-edit"},
                {"x": B, "v": vals, "scale": o[1], "dim": o[2], "tol": o[3], "n": 1, "who": "post-edit"}]
        ops = [unary[(5 * k + i) % len(unary)] for i in range(5)]
        cr = [cross[(2 * k + i) % len(cross)] for i in range(2)]
        symbols = model.evaluate(r["string"]).symbols
        kind = sess.edit_of(symbols)[0]
        rec.count("evals_generations_history_cases")
        ctx = {"u": r["string"], "history": f"history {model.log[-8:]}; array retained since version {r['version']}; handle {sess.how}", "prov": sess.prov,
               "scales": [m[1], o[1]]}
        judge_generations(unyt, rec, sess.reg, gens, (0, 1) if k % 2 == 0 else (1, 0), ops, cr, kind + ":history", "retained", "history", ctx,
                          in_base=False)


# ----------------------------------------------------------------------------------------------------------- registries
PROVENANCES =("defaults", "empty+si", "lut-copy", "deepcopy-default")


_MARKS = itertools.count()


def next_mark(prefix="c12mark"):
    """a symbol name unique in this process.  Every history gets one (added to each of its registries) so that registries of
    *different* histories never have equal tables: the process-wide unit-rule caches are keyed by the table's hash, and a hit
    across histories would make one history depend on an unrelated earlier one (finding C12:result-bound-to-other-registry);
    registries inside one history share the mark, so the effect stays observable where it is the subject."""
    return f"{prefix}{next(_MARKS)}"


def add_mark(unyt, reg, model, mark):
    reg.add(mark, 1.0, regmodel.dim_expr(unyt, dims.D("L")))
    model.add(mark, 1.0, "L")


def fresh_registry(unyt, model):
    """fresh registry with the model's contents, under another mark (see next_mark)"""
    m2 = model.copy()
    for k in [k for k in m2.contents if k.startswith("c12mark")]:
        m2.contents[next_mark("c12fresh")] = m2.contents.pop(k)
    return regmodel.build_registry(unyt, m2)


def new_session(unyt, rec, prov, syms, tier, srv, mark=None):
    """a new registry of the given provenance and the model of its contents"""
    if prov == "defaults":
        reg, model = unyt.UnitRegistry(), regmodel.RegModel(defaults=True)
    elif prov == "empty+si":
        reg, model = unyt.UnitRegistry(add_default_symbols=False), regmodel.RegModel(defaults=False)
        L = {"kg": (1.0, "M"), "g": (1e-3, "M"), "m": (1.0, "L"), "s": (1.0, "T"), "K": (1.0, "K"), "rad": (1.0, "A"),
             "A": (1.0, "I"), "cd": (1.0, "J")}
        for k, (sc, d) in L.items():
            pf = k in ("g", "m", "s", "K", "A")
            reg.add(k, sc, regmodel.dim_expr(unyt, dims.D(d)), prefixable=pf)
            model.add(k, sc, d, 0.0, pf)
        if "pc" in syms:
            reg.add("pc", 3.0e16, regmodel.dim_expr(unyt, dims.D("L")), prefixable=True)
            model.add("pc", 3.0e16, "L", 0.0, True)
    elif prov == "lut-copy":
        from unyt._unit_lookup_table import default_unit_symbol_lut
        reg, model = unyt.UnitRegistry(lut=dict(default_unit_symbol_lut), add_default_symbols=False), regmodel.RegModel(defaults=True)
    elif prov == "deepcopy-default":
        import copy
        reg, model = copy.deepcopy(unyt.unit_registry.default_unit_registry), regmodel.RegModel(defaults=True)
        if type(reg) is not unyt.UnitRegistry:
            reg = unyt.UnitRegistry(lut=dict(reg.lut), add_default_symbols=False)
    else:
        raise AssertionError(prov)
    if mark:
        add_mark(unyt, reg, model, mark)
    return Session(unyt, rec, reg, model, syms, tier, prov, srv)


_PR = []


def PRISTINE():
    if not _PR:
        _PR.append(regmodel.RegModel(defaults=True))
    return _PR[0]


# how a caller comes to hold ANOTHER registry object for a registry it already has.  Interpretation (see ASSUMPTIONS): the
# shallow ways give one more handle on the SAME table (an edit through any handle is an edit of "that registry"); the deep /
# serialising ways give an independent table that must not follow later edits of the source, nor the source its edits.
SHARED_HOWS = ("copy.copy(reg)", "unit.copy", "q.in_mks", "q.in_cgs", "q.in_base", "unit.get_base_equivalent", "q.convert_to_mks",
               "copy.copy(unit)", "q.in_units")      # (the last two hand back the very same object on the unchanged tree: controls)
INDEP_HOWS = ("deepcopy", "json", "pickle", "unit.copy(deep)", "deepcopy(q)", "pickle(q)")


def make_handle(unyt, reg, how):
    """-> (registry object, carrier (quantity, value, unit string)); the carrier is the quantity that came with the handle (or
    one created against it), in units the edit alphabet never touches"""
    import copy, pickle
    U, Q = unyt.Unit, unyt.unyt_quantity

    def on(r, v=3.0, u="m"):
        return r, (Q(v, u, registry=r), v, u)

    def of(q, v, u):
        return q.units.registry, (q, v, u)
    if how == "copy.copy(reg)":
        return on(copy.copy(reg))
    if how == "unit.copy":
        u = U("m", registry=reg).copy()
        return u.registry, (Q(3.0, u), 3.0, "m")
    if how == "copy.copy(unit)":
        u = copy.copy(U("kg", registry=reg))
        return u.registry, (Q(3.0, u), 3.0, "kg")
    if how == "q.in_mks":
        return of(Q(3.0, "m", registry=reg).in_mks(), 3.0, "m")
    if how == "q.in_cgs":
        return of(Q(3.0, "cm", registry=reg).in_cgs(), 3.0, "cm")
    if how == "q.in_base":
        return of(Q(3.0, "kg", registry=reg).in_base(), 3.0, "kg")
    if how == "unit.get_base_equivalent":
        u = U("kg", registry=reg).get_base_equivalent()
        return u.registry, (Q(3.0, u), 3.0, "kg")
    if how == "q.convert_to_mks":
        q = Q(3.0, "m", registry=reg)
        q.convert_to_mks()
        return of(q, 3.0, "m")
    if how == "q.in_units":
        return of(Q(3.0, "m", registry=reg).in_units("m"), 3.0, "m")
    if how == "deepcopy":
        return on(copy.deepcopy(reg))
    if how == "json":
        return on(unyt.UnitRegistry.from_json(reg.to_json()))
    if how == "pickle":
        return on(pickle.loads(pickle.dumps(reg)), 3.0, "kg")
    if how == "unit.copy(deep)":
        u = U("m", registry=reg).copy(deep=True)
        return u.registry, (Q(3.0, u), 3.0, "m")
    if how == "deepcopy(q)":
        return of(copy.deepcopy(Q(3.0, "m", registry=reg)), 3.0, "m")
    if how == "pickle(q)":
        return of(pickle.loads(pickle.dumps(Q(3.0, "kg", registry=reg))), 3.0, "kg")
    raise AssertionError(how)


def alias_session(unyt, sess, how):
    """one more handle on sess's table (shallow ways)"""
    reg, carrier = make_handle(unyt, sess.reg, how)
    rec = sess.rec
    s = Session(unyt, rec, reg, sess.model, sess.syms, sess.tier, sess.prov + ">" + how, sess.srv)
    s.join(sess, how)
    s.carrier, s.idcheck_always, s.full_defaults = carrier, sess.idcheck_always, sess.full_defaults
    rec.count("shared_handles")
    rec.count("shared_handles:" + how)
    if any(h.reg is reg for h in s.tab.handles if h is not s):
        rec.count("shared_handles_same_object")          # nothing new to hold: the history is then an ordinary one
    else:
        rec.count("shared_handles_distinct_object")
        rec.count("shared_handles_distinct_object:" + how)
    if not same_table(reg, sess.reg):
        rec.note("shallow-handle-has-its-own-table:" + how)      # recorded, judged by the probes (it must follow the edits)
    return s


def clone_session(unyt, sess, how):
    """an independent copy (deep / serialising ways): its own table from here on"""
    reg, carrier = make_handle(unyt, sess.reg, how)
    s = Session(unyt, sess.rec, reg, sess.model.copy(), sess.syms, sess.tier, sess.prov + ">" + how, sess.srv)
    s.how = how                  # (role stays "original": it is the first handle on its own table)
    s.last_edit = dict(sess.last_edit)
    s.last_kind, s.idcheck_always, s.full_defaults = sess.last_kind, sess.idcheck_always, sess.full_defaults
    s.pred_hist = {k: list(v) for k, v in sess.pred_hist.items()}
    if sess.carrier is not None or how not in ("deepcopy", "json", "pickle"):
        s.carrier = carrier
    s.kin = list(sess.kin) + [sess]
    sess.kin.append(s)
    if same_table(reg, sess.reg):
        sess.rec.note("independent-copy-shares-the-table:" + how)     # recorded, judged by the probes
    if how in ("json", "pickle(q)"):
        # documented upgrade path of from_json: default symbols missing from the text are filled in; an unpickled array goes
        # through the same table upgrade (_correct_old_unit_registry) - persistence is C11's subject, here only the starting
        # contents of the copy
        s.model.fill_defaults()
    if sess.dead:
        s.dead = True                # a copy of a registry that is no longer followed is not followed either
    else:
        s.clone_check(how)
    return s


# ----------------------------------------------------------------------------------------------------------- batches
EXH_SYMS = ("foo", "zed")
RND_SYMS = ("foo", "zed", "qux", "pc")


def exh_ops():
    return [op for s in EXH_SYMS for op in ops_for(s, 0)]


def masks_for(L, tier):
    return list(itertools.product((0, 1), repeat=L - 1))


def batches(tier, seed):
    n = len(exh_ops())
    b = []
    L = 3
    for i in range(n):
        for j0 in range(0, n, 4):
            b.append((f"exh{L}/{i}/{j0}", {"mode": "exh", "L": L, "first": i, "second": list(range(j0, min(n, j0 + 4))), "tier": tier,
                                          "cold_stride": 6 if tier == "quick" else 3}))
    if tier == "thorough":
        for i in range(n):
            for j in range(n):
                b.append((f"exh4/{i}/{j}", {"mode": "exh", "L": 4, "first": i, "second": [j], "tier": tier, "cold_stride": 16}))
    nrand, per = (48, 6) if tier == "quick" else (960, 12)
    for k in range(0, nrand, per):
        b.append((f"rand/{k}", {"mode": "rand", "ids": list(range(k, k + per)), "seed": seed, "tier": tier,
                                "maxlen": 40 if tier == "quick" else 60}))
    for how in SHARED_HOWS + INDEP_HOWS:
        nh = len(handle_histories(tier, how))
        per = 48
        for k in range(0, nh, per):
            b.append((f"handles/{how}/{k}", {"mode": "handles", "how": how, "lo": k, "hi": min(nh, k + per), "tier": tier,
                                             "cold_stride": 4 if tier == "quick" else 8}))
    labels = list(gp.SCRIPTS_THOROUGH if tier == "thorough" else gp.SCRIPTS)
    per = 1 if tier == "thorough" else 3
    for k in range(0, len(labels), per):
        b.append((f"generations/{k}", {"mode": "generations", "labels": labels[k:k + per], "tier": tier,
                                       "hows": list(SHARED_HOWS[:7]) if tier == "thorough" else ["copy.copy(reg)", "q.in_mks"]}))
    nsys, per = len(gs.enumerated(tier)), (20 if tier == "quick" else 24)
    for k in range(0, nsys, per):
        b.append((f"systems/{k}", {"mode": "systems", "lo": k, "hi": min(nsys, k + per), "tier": tier, "cold_stride": 6}))
    nrs, per = (16, 8) if tier == "quick" else (40, 8)
    for k in range(0, nrs, per):
        b.append((f"systems-rand/{k}", {"mode": "systems-rand", "ids": list(range(k, k + per)), "seed": seed, "tier": tier}))
    b.append(("shadow", {"mode": "shadow", "tier": tier}))
    b.append(("reuse", {"mode": "reuse", "tier": tier}))
    b.append(("coldcheck", {"mode": "coldcheck", "tier": tier}))
    # interleave long and short batches so that the pool stays busy
    return b


HANDLE_BASE = {"with": (("add", "foo", 2.0, "L", True, 0.0), ("add", "zed", 0.5, "M", False, 0.0)),
               "without": (("add", "zed", 0.5, "M", False, 0.0),)}
HANDLE_WARM = ("other", "both", "none", "units-subset")


def handle_histories(tier, how):
    """enumerated histories over TWO registry objects obtained one from the other by `how` (one table for the shallow ways,
    two tables for the independent ways):  base edits - [warm strings/conversions through one or both handles] - edit through
    handle E - probe through the other handle, then through E - second edit through the OTHER handle - final probes through
    both (model + fresh + cold).  Quick: every (edit op, base state) with two of the 16 (first editor, warm, early handle)
    variants, both first editors; thorough: all 16 for the ways that give a distinct object on a shared table (4 for the
    others), wider op catalogue, edits of the second symbol too."""
    shared = how in SHARED_HOWS
    ops = list(ops_for("foo", 1 if tier == "quick" else 2))
    if tier == "thorough":
        ops += ops_for("zed", 0)
    variants = list(itertools.product((0, 1), HANDLE_WARM, (False, True)))
    H, count = [], 0
    for op in ops:
        states = ("with", "without") if op[0] == "add" else (("without",) if (op[0] == "def" and op[1] == "foo") else ("with",))
        for state in states:
            if tier == "thorough" and how in SHARED_HOWS[:7]:
                picks = variants
            elif tier == "thorough":       # controls and independent copies: 4 of the 16
                picks = [variants[(count * 3 + k) % 8 + 8 * (k % 2)] for k in range(4)]
            else:
                picks = [variants[(count * 3) % 8], variants[8 + (count * 5 + 3) % 8]]
            for (first, warm, early) in picks:
                prov = PROVENANCES[(count // 2) % len(PROVENANCES)] if count % 3 == 2 else "defaults"
                E, O = first, 1 - first
                steps = [("new", prov)]
                mk = ("alias" if shared else "clone", 0, how)
                if early:
                    steps.append(mk)
                steps += [("edit", 0, b) for b in HANDLE_BASE[state]]
                if not early:
                    steps.append(mk)
                if warm in ("other", "both"):
                    steps.append(("probe", O, None))
                if warm == "both":
                    steps.append(("probe", E, None))
                if warm == "units-subset":
                    steps.append(("probe", O, [0, 1, 2, 3, 4]))
                steps += [("edit", E, op), ("probe", O, None), ("probe", E, None)]
                # second edit through the other handle: the other direction, with both handles warm
                m = regmodel.RegModel(defaults=True)
                for b in HANDLE_BASE[state]:
                    m.apply(b)
                if shared:
                    m.apply(op)
                steps.append(("edit", O, ("modf", "foo", 7.0) if "foo" in m.contents else ("add", "foo", 4.0, "L", True, 0.0)))
                H.append(steps)
                count += 1
    return H


def gen_random_history(r, tier, maxlen):
    """JSON-able step list: ('new', prov) | ('clone', i, how) | ('alias', i, how) | ('edit', i, op) | ('probe', i, subset or None)"""
    level = 1 if tier == "quick" else 2
    nreg = r.choice((1, 2, 2, 3))
    same = r.random() < 0.6        # registries created alike (equal contents -> equal content hash)
    p0 = r.choice(PROVENANCES)
    steps = [("new", p0 if same else r.choice(PROVENANCES)) for _ in range(nreg)]
    live = nreg
    n = r.randint(maxlen // 2, maxlen)
    syms = RND_SYMS
    nprobe = len(unit_probes(syms, tier))
    nau = len(array_units(syms))
    mirror = same and r.random() < 0.5     # apply the same first edits to every registry (keeps contents equal for a while)
    if r.random() < 0.5:                   # a second handle on the first registry's table from the start
        steps.append(("alias", 0, r.choice(SHARED_HOWS)))
        live += 1
    for t in range(n):
        x = r.random()
        i = r.randrange(live)
        if x < 0.45:
            sym = r.choice(syms if r.random() < 0.8 else syms[:2])
            op = r.choice(ops_for(sym, level))
            if sym in BUILTIN and op[0] == "add" and op[3] != "L":
                pass
            if mirror and t < n // 3:
                for j in range(live):
                    steps.append(("edit", j, op))
            else:
                steps.append(("edit", i, op))
        elif x < 0.93:
            k = r.choice((2, 4, 8, nprobe))
            sub = sorted(r.sample(range(nprobe), min(k, nprobe)) + [1000 + a for a in r.sample(range(nau), r.choice((0, 1, 2, nau)))])
            if mirror and r.random() < 0.5:
                for j in range(live):
                    steps.append(("probe", j, sub))
            else:
                steps.append(("probe", i, sub))
        elif live < 5:
            how = r.choice(SHARED_HOWS[:7] + INDEP_HOWS)
            steps.append(("alias" if how in SHARED_HOWS else "clone", i, how))
            live += 1
    return steps


# ----------------------------------------------------------------------------------------------------------- worker
def run_steps(unyt, rec, steps, syms, tier, srv, cold_final, idcheck_always=False, generations=True):
    sessions = []
    mark = next_mark()
    multi = sum(1 for st in steps if st[0] in ("new", "clone")) > 1       # tables, not handles
    carriers = any(st[0] in ("alias", "clone") for st in steps)
    for st in steps:
        if st[0] == "new":
            sessions.append(new_session(unyt, rec, st[1], syms, tier, srv, mark=mark))
            sessions[-1].idcheck_always = idcheck_always
            if carriers:
                sessions[-1].carrier = (unyt.unyt_quantity(3.0, "m", registry=sessions[-1].reg), 3.0, "m")
        elif st[0] == "alias":
            try:
                sessions.append(alias_session(unyt, sessions[st[1]], st[2]))
            except Exception as e:
                rec.note(f"alias-failed:{st[2]}:{type(e).__name__}")
                sessions.append(alias_session(unyt, sessions[st[1]], "copy.copy(reg)"))
        elif st[0] == "clone":
            try:
                sessions.append(clone_session(unyt, sessions[st[1]], st[2]))
                rec.count("clones:" + st[2])
            except Exception as e:
                rec.note(f"clone-failed:{st[2]}:{type(e).__name__}")
                sessions.append(new_session(unyt, rec, "defaults", syms, tier, srv, mark=mark))
        elif st[0] == "edit":
            sessions[st[1]].multi = multi
            sessions[st[1]].edit(tuple(st[2]))
        elif st[0] == "probe":
            sessions[st[1]].multi = multi
            sessions[st[1]].probe(subset=None if st[2] is None else set(st[2]))
    for s in sessions:
        s.multi = multi
        s.probe(subset=None, fresh=True, cold=cold_final)
    if generations:
        for s in sessions:
            session_generations(s)
    rec.count("histories")
    rec.count("registries", len(sessions))
    if len(sessions) > 1:
        rec.count("multi_registry_histories")
    if any(len(s.tab.handles) > 1 for s in sessions):
        rec.count("shared_table_histories")


def _SELF():
    import sys
    return sys.modules[__name__]


def worker(batch, rec):
    import unyt
    bid, p = batch
    mode, tier = p["mode"], p["tier"]
    srv = ColdServer(cold_handler)      # before any workload: the server keeps the pristine import state
    try:
        if mode == "exh":
            ops = exh_ops()
            L = p["L"]
            count = 0
            for j in p["second"]:
                for rest in itertools.product(range(len(ops)), repeat=L - 2):
                    seq = [ops[p["first"]], ops[j]] + [ops[k] for k in rest]
                    if L >= 4 and regmodel.RegModel(defaults=True).apply(seq[0]) != "ok":
                        rec.count("pruned_failing_first_edit")
                        continue
                    for mask in masks_for(L, tier):
                        steps = [("new", "defaults")]
                        for t, op in enumerate(seq):
                            steps.append(("edit", 0, op))
                            if t < L - 1 and mask[t]:
                                steps.append(("probe", 0, None))
                        deep = count % p["cold_stride"] == 0
                        run_steps(unyt, rec, steps, EXH_SYMS, tier, srv, cold_final=deep, idcheck_always=deep, generations=deep)
                        count += 1
            rec.sample({"exhaustive": {"L": L, "first": ops[p["first"]], "second": [ops[j] for j in p["second"]], "histories": count,
                                       "probes": [x[0] for x in unit_probes(EXH_SYMS, tier)]}})
        elif mode == "rand":
            for hid in p["ids"]:
                r = core.rng(p["seed"], "C12", "rand", hid)
                steps = gen_random_history(r, tier, p["maxlen"])
                run_steps(unyt, rec, steps, RND_SYMS, tier, srv, cold_final=True, idcheck_always=True)
                rec.count("random_histories")
                rec.count("random_steps", len(steps))
            rec.sample({"random_history": steps[:12], "steps": len(steps)})
        elif mode == "handles":
            H = handle_histories(tier, p["how"])
            for n_, steps in enumerate(H[p["lo"]:p["hi"]]):
                deep = n_ % p["cold_stride"] == 0
                run_steps(unyt, rec, steps, EXH_SYMS, tier, srv, cold_final=deep, idcheck_always=True)
                rec.count("handle_histories")
            rec.sample({"handles": p["how"], "history": steps})
        elif mode == "generations":
            run_generations(unyt, rec, tier, p["labels"], p["hows"])
        elif mode == "systems":
            gs.run_enumerated(_SELF(), unyt, rec, tier, p["lo"], p["hi"], srv, p["cold_stride"])
        elif mode == "systems-rand":
            gs.run_random(_SELF(), unyt, rec, tier, p["ids"], p["seed"], srv, core.rng)
        elif mode == "shadow":
            run_shadow(unyt, rec, tier)
        elif mode == "reuse":
            run_reuse(unyt, rec, tier)
        elif mode == "coldcheck":
            run_coldcheck(unyt, rec, srv)
        rec.count("cold_calls", srv.calls)
        rec.count("cold_failed_calls", srv.failed)
    finally:
        srv.close()


SHADOW_NAMES = ("cl", "meter", "liter", "hour", "kilometer", "Angstrom", "gram")


def run_shadow(unyt, rec, tier):
    """user symbols named like a documented built-in spelling of another unit: the entry must be what the name means"""
    for name in SHADOW_NAMES:
        r0 = names.resolve(name)
        if r0 is None or name in defs.T:
            rec.note("shadow-name-not-a-builtin-spelling:" + name)
            continue
        for how in ("add", "define_unit"):
            reg, model = unyt.UnitRegistry(), regmodel.RegModel(defaults=True)
            op = ("add", name, 2.0, "T", False, 0.0) if how == "add" else ("def", name, 2.0, "s", False, "own")
            w = apply_real(unyt, reg, op)
            rec.count("shadow_edits")
            if w != "ok":
                rec.note(f"shadow-edit-refused:{how}:{w}")
                rec.ok(("shadow", how, name, "refused"))
                continue
            model.add(name, 2.0, "T")
            for s, pclass in ((name, "atomic"), (name + "*m", "compound"), ("1/" + name, "compound")):
                exp = model.outcome(s)
                rec.count("evals_shadow")
                rec.reach(f"shadow|{how}|{pclass}")
                try:
                    u = unyt.Unit(s, registry=reg)
                    o = ["ok", float(u.base_value), dimstr(u.dimensions)]
                except Exception as e:
                    o = exc(e)
                if o[0] == "ok" and feq(o[1], exp[1], 1e-12) and o[2] == dimlist(exp[2]):
                    rec.ok(("shadow", how, name, pclass))
                else:
                    rec.violation(f"C12:{how}:shadowed-by-builtin-spelling",
                                  f"after {how} of symbol {name!r} (2.0 s) Unit({s!r}, registry=reg) is {o}; the registry's contents give "
                                  f"scale {exp[1]!r} dims {dims.show(exp[2])}: the parser rewrites the name to a built-in symbol before the registry is consulted",
                                  {"name": name, "how": how, "string": s, "observed": o})
    rec.sample({"shadow_names": list(SHADOW_NAMES)})


REUSE_EDITS = (("add", "foo", 0.5, "M", True, 0.0), ("add", "foo", 8.0, "L", True, 0.0), ("modf", "foo", 3.0),
               ("modq", "foo", 4.0, "km/s", "default"), ("rm", "foo"))
REUSE_STRINGS = (("foo", "atomic"), ("kfoo", "prefixed"), ("foo*s", "compound"), ("kfoo/s", "prefixed-compound"), ("foo**2", "compound"))


# results that are not "the same quantity as the old object": base units (scale 1 by definition), a new Unit built from the
# old expression against the registry (takes the current value by design), reductions/elements, and pickle round trips
# (the expression is re-read against the pickled, i.e. current, table: persistence is C11's subject)
NO_RESULT_CHECK = ("array.sum", "array[0]", "unit.get_base_equivalent", "unit.get_mks_equivalent",
                   "Unit(unit)", "pickle(unit)", "pickle(array)")


def reuse_ops(unyt):
    """operations on objects that were created *before* the edit: name -> (which retained object, callable)"""
    import copy, pickle
    return {
        "unit.copy": ("u", lambda u: u.copy()),
        "copy.copy(unit)": ("u", lambda u: copy.copy(u)),
        "copy.deepcopy(unit)": ("u", lambda u: copy.deepcopy(u)),
        "unit.get_base_equivalent": ("u", lambda u: u.get_base_equivalent()),
        "unit.get_mks_equivalent": ("u", lambda u: u.get_mks_equivalent()),
        "unit*unit": ("u", lambda u: u * u),
        "unit**2": ("u", lambda u: u ** 2),
        "unit.simplify": ("u", lambda u: (u * u / u).simplify()),
        "Unit(unit)": ("u", lambda u: unyt.Unit(u, registry=u.registry)),
        "pickle(unit)": ("u", lambda u: pickle.loads(pickle.dumps(u))),
        "array.copy": ("x", lambda x: x.copy()),
        "copy.deepcopy(array)": ("x", lambda x: copy.deepcopy(x)),
        "array.in_base": ("x", lambda x: x.in_base("mks")),
        "array.in_cgs": ("x", lambda x: x.in_cgs()),
        "array.to(own units)": ("x", lambda x: x.to(x.units)),
        "array.to(str(units))": ("x", lambda x: x.to(str(x.units))),
        "array*array": ("x", lambda x: x * x),
        "array+array": ("x", lambda x: x + x),
        "np.sqrt(array*array)": ("x", lambda x: np.sqrt(x * x)),
        "array[0]": ("x", lambda x: x[0]),
        "array.sum": ("x", lambda x: x.sum()),
        "pickle(array)": ("x", lambda x: pickle.loads(pickle.dumps(x))),
        "base-units-array.in_base": ("b", lambda b: b.in_base("mks")),
    }


REUSE_OP_NAMES = ("unit.copy", "copy.copy(unit)", "copy.deepcopy(unit)", "unit.get_base_equivalent", "unit.get_mks_equivalent",
                  "unit*unit", "unit**2", "unit.simplify", "Unit(unit)", "pickle(unit)", "array.copy", "copy.deepcopy(array)",
                  "array.in_base", "array.in_cgs", "array.to(own units)", "array.to(str(units))", "array*array", "array+array",
                  "np.sqrt(array*array)", "array[0]", "array.sum", "pickle(array)",
                  "base-units-array.in_base")


def run_reuse(unyt, rec, tier):
    """objects created before an edit are *used* after it (copied, converted, combined): the result must carry the value the
    object had, and a unit string constructed afterwards must still mean what the current contents say (the use must not
    leak the old value into later string constructions, nor pick up the new one)"""
    ops = reuse_ops(unyt)
    assert set(ops) == set(REUSE_OP_NAMES)
    for edit in REUSE_EDITS:
        for ustr in ("foo", "kfoo/s"):
            for state in ("cache-cleared", "cache-refilled"):
                for opname, (which, fn) in ops.items():
                    reg, model = unyt.UnitRegistry(), regmodel.RegModel(defaults=True)
                    add_mark(unyt, reg, model, next_mark())
                    first = ("add", "foo", 2.0, "L", True, 0.0)
                    assert apply_real(unyt, reg, first) == "ok" and model.apply(first) == "ok"
                    old = model.outcome(ustr)
                    u = unyt.Unit(ustr, registry=reg)
                    x = unyt.unyt_array(np.array([1.0, 2.5]), ustr, registry=reg)
                    b = x.in_base("mks")
                    kind = edit_kind(edit, model)
                    if apply_real(unyt, reg, edit) != "ok" or model.apply(edit) != "ok":
                        rec.note("reuse-edit-failed:" + kind)
                        continue
                    if state == "cache-refilled":
                        for s_, _ in REUSE_STRINGS:
                            try:
                                unyt.Unit(s_, registry=reg)
                            except Exception:
                                pass
                    obj = {"u": u, "x": x, "b": b}[which]
                    rec.count("reuse_cases")
                    rec.reach(f"reuse|{kind}|{opname}")
                    case = {"first": first, "edit": edit, "object": which + ":" + ustr, "use": opname, "state": state}
                    try:
                        res = fn(obj)
                    except Exception as e:
                        rec.note(f"reuse-op-raised:{opname}:{kind}:{type(e).__name__}")
                        res = None
                    # (a) the result carries the value the object had
                    expect = {"unit*unit": 2, "unit**2": 2, "array*array": 2}.get(opname, 1)
                    if res is not None and opname not in NO_RESULT_CHECK:
                        rec.count("evals_reuse")
                        ru = getattr(res, "units", res)
                        vals = np.atleast_1d(np.asarray(getattr(res, "d", 1.0), dtype="f8"))
                        si = vals * float(ru.base_value)
                        base_vals = np.array([1.0, 2.5]) if which != "u" else np.array([1.0])
                        want = (base_vals * old[1]) ** expect if opname != "array+array" else 2 * base_vals * old[1]
                        d = dimstr(ru.dimensions)
                        if d != dimlist(dims.power(old[2], expect)) or si.shape != want.shape or not np.all(np.abs(si - want) <= 1e-12 * np.abs(want)):
                            rec.violation(f"C12:retained-use:{opname}:result-takes-current-value",
                                          f"{which} built in {ustr!r} while foo was 2.0 m; after {edit} ({state}) {opname} gives SI {si.tolist()} dims {d}; "
                                          f"the object's own value gives {want.tolist()} dims {dims.show(dims.power(old[2], expect))}", case)
                        else:
                            rec.ok(("reuse-result", kind, opname, state, ustr))
                    # (b) strings constructed afterwards mean what the current contents say
                    for s_, pclass in REUSE_STRINGS:
                        rec.count("evals_reuse")
                        exp = model.outcome(s_)
                        try:
                            v = unyt.Unit(s_, registry=reg)
                            o = ["ok", float(v.base_value), dimstr(v.dimensions)]
                        except Exception as e:
                            o = exc(e)
                        good = (o[0] == "exc") if exp[0] == "unknown" else (o[0] == "ok" and o[2] == dimlist(exp[2]) and feq(o[1], exp[1], exp[3] + 1e-12))
                        if good:
                            rec.ok(("reuse-string", kind, opname, state, pclass))
                        else:
                            rec.violation(f"C12:retained-use:{opname}:string-cache-poisoned",
                                          f"{which} built in {ustr!r} while foo was 2.0 m; after {edit} ({state}) and {opname}, Unit({s_!r}, registry=reg) -> {o}; "
                                          f"current contents give {exp[:2] if exp[0] == 'ok' else 'unknown name'}", dict(case, string=s_))
    rec.sample({"reuse_ops": sorted(ops), "edits": [list(e) for e in REUSE_EDITS]})


def run_coldcheck(unyt, rec, srv):
    """self-test of the cold oracle: the fork server must answer, be pristine, and must *differ* from a deliberately stale
    warm observation (otherwise the comparison could not see anything)"""
    pong = srv.call({"what": "ping"})
    if pong is None or not pong.get("pong"):
        rec.note("cold-server-no-answer")
        return
    rec.count("cold_selftest_ping")
    m = regmodel.RegModel(defaults=True)
    m.add("foo", 2.0, "L", 0.0, True)
    out = srv.call({"model": m.plain(user_only=True), "uprobes": ["foo", "kfoo", "foo*s", "nope"], "aspecs": []})
    if out is None:
        rec.note("cold-server-no-answer")
        return
    good = out["U|foo"][:2] == ["ok", 2.0] and out["U|kfoo"][:2] == ["ok", 2000.0] and out["U|nope"][0] == "exc"
    stale = same_obs(out["U|kfoo"], ["ok", 3000.0, out["U|kfoo"][2], 0.0])
    if good and not stale:
        rec.count("cold_selftest_ok")
        rec.ok(("coldcheck", "selftest"))
    else:
        rec.note("cold-selftest-failed")


# ----------------------------------------------------------------------------------------------------------- evidence
def extra(tier, seed, results):
    c = {}
    reached = set()
    for _, r in results:
        for k, v in r.get("counters", {}).items():
            c[k] = c.get(k, 0) + v
        reached.update(r.get("reached", []))
    deciding = ("evals_model_unit", "evals_model_array", "evals_model_mapping", "evals_fresh", "evals_cold", "evals_retained", "evals_edit_outcome", "evals_system_id",
                "evals_shadow", "evals_reuse", "cold_selftest_ok", "multi_registry_histories", "random_histories",
                # several handles on one table / independent copies
                "handle_histories", "shared_table_histories", "shared_handles_distinct_object", "edits_shared_table:via-original",
                "edits_shared_table:via-copy", "evals_shared_cross", "evals_shared_cross_warm", "evals_shared_cross_distinct_objects",
                "evals_shared_cross_warm:edit-via-original:probe-via-copy", "evals_shared_cross_warm:edit-via-copy:probe-via-original",
                "evals_shared_system_id", "evals_shared_retained", "evals_independent_decisive",
                # same operation on arrays of several generations
                "evals_generations", "evals_generations_cross_decisive", "evals_generations_bool_decisive", "evals_generations_history_cases")
    deciding += tuple(f"evals_generations_decisive:{w}:{p_}" for w, p_ in GEN_WHO_POS)
    deciding += tuple("generation_scripts:" + l for l in (gp.SCRIPTS_THOROUGH if tier == "thorough" else gp.SCRIPTS))
    deciding += tuple(gs.gate_counters(tier))          # registry-bound unit systems
    zero = [k for k in deciding if not c.get(k)]
    zero += ["edits_shared_table:" + k for k in EDIT_KINDS if not c.get("edits_shared_table:" + k)]
    zero += ["shared_handles:" + h for h in SHARED_HOWS if not c.get("shared_handles:" + h)]
    zero += ["clones:" + h for h in INDEP_HOWS if not c.get("clones:" + h)]
    for k in EDIT_KINDS:
        if not c.get("edit:" + k):
            zero.append("edit:" + k)
    if zero:
        raise core.Inconclusive("sub-monitors-saw-nothing:" + ",".join(zero))
    if c.get("cold_failed_calls", 0) > 0.2 * max(1, c.get("cold_calls", 0)):
        raise core.Inconclusive(f"cold-oracle-failed:{c.get('cold_failed_calls')}/{c.get('cold_calls')}")
    cat = {f"{e}|{p}" for e in EDIT_KINDS for p in PCLASSES[:5]} | {f"{e}|array:{a}" for e in EDIT_KINDS for a in ACLASSES} \
        | {f"{e}|retained:{k}" for e in EDIT_KINDS for k in ("unit", "array", "array-product")} \
        | {f"{e}|{p}" for e in ("readd", "modify-float", "modify-quantity", "remove") for p in PCLASSES[5:]} \
        | {f"{e}|mapping:{p}" for e in EDIT_KINDS for p in ("atomic", "prefixed")} \
        | {f"reuse|{e}|{o}" for e in ("readd", "modify-float", "modify-quantity", "remove") for o in REUSE_OP_NAMES} \
        | {f"clone-{h}|{p}" for h in INDEP_HOWS for p in PCLASSES[:5]} \
        | {f"clone-{h}|{p}" for h in ("deepcopy", "json", "pickle") for p in PCLASSES[5:]} \
        | {f"shared|{h}|edit-via-{a}:probe-via-{b}|{w}" for h in SHARED_HOWS[:7] for a, b in (("original", "copy"), ("copy", "original"))
           for w in ("unit", "mapping", "array", "fresh", "cold", "retained")} \
        | {f"independent|{h}|{p}" for h in INDEP_HOWS for p in PCLASSES[:5]} \
        | {f"shadow|{h}|{p}" for h in ("add", "define_unit") for p in ("atomic", "compound")} \
        | {f"generations|{o}|{w}|{p_}" for o in gp.UNARY if o not in ("x/x.units", "x/x") for w, p_ in GEN_WHO_POS} \
        | {f"generations|{o}|mixed" for o in gp.CROSS} \
        | gs.catalogue()
    return {"sub_monitor_counters": {k: c.get(k, 0) for k in sorted(c)}, "catalogue_size": len(cat),
            "unreached": sorted(cat - reached)}
