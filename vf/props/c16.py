"""C16 - scalars are quantities, arrays are arrays, views stay attached to their data.

Oracles (none calls the code it judges):
  class    shape of the returned object decides: shape () => unyt_quantity, ndim >= 1 => not a unyt_quantity
  index    NumPy's own indexing of the stripped parent gives the reference shape, numbers and view/copy status; units and
           name are compared with the parent's
  views    the same NumPy call on the stripped parent tells whether a reshape/transpose/slice is a view; np.shares_memory and
           a write-through probe observe what unyt returned
  copies   accessors/conversions documented as copies: no shared memory and writes do not travel in either direction
  ctor     unyt_array(ndarray) shares memory with the ndarray in every layout, data*unit does not
  coerce   expected numbers from the independent unit table (vf/ref): v_i * scale_i / scale_0 (affine for temperatures)
  callform door (ndarray, ndarray subclass, unyt_array with/without units/name/custom registry/user unit, user subclasses, indexed
           and viewed arrays, quantities) x constructor class x keyword sets that request no change (vf/gen/c16_ctorforms.py): the
           constructor result is a live view of its input; the view converters and the copying calls in their no-change spellings
           over the same doors, with NumPy's answer on the stripped data as reference for inherited calls
  sameprint the coercion clause over element units that PRINT THE SAME and differ in size (the same symbol in several registries via add /
           define_unit, a default symbol changed with UnitRegistry.modify, stale snapshots of one entry, an edited registry copy; a same-size
           control and the differently spelled control) x unit templates x sequence orders x unit of the other operand / target x element
           builders x every door that coerces a sequence (vf/gen/c16_sameprint.py); expected numbers from vf.ref.regmodel mirrors of every
           registry edit: v_i * scale_i(own definition, at the time the Unit object was built) / scale(result unit)
The passive observer vf/monitors/c16_passive.py is installed around all of it (and, thorough tier, around the repository's
own test-suite).
"""
import json, os, subprocess, sys, tempfile
import numpy as np
from vf import core
from vf.gen import c16_ops as G
from vf.gen import c16_ctorforms as CF
from vf.gen import c16_sameprint as SP
from vf.monitors import taps, c16_passive as P
from .common import chunks

RULE = ("one evaluation = one oracle decision on one returned object or one memory probe: class-by-shape of every unyt object "
        "leaving a tapped boundary or a catalogue operation (all NumPy ufuncs x call forms/methods, ~230 NumPy function templates, "
        "ndarray methods, operators, conversions, unyt helpers) over shapes 0-d..3-d incl. (1,), (1,1), empty, explicit 0-d arrays "
        "and quantities; indexing/iteration results against NumPy's indexing of the stripped parent (shape, numbers, units, name, "
        "view/copy); view ops and unit-stripping accessors by shares_memory + write-through against the NumPy reference; copying "
        "accessors and every converting call by shares_memory + write isolation; constructor view / unit-multiplication copy over "
        "memory layouts and dtypes; the same view/copy contract for every input door x constructor class x no-change keyword set (none, "
        "each keyword value alone, all pairs; thorough: the full product) and for the no-change spellings of view converters and copying "
        "calls; mixed-unit list coercion against vf/ref scales; the same clause for sequences whose elements' units print alike and differ in size "
        "(several registries, modified default symbols, stale snapshots, edited registry copies) through every coercing door (constructor spellings, "
        "nested sequences, sequence operand of a binary ufunc in either position / operator / in-place operator, item assignment forms, np.copyto): "
        "class, printed unit, numbers, and the size of the Unit object attached to the result. distinct cell = (sub-monitor, operation or "
        "index form, operand kind, result shape class / dtype kind / layout)")
ASSUMPTIONS = (
    "NumPy's own behaviour on the stripped operand (indexing result shape/values, whether a reshape/transpose/slice is a view) is the trusted reference",
    "np.shares_memory is exact (no max_work bound) for the small arrays used; empty arrays share nothing and are not judged for memory",
    "ndim>=1 results that are unyt_quantity are violations also when size<=1 (title: 'arrays are arrays'; unyt's own reshape override and ufunc wrap-up take this reading); keyed 'nonscalar-quantity' apart from 'multi-element-quantity'",
    "calling the unyt_array / unyt_quantity constructor by name (also .view(cls)) is an explicit request for that class: a 0-d unyt_array or a size<=1 shaped unyt_quantity built that way is noted, not judged; a constructor returning a multi-element unyt_quantity is judged; operations applied to such explicitly built objects are judged",
    "subok=False (NumPy default of copy/broadcast_to/broadcast_arrays) is a request for a base-class array (DESIGN 4.11); templates pass subok=True",
    "results that carry no units at all (bare ndarray/float) are not C16's subject (unit loss is C06/C07): counted as bare, not judged",
    "for 0-d indexing results (int+Ellipsis forms) view-vs-copy is not stated by the property: class/units/name/values judged, memory noted",
    "boolean/fancy indexing follows NumPy (copy); the property only demands sharing for slices: judged as 'same as NumPy'",
    "unyt_array(list_of_quantities, units=...) with an explicit units argument is not described by the statement: noted",
    "tapped calls are judged at nesting depth 0 only; deeper ones are intermediate values of the library",
    "an object handed back by identity (the caller's out= buffer, np.asanyarray(x) is x, astype(copy=False)) is the caller's object, not a result: its class is not judged",
    "operations in which unyt has no code of its own share one key per (failure, operand kind): NumPy functions without a unyt handler (npfunc-default-path), C-level NumPy constructors (numpy-nodispatch-function), ndarray methods no unyt class overrides (inherited-ndarray-method); the coverage cell still names the operation",
    "a shaped unyt_quantity operand (only obtainable from an already reported violation or an explicit constructor call) propagating its class through further class-preserving calls is counted, not reported again",
    "name propagation is judged for indexing and iteration only (statement); conversions dropping the name (in_base) are not C16's subject",
    "call forms: a constructor keyword given at a value that requests no change (dtype= the data's own dtype as np.dtype/name/type/str/char/python type, units= the input's own units as str/Unit/rebuilt Unit, registry=, bypass_validation=, name=, keyword argument style) must leave the constructor result a live view exactly like the bare call, for every input that already is array data (ndarray, ndarray subclass, unyt_array, user subclasses, quantities); keys name the constructor, the door and the keyword names, the value spellings go into the coverage cell",
    "call forms not described by the statement are made and noted, not judged: dtype= naming another dtype (NumPy has to convert; unyt ignores it for unyt input), units= naming other units than a unyt input carries (relabelling); calls that are refused for a reason outside C16 are not made (a user-defined unit spelled as a string without its registry, bypass_validation=True without a Unit object)",
    "0-d results of the no-change view converters (view(), .d/.ndview/ndarray_view(), reshape(()), transpose()) are judged for memory like any other shape; 0-d *indexing* results stay notes (see above)",
    "for inherited NumPy calls in the no-change view matrix (reshape/transpose/astype(copy=False)/asanyarray/...) the same call on the stripped data in the same layout says whether a view is due; a copying call is judged unless its NumPy counterpart on the stripped data itself hands back shared memory (then noted; none seen)",
    "sameprint: what an element denotes is its numbers x the scale of the Unit object it carries, a snapshot of its registry's entry at the time the object was built (DESIGN 6 'stale snapshots'; the same reading C07 takes), never the current or another registry's meaning of the printed symbol; that scale is taken from a vf.ref.regmodel mirror of the edits the harness itself made (add / define_unit / modify / remove+add / deepcopy+modify), and a pool whose real Unit objects do not have the sizes the mirror says (base_value attribute read as an input self-check) is counted as setup_mismatch and not used",
    "sameprint: the result of a coercing door must print the first element's unit (constructor, copyto, sequence as first ufunc operand) or the other operand's / target's unit (sequence as second operand, in-place operator, item assignment) AND the Unit object attached to it must have that unit's size (attribute base_value, no conversion routine is called) - a result that prints right but is bound to another definition of the symbol is keyed result-unit-of-other-size",
    "sameprint: a refusal is judged only where the same door returned for the differently spelled control with the same element builder (DESIGN 4.23); a failure the differently spelled control shows too is keyed ':any-units' (it does not depend on how the units are defined), otherwise by the class of the pool",
    "sameprint: registry= is passed only as the first element's own registry (another registry that defines the symbol differently would be an explicit request to re-read the symbol there: not in the statement, not made); float32 elements whose numbers leave 1e-30..1e30 in any unit involved are discarded and counted (IEEE range, C17's subject)",
    "sameprint: for ufunc doors the reference applies the NumPy function to the operands' reference SI numbers (add, subtract, maximum, minimum, fmax, hypot are homogeneous of degree 1; comparisons are scale free); the other operand's numbers are chosen elementwise within a factor 0.6..2.9 of the sequence's so that no element is absorbed",
    "vf/ref/defs.py scales/offsets for m,cm,km,mm,inch,ft,mile,s,ms,min,hr,day,g,kg,lb,J,erg,kJ,K,degC,degF,R are the trusted base of the coercion oracle",
)
MIN_EVALS = 3000
TIMEOUT = 1500

FAM = {"length": ("m", "cm"), "energy": ("J", "erg"), "time": ("s", "ms")}


# ------------------------------------------------------------------------------------------------ batches
def batches(tier, seed):
    shapes = G.shapes(tier)
    thorough = tier == "thorough"
    b = []
    if thorough:
        b.append(("suite", ("suite", {})))
    nshape_chunks = 3 if tier == "quick" else 8
    for i, c in enumerate(chunks(shapes, nshape_chunks)):
        b.append((f"index/{i}", ("index", {"shapes": c, "dtypes": ["f8", "i8"] if not thorough else ["f8", "f4", "i8", "c16"]})))
        b.append((f"views/{i}", ("views", {"shapes": c, "dtypes": ["f8", "f4", "i8", "c16"] if thorough else ["f8", "i8", "c16"]})))
    nops = len(G.op_names())
    nopchunks = 8 if tier == "quick" else 24
    step = -(-nops // nopchunks)
    # (dtype, unit family, layouts of the primary operand)
    combos = [("f8", "length", False), ("f8", "energy", False), ("i8", "length", False), ("c16", "length", False)]
    if thorough:
        combos += [("f8", "time", False), ("f8", "length", True), ("f4", "length", False), ("f4", "energy", False), ("i8", "energy", False),
                   ("c16", "time", False), ("u1", "length", False), ("f2", "length", False)]
    for i in range(nopchunks):
        b.append((f"ops/{i}", ("ops", {"shapes": shapes, "lo": i * step, "hi": min(nops, (i + 1) * step), "combos": combos})))
    b.append(("ctor/0", ("ctor", {"shapes": shapes, "dtypes": ["f8", "f4", "i8", "c16", "f2", "u1"] if thorough else ["f8", "i8"]})))
    for i in range(1 if not thorough else 4):
        b.append((f"coerce/{i}", ("coerce", {"n": 12 if not thorough else 100, "seed": seed, "part": i})))
    # call forms: door x constructor x no-change keyword sets x layouts (empty shapes carry no memory to judge)
    cshapes = [sh for sh in shapes if int(np.prod(sh)) > 0]
    doors = list(CF.DOORS)
    for i, c in enumerate(chunks(cshapes, 7 if not thorough else len(cshapes))):
        for j, dch in enumerate(chunks(doors[:-2], 1 if not thorough else 3)):
            dch = dch + (doors[-2:] if j == 0 else [])         # the quantity doors only exist for shape ()
            b.append((f"callforms/{i}.{j}", ("callforms", {"shapes": c, "doors": dch, "dtypes": ["f8", "i8"] if not thorough else ["f8", "i8", "f4", "c16"],
                                                           "specs": "quick", "nrandom": 8 if not thorough else 60, "seed": seed, "all_layouts": thorough})))
    if thorough:                                 # the full product of keyword values on two shapes per batch
        for i, c in enumerate(chunks([(), (1,), (3,), (2, 3), (1, 1), (2, 1, 3)], 3)):
            for j, dch in enumerate(chunks(doors, 4)):
                b.append((f"callforms-full/{i}.{j}", ("callforms", {"shapes": c, "doors": dch, "dtypes": ["f8", "i8"], "specs": "thorough", "nrandom": 0, "seed": seed})))
    # coercion of sequences whose elements' units print alike and differ in size: family x (template, classes) plans
    tnames = [t[0] for t in SP.TEMPLATES]
    if thorough:
        for fam in SP.FAMS:
            for t in tnames:
                b.append((f"sameprint/{fam}.{t}", ("sameprint", {"fams": [fam], "plan": [[t, list(SP.KINDS)]], "seed": seed})))      # every class x every template; builders rotate as in quick (~3x quick)
    else:
        for fi, fam in enumerate(SP.FAMS):
            plan = {t: [] for t in tnames}
            for i, k in enumerate(SP.KINDS):        # every class meets two templates, every template two classes; the pairing moves with the seed
                for off in (0, 3):
                    plan[tnames[(i + seed + fi + off) % len(tnames)]].append(k)
            b.append((f"sameprint/{fam}", ("sameprint", {"fams": [fam], "plan": [[t, ks] for t, ks in plan.items()], "seed": seed})))
    nr = 4 if not thorough else 48
    for i in range(nr):
        b.append((f"random/{i}", ("random", {"seed": seed, "n": 150 if not thorough else 500})))
    if thorough:
        for k in range(8):
            b.append((f"npcat/{k}", ("npcat", {"k": k, "of": 8, "seed": seed})))
    return b


# ------------------------------------------------------------------------------------------------ operand construction
def make_operand(unyt, shape, kind, dtype, unit, name=None, layout="own", offset=1.0):
    """kind: 'q' quantity, 'a0' explicitly built 0-d unyt_array, 'a' array"""
    if layout == "own":
        nd = G.values(shape, dtype, offset)
    else:
        nd, _ = G.ndarray_in_layout(shape, dtype, layout)
    if kind == "q":
        return unyt.unyt_quantity(nd, unit, name=name)
    return unyt.unyt_array(nd, unit, name=name)


def kinds_for(shape):
    return ("q", "a0") if shape == () else ("a",)


def make_env(unyt, x, kind, u, u2):
    sh = x.shape
    dt = x.dtype

    def like(vals, unit):
        return unyt.unyt_quantity(vals, unit) if kind == "q" else unyt.unyt_array(vals, unit)
    e = {"x": x, "sh": tuple(sh), "n": x.size, "nd_": x.ndim, "s": 2.0, "two": 2, "u2": u2, "unyt": unyt, "ua": unyt.unyt_array,
         "uq": unyt.unyt_quantity, "U": unyt.Unit}
    e["y"] = like(G.values(sh, dt, 2.0), u2)
    e["x2"] = like(G.values(sh, dt, 3.0), u)
    e["q"] = unyt.unyt_quantity(2.5, u)
    e["nd"] = G.values(sh, "f8", 0.5)
    e["xd"] = like(G.values(sh, dt, 0.25) / 4, "dimensionless")
    e["x3"] = unyt.unyt_array(np.array([1.0, 2.0, 4.0]), u)
    e["sq"] = unyt.unyt_array(np.array([[2.0, 1.0], [1.0, 3.0]]), u)
    e["xE"] = like(G.values(sh, dt, 1.0), "keV")
    return e


class Ctx:
    """per-worker bundle: recorder, passive observer, tap handle"""

    def __init__(self, rec):
        import unyt
        self.unyt = unyt
        self.rec = rec
        self.obs = P.Passive()
        self.h = taps.install(observers=[self.obs])

    def close(self):
        self.h.uninstall()
        d = self.obs.dump()
        rec = self.rec
        rec.evals += d["evals"]
        rec.cells.update(d["cells"])
        for k, v in d["viol"].items():
            if k in rec.viol:
                rec.viol[k][0] += v[0]
            else:
                rec.viol[k] = [v[0], v[1], core.jsonable(v[2])]
        for k, v in d["counters"].items():
            rec.count("passive." + k, v)
        for k, v in self.h.calls.items():
            rec.count("tap." + k, v)


def data_bytes(a):
    return np.ascontiguousarray(np.asarray(a).view(np.ndarray)).tobytes()


def sentinel_write(target):
    """overwrite all numbers reachable through `target` (an ndarray or unyt object); returns a restore function"""
    v = target.view(np.ndarray) if isinstance(target, np.ndarray) else None
    if v is None or v.size == 0 or not v.flags.writeable:
        return None
    old = v.copy()
    v[...] = 113 if v.dtype.kind in "iu" else -77.25

    def restore():
        v[...] = old
    return restore


# ------------------------------------------------------------------------------------------------ index / iteration
def do_index(cx, p, item, where):
    """drive one p[item]; the passive observer holds the oracle (tap on __getitem__); returns the result or None"""
    rec, obs = cx.rec, cx.obs
    before = obs.evals
    try:
        r = p[item]
    except Exception as e:
        try:
            p.view(np.ndarray)[item]
        except Exception:
            rec.note(f"index-refused-like-numpy:{P.index_form(item)}")
            return None
        rec.note(f"index-raises-but-numpy-accepts:{P.index_form(item)}:{type(e).__name__}")
        return None
    rec.reach("index:" + P.index_form(item))
    if obs.evals == before:
        rec.count("index.unobserved")
    else:
        rec.count("index.driven")
    return r


def drive_iteration(cx, p, tag):
    """iteration protocols do not pass through the __getitem__ tap: judged here with the same judge_item oracle"""
    rec, obs = cx.rec, cx.obs
    bare = p.view(np.ndarray)
    protos = {
        "iter": lambda: list(iter(p)), "for": lambda: [x for x in p], "list": lambda: list(p), "tuple": lambda: list(tuple(p)),
        "reversed": lambda: list(reversed(p))[::-1], "unpack": lambda: (lambda *a: list(a))(*p), "enumerate": lambda: [x for _, x in enumerate(p)],
        "zip": lambda: [x for x, _ in zip(p, range(10 ** 6))], "getitem-loop": lambda: [p[i] for i in range(len(p))],
    }
    for name, fn in protos.items():
        try:
            got = fn()
        except TypeError:
            if p.ndim == 0:
                rec.note("iteration-of-0d-refused")
                continue
            raise
        if p.ndim == 0:
            rec.note("iteration-of-0d-accepted")
            continue
        if len(got) != len(bare):
            rec.violation(f"C16:iter/{name}:length:{P.kind_of(p)}", f"{name} over shape {p.shape} yields {len(got)} items, NumPy {len(bare)}", {"shape": list(p.shape)})
            continue
        for i, x in enumerate(got):
            obs.judge_item("iter", name, p, f"element {i}", x, bare[i])
        rec.count("iteration.protocols")
        rec.reach("iter:" + name)


def drive_index(cx, payload):
    unyt, rec = cx.unyt, cx.rec
    for shape in payload["shapes"]:
        shape = tuple(shape)
        for dt in payload["dtypes"]:
            for kind in kinds_for(shape):
                for name in (None, "vel"):
                    for unit in (("m",) if name else ("m", "degC", "dimensionless")):
                        for layout in (("own",) if (name or unit != "m") else G.layouts(shape)):
                            p = make_operand(unyt, shape, kind, dt, unit, name=name, layout=layout)
                            for item in G.indices_for(shape):
                                r = do_index(cx, p, item, "index")
                                # second-level indexing of what came out (results are operands too)
                                if r is not None and isinstance(r, unyt.unyt_array) and r.ndim <= 2:
                                    for item2 in ((), Ellipsis, None, 0, (Ellipsis, 0), slice(None)):
                                        do_index(cx, r, item2, "index2")
                            drive_iteration(cx, p, layout)
    rec.sample({"index": {"shapes": [list(s) for s in payload["shapes"]], "forms_per_shape": len(G.indices_for((2, 3)))}})


# ------------------------------------------------------------------------------------------------ views / accessors / copies
VIEW_OPS = [
    ("x[1:]", lambda x: x[1:]), ("x[:1]", lambda x: x[:1]), ("x[::2]", lambda x: x[::2]), ("x[::-1]", lambda x: x[::-1]), ("x[...,::-1]", lambda x: x[..., ::-1]),
    ("x[:]", lambda x: x[:]), ("x[...]", lambda x: x[...]), ("x[None]", lambda x: x[None]), ("x[...,None]", lambda x: x[..., None]), ("x[0:1,...]", lambda x: x[0:1, ...]),
    ("x[:,0]", lambda x: x[:, 0]), ("x[0]", lambda x: x[0]), ("x[...,0:1]", lambda x: x[..., 0:1]),
    ("x.reshape(-1)", lambda x: x.reshape(-1)), ("x.reshape(rev)", lambda x: x.reshape(x.shape[::-1])), ("x.reshape((1,)+sh)", lambda x: x.reshape((1,) + x.shape)),
    ("x.reshape(sh+(1,))", lambda x: x.reshape(x.shape + (1,))), ("x.reshape(sh)", lambda x: x.reshape(x.shape)), ("x.reshape(-1,order=F)", lambda x: x.reshape(-1, order="F")),
    ("np.reshape(x,-1)", lambda x: np.reshape(x, -1)), ("np.reshape(x,(1,-1))", lambda x: np.reshape(x, (1, -1))), ("x.reshape(1,-1)", lambda x: x.reshape(1, -1)),
    ("x.T", lambda x: x.T), ("x.mT", lambda x: x.mT), ("x.transpose()", lambda x: x.transpose()), ("np.transpose(x)", lambda x: np.transpose(x)),
    ("x.swapaxes(0,-1)", lambda x: x.swapaxes(0, -1)), ("np.swapaxes(x,0,-1)", lambda x: np.swapaxes(x, 0, -1)), ("np.moveaxis(x,0,-1)", lambda x: np.moveaxis(x, 0, -1)),
    ("np.rollaxis(x,-1)", lambda x: np.rollaxis(x, -1)), ("np.matrix_transpose(x)", lambda x: np.matrix_transpose(x)), ("np.permute_dims(x)", lambda x: np.permute_dims(x)),
    ("x.ravel()", lambda x: x.ravel()), ("np.ravel(x)", lambda x: np.ravel(x)), ("x.ravel(order=K)", lambda x: x.ravel(order="K")), ("x.flatten()", lambda x: x.flatten()),
    ("x.squeeze()", lambda x: x.squeeze()), ("np.squeeze(x)", lambda x: np.squeeze(x)), ("np.expand_dims(x,0)", lambda x: np.expand_dims(x, 0)),
    ("x.view()", lambda x: x.view()), ("x.view(type(x))", lambda x: x.view(type(x))), ("x.diagonal()", lambda x: x.diagonal()), ("np.diagonal(x)", lambda x: np.diagonal(x)),
    ("x.real", lambda x: x.real), ("x.imag", lambda x: x.imag), ("np.real(x)", lambda x: np.real(x)), ("np.atleast_1d(x)", lambda x: np.atleast_1d(x)),
    ("np.atleast_2d(x)", lambda x: np.atleast_2d(x)), ("np.atleast_3d(x)", lambda x: np.atleast_3d(x)), ("np.flip(x)", lambda x: np.flip(x)), ("np.flipud(x)", lambda x: np.flipud(x)),
    ("np.fliplr(x)", lambda x: np.fliplr(x)), ("np.rot90(x)", lambda x: np.rot90(x)), ("np.broadcast_to(x,(2,)+sh,subok)", lambda x: np.broadcast_to(x, (2,) + x.shape, subok=True)),
    ("np.asanyarray(x)", lambda x: np.asanyarray(x)), ("np.array(x,subok,copy=False)", lambda x: np.array(x, subok=True, copy=False)),
    ("x.astype(same,copy=False)", lambda x: x.astype(x.dtype, copy=False)), ("np.split(x,1)[0]", lambda x: np.split(x, 1)[0]), ("np.unstack(x)[0]", lambda x: np.unstack(x)[0]),
    ("x.flat[:]-like x.reshape(-1)[:]", lambda x: x.reshape(-1)[:]), ("np.lib.stride_tricks.as_strided", lambda x: np.lib.stride_tricks.as_strided(x, x.shape, x.strides, subok=True)),
    ("sliding_window_view", lambda x: np.lib.stride_tricks.sliding_window_view(x, 1, axis=0, subok=True)),
]
ACC_VIEWS = [("x.d", lambda x: x.d), ("x.ndview", lambda x: x.ndview), ("x.ndarray_view()", lambda x: x.ndarray_view())]
ACC_COPIES = [("x.v", lambda x: x.v), ("x.value", lambda x: x.value), ("x.to_ndarray()", lambda x: x.to_ndarray()), ("x.to_value()", lambda x: x.to_value()),
              ("x.copy()", lambda x: x.copy()), ("x.copy(order=K)", lambda x: x.copy(order="K")), ("copy.copy(x)", lambda x: __import__("copy").copy(x)),
              ("copy.deepcopy(x)", lambda x: __import__("copy").deepcopy(x)), ("np.copy(x,subok)", lambda x: np.copy(x, subok=True)), ("np.array(x,subok)", lambda x: np.array(x, subok=True)),
              ("x.to_value(None)", lambda x: x.to_value(None)), ("np.array(x)", lambda x: np.array(x))]
# (parent unit, [(target, equivalence or None)]) : identity, same scale spelled differently, different scale, offset, equivalence
CONV_TARGETS = {
    "m": [("m", None), ("cm", None), ("km", None), ("1000*mm", None), ("m**1", None), ("Hz", "spectral")],
    "J": [("J", None), ("N*m", None), ("erg", None), ("kg*m**2/s**2", None), ("W*s", None), ("K", "thermal")],
    "K": [("K", None), ("degC", None), ("R", None), ("keV", "thermal")],
    "dimensionless": [("dimensionless", None), ("percent", None), ("", None)],
    "g/cm**3": [("g/cm**3", None), ("kg/m**3", None), ("g*cm**-3", None), ("cm**-3", "number_density")],
    # electromagnetic units take their own branch (_check_em_conversion / _em_conversion) in every converting call
    "A": [("A", None), ("mA", None), ("statA", None), ("C/s", None)],
    "statC": [("statC", None), ("esu", None), ("C", None)],
    "T": [("T", None), ("G", None), ("mT", None)],
    "G": [("G", None), ("T", None), ("gauss", None)],
    "V": [("V", None), ("statV", None), ("W/A", None)],
    "degree": [("degree", None), ("radian", None), ("arcmin", None)],
}
CONV_CALLS = [
    ("to", lambda x, t, eq: x.to(t) if eq is None else x.to(t, eq)), ("in_units", lambda x, t, eq: x.in_units(t) if eq is None else x.in_units(t, eq)),
    ("to(Unit)", lambda x, t, eq: x.to(type(x.units)(t, registry=x.units.registry)) if eq is None else None),
    ("to_value", lambda x, t, eq: x.to_value(t) if eq is None else x.to_value(t, eq)),
    ("to_equivalent", lambda x, t, eq: x.to_equivalent(t, eq or "spectral")),
    ("to(equivalence=kw)", lambda x, t, eq: x.to(t, equivalence=eq) if eq else None),
]
BASE_CALLS = [("in_base()", lambda x: x.in_base()), ("in_base(mks)", lambda x: x.in_base("mks")), ("in_base(cgs)", lambda x: x.in_base("cgs")), ("in_cgs()", lambda x: x.in_cgs()),
              ("in_mks()", lambda x: x.in_mks()), ("in_base(galactic)", lambda x: x.in_base("galactic")), ("in_base(UnitSystem)", lambda x: x.in_base(__import__("unyt").unit_systems.mks_unit_system))]


def probe_share(cx, tag, opname, p, r, expect, layout, owner=None, cellop=None):
    """p: parent (unyt or ndarray); r: result; expect: True (must share), False (must not), judged by shares_memory and by a
    write probe in both directions.  Returns True when judged.  cellop: finer operation name for the coverage cell (the key
    keeps the structural opname)."""
    rec = cx.rec
    cellop = cellop or opname
    pk = P.kind_of(p) if isinstance(p, cx.unyt.unyt_array) else "ndarray-" + P.shape_class(p.shape)
    dk = p.dtype.kind
    if not isinstance(r, np.ndarray):
        if expect is False:
            rec.ok((tag, cellop, pk, dk, layout, "python-scalar"))     # a python number cannot alias the parent
            return True
        rec.violation(f"C16:{tag}/{opname}:not-an-array:{pk}", f"{opname} returned {type(r).__name__}", {"op": opname})
        return True
    if p.size == 0 or r.size == 0:
        rec.note(f"memory-not-judged-empty:{tag}")
        return False
    got = P.shares(r, p)
    case = {"op": opname, "parent": pk, "parent_shape": list(p.shape), "dtype": str(p.dtype), "layout": layout,
            "units": P.ustr(getattr(p, "units", None)), "result_class": type(r).__name__}
    if got != expect:
        kind = "detached-view" if expect else "shares-memory"
        rec.violation(f"C16:{tag}/{opname}:{kind}:{pk}",
                      f"{opname} on a {pk} ({p.dtype}, shape {p.shape}, layout {layout}): np.shares_memory(result, parent) is {got}, must be {expect}", case)
        return True
    # write probe: result -> parent
    before = data_bytes(p)
    restore = sentinel_write(r)
    if restore is not None:
        changed = data_bytes(p) != before
        restore()
        if changed != expect:
            kind = "write-not-visible" if expect else "write-leaks-to-parent"
            rec.violation(f"C16:{tag}/{opname}:{kind}:{pk}", f"{opname} on a {pk} ({p.dtype}, shape {p.shape}): writing through the result "
                          f"{'did not change' if expect else 'changed'} the parent", case)
            return True
    # parent -> result
    beforer = data_bytes(r)
    restore = sentinel_write(p)
    if restore is not None:
        changed = data_bytes(r) != beforer
        restore()
        if changed != expect:
            kind = "parent-write-not-visible" if expect else "parent-write-leaks"
            rec.violation(f"C16:{tag}/{opname}:{kind}:{pk}", f"{opname} on a {pk} ({p.dtype}, shape {p.shape}): writing to the parent "
                          f"{'did not change' if expect else 'changed'} the result", case)
            return True
    rec.ok((tag, cellop, pk, dk, layout, "view" if expect else "copy"))
    return True


def judge_result_class(cx, route, opname, r, operands):
    """class-by-shape for a driver-level result unless the passive observer already flagged this very call"""
    cx.obs.judge_class(route, opname, r, operands, "active")


def drive_views(cx, payload):
    unyt, rec, obs = cx.unyt, cx.rec, cx.obs
    UA = unyt.unyt_array
    for shape in payload["shapes"]:
        shape = tuple(shape)
        for dt in payload["dtypes"]:
            for kind in kinds_for(shape):
                for layout in G.layouts(shape):
                    p = make_operand(unyt, shape, kind, dt, "m", layout=layout)
                    bare = p.view(np.ndarray)
                    # 1. view operations: NumPy on the stripped parent is the reference
                    for name, fn in VIEW_OPS:
                        try:
                            ref = fn(bare)
                        except Exception:
                            continue
                        if not isinstance(ref, np.ndarray) or ref.size == 0:
                            continue
                        try:
                            r = fn(p)
                        except Exception as e:
                            rec.note(f"view-op-raises-but-numpy-accepts:{name}:{type(e).__name__}")
                            continue
                        exp = P.shares(ref, bare)
                        rec.reach("view:" + name)
                        if not isinstance(r, UA):
                            rec.note(f"view-op-bare-result:{name}")
                            continue
                        if r.ndim == 0 and ref.ndim == 0:
                            rec.note("memory-not-judged-0d-result")
                            continue
                        if probe_share(cx, "view", name, p, r, exp, layout):
                            rec.count("views.judged")
                    # 2. unit-stripping view accessors
                    for name, fn in ACC_VIEWS:
                        r = fn(p)
                        rec.reach("accessor:" + name)
                        if type(r) is not np.ndarray:
                            rec.violation(f"C16:accessor/{name}:not-stripped:{P.kind_of(p)}", f"{name} returned {type(r).__name__}, not a bare ndarray", {"op": name})
                            continue
                        if r.shape != p.shape:
                            rec.violation(f"C16:accessor/{name}:shape:{P.kind_of(p)}", f"{name} shape {r.shape} != parent {p.shape}", {"op": name})
                            continue
                        if probe_share(cx, "accessor", name, p, r, True, layout):
                            rec.count("accessor_views.judged")
                    # 3. copies
                    for name, fn in ACC_COPIES:
                        try:
                            r = fn(p)
                        except Exception as e:
                            rec.note(f"copy-op-raises:{name}:{type(e).__name__}")
                            continue
                        rec.reach("copy:" + name)
                        if probe_share(cx, "copy", name, p, r, False, layout):
                            rec.count("copies.judged")
                        # also independent of the memory the parent itself is a view of
                        if p.base is not None and isinstance(r, np.ndarray) and r.size and P.shares(r, p.base):
                            rec.violation(f"C16:copy/{name}:shares-memory-with-base:{P.kind_of(p)}", f"{name}: result shares memory with the parent's base array", {"op": name, "layout": layout})
                # 4. every converting call, per unit family (layout own + one strided view parent)
                for unit, targets in CONV_TARGETS.items():
                    for layout in ("own", "slice") + (("T",) if len(shape) >= 2 else ()):
                        for kind in kinds_for(shape):
                            for (t, eq) in targets:
                                for cname, call in CONV_CALLS:
                                    p = make_operand(unyt, shape, kind, dt, unit, layout=layout)
                                    try:
                                        r = call(p, t, eq)
                                    except Exception as e:
                                        rec.note(f"conversion-raises:{cname}:{type(e).__name__}")
                                        continue
                                    if r is None:
                                        continue
                                    rel = "identity" if t == unit else ("equivalence" if eq else "other")
                                    rec.reach(f"convert:{cname}:{unit}->{t}")
                                    if probe_share(cx, "convert", f"{cname}:{rel}", p, r, False, layout):
                                        rec.count("conversions.judged")
                            for cname, call in BASE_CALLS:
                                p = make_operand(unyt, shape, kind, dt, unit, layout=layout)
                                try:
                                    r = call(p)
                                except Exception as e:
                                    rec.note(f"conversion-raises:{cname}:{type(e).__name__}")
                                    continue
                                rec.reach(f"convert:{cname}:{unit}")
                                if probe_share(cx, "convert", cname, p, r, False, layout):
                                    rec.count("conversions.judged")
    rec.sample({"views": {"shapes": [list(s) for s in payload["shapes"]], "view_ops": len(VIEW_OPS), "copy_ops": len(ACC_COPIES),
                          "conv_families": list(CONV_TARGETS)}})


# ------------------------------------------------------------------------------------------------ catalogue operations: class by shape
def run_op(cx, name, route, fn, env, okind_hint=None):
    rec, obs = cx.rec, cx.obs
    nv = obs.nviol
    try:
        r = fn(env)
    except Exception as e:
        rec.count("ops.raised")
        return None, False
    rec.count("ops.returned")
    operands = [env["x"]] + ([env["_out"]] if isinstance(env.get("_out"), cx.unyt.unyt_array) else [])
    n_before = obs.counters.get("active.judged_objects", 0)
    if route == "ctor":
        # explicit class request: only multi-element quantities are judged
        for x in P.walk(r):
            f = P.class_failure(x)
            if f and name.startswith("x.view("):
                rec.note(f"view-cast-to-class:{f}")       # ndarray.view(cls): no unyt constructor runs
            elif f == "multi-element-quantity":
                obs._violation(f"C16:ctor/{name}:{f}:{P.operand_kind(operands)}", f"{name} returned a unyt_quantity of shape {x.shape}", {"op": name})
            elif f:
                rec.note(f"explicit-class-request:{f}")
            else:
                obs._ok(("class", "ctor", name, P.operand_kind(operands), P.shape_class(x.shape)))
        return r, True
    if obs.nviol != nv:
        rec.count("ops.flagged_by_passive")     # the tapped boundary already reported this call under its own key
        return r, True
    group = None
    kname = name.replace(" ", "")
    if route in ("method", "operator"):
        attr = G.op_attr(name, route)
        if attr and P.inherited_attr(env["x"], attr):
            group = "inherited-ndarray-method"      # no unyt code involved: NumPy keeps the operand's class
        elif attr and route == "operator":
            kname = attr                            # same key as any other driver of the same special method
    elif route == "npfunc":
        group = "numpy-nodispatch-function"         # no depth-0 __array_function__ event produced this object (np.array, asanyarray, ...)
    obs.judge_class(route, kname, r, operands, "active", group=group)
    judged = obs.counters.get("active.judged_objects", 0) > n_before
    return r, judged


def drive_ops(cx, payload):
    unyt, rec = cx.unyt, cx.rec
    ops = G.all_ops()[payload["lo"]:payload["hi"]]
    for shape in payload["shapes"]:
        shape = tuple(shape)
        for dt, fam, with_layouts in payload["combos"]:
            u, u2 = FAM[fam]
            for kind in kinds_for(shape):
                for layout in (G.layouts(shape)[1:] if with_layouts else ["own"]):
                    for name, route, fn in ops:
                        x = make_operand(unyt, shape, kind, dt, u, layout=layout)
                        env = make_env(unyt, x, kind, u, u2)
                        r, judged = run_op(cx, name, route, fn, env)
                        if judged:
                            rec.reach("op:" + name)
    rec.sample({"ops": {"range": [payload["lo"], payload["hi"]], "first": ops[0][0] if ops else None, "shapes": len(payload["shapes"]),
                        "combos": [list(c) for c in payload["combos"]]}})


# ------------------------------------------------------------------------------------------------ constructors / unit multiplication
def drive_ctor(cx, payload):
    unyt, rec, obs = cx.unyt, cx.rec, cx.obs
    UA, UQ, U = unyt.unyt_array, unyt.unyt_quantity, unyt.Unit
    reg = unyt.UnitRegistry()
    ctor_forms = [
        ("unyt_array(nd,str)", lambda nd: UA(nd, "m")), ("unyt_array(nd,Unit)", lambda nd: UA(nd, U("m"))), ("unyt_array(nd)", lambda nd: UA(nd)),
        ("unyt_array(nd,str,registry)", lambda nd: UA(nd, "m", registry=reg)), ("unyt_array(nd,Unit,registry)", lambda nd: UA(nd, U("m"), registry=reg)),
        ("unyt_array(nd,str,name)", lambda nd: UA(nd, "m", name="n")), ("unyt_array(nd,str,dtype=same)", lambda nd: UA(nd, "m", dtype=nd.dtype)),
        ("unyt_array(nd,Unit,bypass_validation)", lambda nd: UA(nd, U("m"), bypass_validation=True)), ("unyt_array(nd,compound)", lambda nd: UA(nd, "km/s**2")),
        ("unyt_array(nd,units=kw)", lambda nd: UA(nd, units="m")), ("unyt_array(input_array=kw)", lambda nd: UA(input_array=nd, units="m")),
        ("unyt_array(nd,dimensionless)", lambda nd: UA(nd, "dimensionless")), ("unyt_array(nd,degC)", lambda nd: UA(nd, "degC")),
    ]
    q_forms = [("unyt_quantity(nd0,str)", lambda nd: UQ(nd, "m")), ("unyt_quantity(nd0,Unit,bypass_validation)", lambda nd: UQ(nd, U("m"), bypass_validation=True)),
               ("unyt_quantity(nd0)", lambda nd: UQ(nd))]
    ua_forms = [("unyt_array(unyt_array)", lambda a: UA(a)), ("unyt_array(unyt_array,str)", lambda a: UA(a, "m")), ("unyt_array(unyt_array,registry)", lambda a: UA(a, registry=reg))]
    mul_forms = [("nd*unit", lambda d, u: d * u), ("unit*nd", lambda d, u: u * d), ("unit.__mul__(nd)", lambda d, u: u.__mul__(d)), ("unit.__rmul__(nd)", lambda d, u: u.__rmul__(d)),
                 ("nd*unit*unit", lambda d, u: d * u * u), ("nd*(unit*unit)", lambda d, u: d * (u * u)), ("nd*unit**2", lambda d, u: d * u ** 2)]
    div_forms = [("nd/unit", lambda d, u: d / u), ("unit/nd", lambda d, u: u / d)]
    for shape in payload["shapes"]:
        shape = tuple(shape)
        for dt in payload["dtypes"]:
            for layout in G.layouts(shape) + ["readonly"]:
                def fresh():
                    if layout == "readonly":
                        a = G.values(shape, dt)
                        a.flags.writeable = False
                        return a
                    return G.ndarray_in_layout(shape, dt, layout)[0]
                # 1. constructor from a NumPy array is a view
                for name, fn in ctor_forms + (q_forms if shape == () or int(np.prod(shape)) == 1 else []):
                    nd = fresh()
                    try:
                        r = fn(nd)
                    except Exception as e:
                        rec.note(f"ctor-raises:{name}:{type(e).__name__}")
                        continue
                    rec.reach("ctor:" + name)
                    if not isinstance(r, UA):
                        rec.violation(f"C16:ctor/{name}:not-unyt:ndarray-{P.shape_class(shape)}", f"{name} returned {type(r).__name__}", {"op": name})
                        continue
                    if r.shape != nd.shape or r.dtype != nd.dtype:
                        rec.violation(f"C16:ctor/{name}:shape-or-dtype:ndarray-{P.shape_class(shape)}", f"{name}: {nd.shape}/{nd.dtype} became {r.shape}/{r.dtype}", {"op": name})
                        continue
                    if probe_share(cx, "ctor", name, nd, r, True, layout):
                        rec.count("ctor_views.judged")
                # dtype= different from the array's: NumPy's asarray(dtype=) decides (a copy) - noted only
                # 2. constructor from a unyt_array is a view as well (same code path of the statement: 'building an array ... is a view')
                for name, fn in ua_forms:
                    a = UA(fresh(), "m")
                    try:
                        r = fn(a)
                    except Exception as e:
                        rec.note(f"ctor-raises:{name}:{type(e).__name__}")
                        continue
                    rec.reach("ctor:" + name)
                    if probe_share(cx, "ctor", name, a, r, True, layout):
                        rec.count("ctor_views.judged")
                # 3. data * unit is a copy, class by shape
                for name, fn in mul_forms + div_forms:
                    for dkind in ("ndarray", "unyt"):
                        nd = fresh()
                        d = nd if dkind == "ndarray" else UA(nd, "s")
                        nv = obs.nviol
                        try:
                            r = fn(d, U("m"))
                        except Exception as e:
                            rec.note(f"unit-mul-raises:{name}:{type(e).__name__}")
                            continue
                        rec.reach(f"unitmul:{name}:{dkind}")
                        if not isinstance(r, UA):
                            rec.violation(f"C16:unitmul/{name}:not-unyt:{dkind}-{P.shape_class(shape)}", f"{name} returned {type(r).__name__}", {"op": name})
                            continue
                        if obs.nviol == nv:
                            obs.judge_class("unitmul", name, r, [d] if dkind == "unyt" else [], "active")
                        if name in dict(div_forms):
                            if nd.size and P.shares(r, nd):
                                rec.violation(f"C16:unitmul/{name}:shares-memory:{dkind}-{P.shape_class(shape)}", f"{name}: result shares memory with the data", {"op": name})
                            continue
                        if probe_share(cx, "unitmul", f"{name}:{dkind}", nd, r, False, layout):
                            rec.count("unit_mul_copies.judged")
    # python data * unit: class by shape
    for name, data in (("float*unit", 2.5), ("int*unit", 3), ("np.float64*unit", np.float64(2.5)), ("np.int32*unit", np.int32(3)), ("nd0*unit", np.array(2.5)),
                       ("complex*unit", 1 + 2j), ("list*unit", [1.0, 2.0]), ("list1*unit", [1.0]), ("nested-list*unit", [[1.0, 2.0]]), ("tuple*unit", (1.0, 2.0)),
                       ("emptylist*unit", np.array([])), ("bool-free nd1*unit", np.array([2.5])), ("nd11*unit", np.array([[2.5]]))):
        for form, fn in (("d*u", lambda d, u: d * u), ("u*d", lambda d, u: u * d), ("d/u", lambda d, u: d / u), ("u/d", lambda d, u: u / d)):
            nv = obs.nviol
            try:
                r = fn(data, U("m"))
            except Exception as e:
                rec.note(f"unit-mul-raises:{name}:{type(e).__name__}")
                continue
            rec.reach(f"unitmul:{name}:{form}")
            if obs.nviol == nv:
                obs.judge_class("unitmul", f"{name}:{form}", r, [], "active")
    # 4. the quantity constructor never returns a multi-element quantity
    multi = [("nd(3,)", np.array([1.0, 2.0, 3.0])), ("nd(2,2)", np.ones((2, 2))), ("nd(2,)int", np.array([1, 2])), ("nd(1,2)", np.ones((1, 2)))]
    for tag, nd in multi:
        forms = [("unyt_quantity(nd,str)", lambda: UQ(nd, "m")), ("unyt_quantity(nd)", lambda: UQ(nd)), ("unyt_quantity(nd,str,dtype)", lambda: UQ(nd, "m", dtype="f4")),
                 ("unyt_quantity(unyt_array)", lambda: UQ(UA(nd, "m"))), ("unyt_quantity(unyt_array,str)", lambda: UQ(UA(nd, "m"), "cm")), ("unyt_quantity(nd,registry)", lambda: UQ(nd, "m", registry=reg)),
                 ("unyt_quantity(nd,name)", lambda: UQ(nd, "m", name="n")), ("unyt_quantity.from_string-free list", lambda: UQ(nd.tolist(), "m"))]
        for name, fn in forms:
            try:
                r = fn()
            except Exception:
                rec.ok(("quantity-ctor-refuses", name, tag))
                rec.count("quantity_ctor.judged")
                continue
            rec.count("quantity_ctor.judged")
            if isinstance(r, UQ) and r.size > 1:
                rec.violation(f"C16:ctor/{name}:multi-element-quantity:ndarray-multi", f"{name} with {tag} returned a unyt_quantity of shape {r.shape}", {"op": name, "input": tag})
            else:
                rec.ok(("quantity-ctor-result", name, tag))
    rec.sample({"ctor": {"forms": [n for n, _ in ctor_forms], "mul_forms": [n for n, _ in mul_forms]}})


# ------------------------------------------------------------------------------------------------ call forms: door x constructor/converter x keyword set
ACCESSOR_FORMS = ("x.ndarray_view()", "x.d", "x.ndview")
CALLFORM_KW_COUNTERS = tuple("callform.ctor_kw." + k for k in CF.KW_ORDER)


def drive_callforms(cx, payload, bid):
    """every door (what kind of array object is handed in) x every constructor class x keyword sets that request no change:
    the constructor must return a live view of its input exactly as the bare call does; the view converters and the copying
    calls in their no-change spellings over the same doors.  Reference for 'this request needs no conversion' and for the
    view/copy status of inherited NumPy calls is NumPy's own answer on the stripped data."""
    unyt, rec = cx.unyt, cx.rec
    K = CF.Classes(unyt)
    UA = K.UA
    r = core.rng(payload["seed"], bid)
    specs = CF.kw_specs(payload["specs"], r, nrandom=payload["nrandom"])
    few = [s for s in specs if len(s) <= 1]                    # bare call and single keywords: all layouts
    rot = 0
    for shape in payload["shapes"]:
        shape = tuple(shape)
        lays = G.layouts(shape) + ["readonly"]
        for dt in payload["dtypes"]:
            def fresh(layout):
                if layout == "readonly":
                    a = G.values(shape, dt)
                    a.flags.writeable = False
                    return a
                return G.ndarray_in_layout(shape, dt, layout)[0]
            for dname in payload["doors"]:
                probe = CF.door(K, dname, fresh("own"))
                if probe is None:
                    continue
                rec.reach("door:" + dname)
                unyt_door = isinstance(probe, UA)
                # 1. the constructor matrix
                for cname, cls in CF.ctor_classes(K, probe):
                    rot += 1
                    plan = [(sp, lay) for sp in few for lay in lays] + [(sp, lays[(i + rot) % len(lays)]) for i, sp in enumerate(specs) if len(sp) > 1]
                    for spec, layout in plan:
                        x = CF.door(K, dname, fresh(layout))
                        args, kw, status = CF.realize(K, x, spec)
                        if status.startswith("skip"):
                            rec.count("callform.ctor_not_applicable")
                            continue
                        names = CF.spec_names(spec)
                        op = f"{cname}({dname})[{names}]"
                        try:
                            res = cls(*args, **kw)
                        except Exception as e:
                            rec.note(f"callform-ctor-raises:{cname}({dname})[{names}]:{type(e).__name__}")
                            rec.count("callform.ctor_raised")
                            continue
                        if status.startswith("note"):
                            rec.note(f"callform-ctor-not-judged:{status[5:]}:{'unyt' if unyt_door else 'ndarray'}-input:" + ("shares" if P.shares(res, x) else "detached"))
                            rec.count("callform.ctor_noted")
                            continue
                        pk = P.kind_of(x) if unyt_door else "ndarray-" + P.shape_class(x.shape)
                        if not isinstance(res, UA):
                            rec.violation(f"C16:ctorkw/{op}:not-unyt:{pk}", f"{cname}({dname}, {CF.spec_values(spec)}) returned {type(res).__name__}", {"op": op, "spec": spec})
                            continue
                        if isinstance(res, K.UQ) and res.size > 1:
                            rec.violation(f"C16:ctorkw/{op}:multi-element-quantity:{pk}", f"{cname}({dname}, {CF.spec_values(spec)}) returned a quantity of shape {res.shape}", {"op": op, "spec": spec})
                            continue
                        if res.shape != x.shape or res.dtype != x.dtype:
                            rec.violation(f"C16:ctorkw/{op}:shape-or-dtype:{pk}", f"{cname}({dname}, {CF.spec_values(spec)}): no change requested but {x.shape}/{x.dtype} became {res.shape}/{res.dtype}",
                                          {"op": op, "spec": spec, "layout": layout})
                            continue
                        if probe_share(cx, "ctorkw", op, x, res, True, layout, cellop=f"{cname}({dname})[{CF.spec_values(spec)}]"):
                            rec.count("callform.ctor_judged")
                            for k in spec:
                                rec.count("callform.ctor_kw." + k)
                            if unyt_door and "dtype" in spec:
                                rec.count("callform.ctor_unyt_input_dtype_kw")
                            if unyt_door and len(spec) >= 2:
                                rec.count("callform.ctor_unyt_input_kw_pairs")
                            if "subclass" in dname or "subclass" in cname:
                                rec.count("callform.ctor_subclass")
                if not unyt_door:
                    continue
                # 2. view converters / 3. copying calls in their no-change spellings; quick tier: three layouts per (shape, dtype,
                # door), rotating so that every layout meets every door; thorough: all layouts
                rot += 1
                for layout in (lays if payload.get("all_layouts") else sorted({lays[(rot + k * 3) % len(lays)] for k in range(3)})):
                    for tag, forms, counter in (("viewkw", CF.VIEW_FORMS, "callform.view_judged"), ("copykw", CF.COPY_FORMS, "callform.copy_judged")):
                        for name, fn in forms:
                            if shape == () and name.startswith("x["):
                                rec.note("memory-not-judged-0d-index-result")
                                continue
                            bare = fresh(layout)
                            if name in ACCESSOR_FORMS or tag == "copykw":
                                exp = tag == "viewkw"                     # stated by the property itself
                                try:
                                    ref = fn(bare)
                                    if isinstance(ref, np.ndarray) and P.shares(ref, bare) != exp and tag == "copykw":
                                        rec.note(f"copy-form-numpy-reference-shares:{name}")
                                        continue
                                except Exception:
                                    pass                                  # a unyt-only call: no NumPy counterpart
                            else:
                                try:
                                    ref = fn(bare)
                                except Exception:
                                    rec.count("callform.view_form_not_applicable")
                                    continue
                                if not isinstance(ref, np.ndarray):
                                    continue
                                exp = P.shares(ref, bare)
                            x = CF.door(K, dname, fresh(layout))
                            try:
                                res = fn(x)
                            except Exception as e:
                                rec.note(f"callform-{tag}-raises:{name}({dname}):{type(e).__name__}")
                                continue
                            if res is None:
                                continue
                            rec.reach(f"{tag}:{name}")
                            if probe_share(cx, tag, f"{name}({dname})", x, res, exp, layout):
                                rec.count(counter)
                                if "subclass" in dname:
                                    rec.count("callform.converter_subclass")
    rec.sample({"callforms": {"shapes": [list(s) for s in payload["shapes"]], "doors": payload["doors"], "kw_specs": len(specs), "view_forms": len(CF.VIEW_FORMS),
                              "copy_forms": len(CF.COPY_FORMS)}})


# ------------------------------------------------------------------------------------------------ coercion of mixed-unit lists
COERCE_FAMILIES = {
    "length": ["m", "cm", "km", "mm", "inch", "ft", "mile"], "time": ["s", "ms", "min", "hr", "day"], "mass": ["g", "kg", "lb"],
    "energy": ["J", "erg", "kJ"], "speed": ["m/s", "km/hr", "cm/s", "mile/hr", "ft/s"], "temperature": ["K", "degC", "degF", "R"],
}


def ref_affine(u):
    """K (or SI) = a * v + b from the independent tables"""
    from vf.ref import defs, names, uexpr
    r = names.resolve(u)
    if r is not None:
        f, s, _ = r
        de = defs.T[s]
        a = de.value * f
        return (a, -de.value * de.offset) if de.offset else (a, 0.0)
    sc, _ = uexpr.evaluate(u, names.resolver())
    return sc, 0.0


def drive_coerce(cx, payload):
    unyt, rec = cx.unyt, cx.rec
    UA, UQ = unyt.unyt_array, unyt.unyt_quantity
    r = core.rng(payload["seed"], "coerce", payload.get("part", 0))
    cases = []
    for fam, us in COERCE_FAMILIES.items():
        for u0 in us:                                   # every unit leads once, all others follow
            others = [u for u in us if u != u0]
            cases.append((fam, [u0] + others, "enumerated"))
            cases.append((fam, [u0, u0, others[0]], "enumerated"))
            cases.append((fam, [u0, others[-1]], "enumerated"))
        for _ in range(payload["n"]):
            k = r.randint(2, 5)
            cases.append((fam, [r.choice(us) for _ in range(k)], "random"))
    reg = unyt.UnitRegistry()
    builders = [
        ("list-of-quantities", lambda vals, us: [UQ(v, u) for v, u in zip(vals, us)], 0),
        ("tuple-of-quantities", lambda vals, us: tuple(UQ(v, u) for v, u in zip(vals, us)), 0),
        ("list-of-int-quantities", lambda vals, us: [UQ(int(v), u) for v, u in zip(vals, us)], "int"),
        ("list-of-0d-arrays", lambda vals, us: [UA(np.array(v), u) for v, u in zip(vals, us)], 0),
        ("list-of-1d-arrays", lambda vals, us: [UA(np.array([v, 2 * v]), u) for v, u in zip(vals, us)], 1),
        ("list-of-f4-quantities", lambda vals, us: [UQ(np.float32(v), u) for v, u in zip(vals, us)], "f4"),
    ]
    entry = [
        ("unyt_array(seq)", lambda seq: UA(seq)), ("unyt_array(seq,registry)", lambda seq: UA(seq, registry=reg)),
        ("np.add(seq,zero-of-first)", None),
    ]
    for fam, us, how in cases:
        vals = [round(r.uniform(1, 90), 3) if how == "random" else float(3 + 2 * i) for i in range(len(us))]
        a0, b0 = ref_affine(us[0])
        for bname, build, mode in builders:
            v_in = [float(int(v)) for v in vals] if mode == "int" else ([float(np.float32(v)) for v in vals] if mode == "f4" else vals)
            exp = np.array([((ref_affine(u)[0] * v + ref_affine(u)[1]) - b0) / a0 for v, u in zip(v_in, us)])
            if mode == 1:
                exp = np.array([[((ref_affine(u)[0] * w + ref_affine(u)[1]) - b0) / a0 for w in (v, 2 * v)] for v, u in zip(v_in, us)])
            for ename, efn in entry:
                seq = build(vals, us)
                try:
                    if efn is None:
                        if fam == "temperature":
                            continue
                        z = UA(np.zeros(exp.shape), us[0])
                        res = np.add(seq if isinstance(seq, list) else list(seq), z)
                    else:
                        res = efn(seq)
                except Exception as e:
                    rec.violation(f"C16:coerce/{ename}:raises:{bname}:{fam}", f"{ename} of {bname} in units {us} raised {type(e).__name__}: {e}"[:400],
                                  {"units": us, "values": vals, "builder": bname})
                    continue
                rec.count("coerce.judged")
                rec.reach(f"coerce:{ename}:{bname}")
                case = {"units": us, "values": v_in, "builder": bname, "entry": ename}
                if not isinstance(res, UA):
                    rec.violation(f"C16:coerce/{ename}:lost-units:{bname}:{fam}", f"{ename} of {bname} {us} returned bare {type(res).__name__}", case)
                    continue
                f = P.class_failure(res)
                if f:
                    rec.violation(f"C16:coerce/{ename}:{f}:{bname}", f"{ename} of {bname} returned {type(res).__name__} shape {res.shape}", case)
                    continue
                if P.ustr(res.units) != P.ustr(unyt.Unit(us[0])):
                    rec.violation(f"C16:coerce/{ename}:unit-not-first-element:{bname}:{fam}", f"{ename} of {bname} in units {us} is labelled {res.units}, first element has {us[0]}", case)
                    continue
                got = np.asarray(res.view(np.ndarray), dtype="f8")
                tol = (4e-7 if mode == "f4" else 1e-12) * (np.abs(exp) + abs(b0 / a0) + 1e-300) + (1e-9 if fam == "temperature" else 0.0)
                if got.shape != exp.shape or not np.all(np.abs(got - exp) <= tol):
                    same_as_input = got.shape == exp.shape and np.allclose(got.ravel()[:len(v_in)] if mode != 1 else got[:, 0], v_in)
                    rec.violation(f"C16:coerce/{ename}:{'values-not-converted' if same_as_input else 'values-wrong'}:{bname}:{fam}",
                                  f"{ename} of {bname} {list(zip(v_in, us))} gave {got.tolist()} {us[0]}; converted values are {exp.tolist()}", case)
                else:
                    rec.ok(("coerce", ename, bname, fam, us[0], len(set(us))))
        # explicit units argument next to a mixed list: not in the statement
        try:
            UA([UQ(v, u) for v, u in zip(vals, us)], us[-1])
            rec.note("coerce-with-explicit-units-argument")
        except Exception:
            rec.note("coerce-with-explicit-units-argument-raises")
    rec.sample({"coerce": {"families": {k: v for k, v in COERCE_FAMILIES.items()}, "builders": [b[0] for b in builders], "cases": len(cases)}})


# ------------------------------------------------------------------------------------------------ coercion: element units that print alike
SP_REFUSAL_OK = ()          # no refusal is acceptable for commensurable elements when the differently spelled control returns


class SPEnv:
    """what a door of vf/gen/c16_sameprint.py may ask for; every call builds fresh objects"""

    def __init__(self, unyt, seqh, ht, builder, vals, z_num, z2_num):
        self.unyt, self.np, self.UA, self.UQ = unyt, np, unyt.unyt_array, unyt.unyt_quantity
        self.seqh, self.ht, self.builder, self.vals = seqh, ht, builder, vals
        self.n = len(seqh)
        self.first_reg = seqh[0].unit.registry
        self._z, self._z2 = z_num, z2_num

    def seq(self):
        return [SP.element(self.unyt, self.builder, h, v) for h, v in zip(self.seqh, self.vals)]

    def tup(self):
        return tuple(self.seq())

    def nested(self):
        return [self.seq(), self.seq()[::-1]]

    def z(self):
        return self.UA(self._z.copy(), self.ht.unit)

    def z2(self):
        return self.UA(self._z2.copy(), self.ht.unit)

    def t(self):
        return self.UA(np.zeros(self._z.shape), self.ht.unit)

    def t2(self):
        return self.UA(np.zeros(self._z2.shape), self.ht.unit)


def sp_expected(rule, seq_si, nested_si, z_si, z2_si):
    """reference numbers in SI (NumPy on plain floats is trusted); None when not applicable"""
    nested = "nested" in rule
    S, Z = (nested_si, z2_si) if nested else (seq_si, z_si)
    if rule[0] in ("seq", "nested"):
        return S[::-1] if "reversed" in rule else S
    f = getattr(np, rule[0])
    return f(Z, S) if rule[1] == "zs" else f(S, Z)


def drive_sameprint(cx, payload, bid):
    """the sequence-coercion clause over element units that print the same and differ in size (several registries, modified
    default symbols, stale snapshots, edited registry copies), with a same-size control and the differently spelled control,
    through every door that coerces a sequence.  Reference: vf.ref.regmodel mirrors of every registry edit."""
    unyt, rec = cx.unyt, cx.rec
    UA = unyt.unyt_array
    r = core.rng(payload["seed"], bid)
    thorough = payload.get("thorough", False)
    control_returns = set()
    control_fails = set()
    nb = 0
    for fam in payload["fams"]:
        for template, kinds in payload["plan"]:
            for kind in ["spelled-differently"] + list(kinds):
                try:
                    pool = SP.plain_pool(unyt, fam, template) if kind == "spelled-differently" else SP.build(unyt, fam, kind, template, r)
                except Exception as e:
                    rec.count("sameprint.setup_failed")
                    rec.note(f"sameprint-setup-failed:{kind}:{template}:{type(e).__name__}")
                    continue
                if pool is None:
                    rec.count("sameprint.not_applicable")
                    continue
                # harness self-check (inputs, not verdicts): the Unit objects built have the sizes the model says, the pool prints alike
                bad = [h.label for h in pool.same + pool.plain
                       if not (abs(float(h.unit.base_value) / h.scale - 1) <= 1e-9 + h.tol)]
                if kind not in ("spelled-differently",) and len({str(h.unit) for h in pool.same}) != 1:
                    bad.append("prints-differ")
                if bad:
                    rec.count("sameprint.setup_mismatch")
                    rec.note(f"sameprint-setup-mismatch:{kind}:{template}:{fam}:{','.join(sorted(set(bad)))[:80]}")
                    continue
                rec.count("sameprint.pools")
                rec.reach(f"sameprint-pool:{kind}:{template}")
                for sname, seqh in SP.sequences(pool):
                    for tname, ht in SP.targets(pool, seqh):
                        nb += 1
                        if thorough or (kind == "spelled-differently" and sname == "ab"):
                            builders = [b for b in SP.BUILDERS]         # the control meets every builder at least once per template
                        else:
                            builders = [SP.BUILDERS[(nb + k * 3) % len(SP.BUILDERS)] for k in range(2)]
                        for bname, es, dclass in builders:
                            vals = [round(r.uniform(1, 90), 3) for _ in seqh]
                            nums = [SP.element_numbers(bname, v) for v in vals]
                            seq_si = np.array([nm * h.scale for nm, h in zip(nums, seqh)], dtype="f8")
                            raw = np.array(nums, dtype="f8")
                            fac = np.array([0.6 + 0.37 * ((i * 5 + nb) % 7) for i in range(seq_si.size)]).reshape(seq_si.shape)
                            z_si = seq_si * fac
                            nested_si = np.stack([seq_si, seq_si[::-1]]) if es == () else None
                            z2_si = nested_si * np.stack([fac, fac[::-1] * 1.21]) if es == () else None
                            if dclass == "f4":
                                # numbers that leave the normal range of float32 in some unit involved: IEEE overflow, not coercion (C17's subject)
                                cand = np.abs(np.concatenate([(seq_si / h.scale).ravel() for h in list(seqh) + [ht]] + [(z_si / h.scale).ravel() for h in list(seqh) + [ht]]))
                                if cand.max() > 1e30 or cand.min() < 1e-30:
                                    rec.count("sameprint.discarded_outside_float32_range")
                                    continue
                            env = SPEnv(unyt, seqh, ht, bname, vals, z_si / ht.scale, None if z2_si is None else z2_si / ht.scale)
                            tol_h = sum(h.tol for h in seqh) + ht.tol
                            rel = (4e-7 if dclass == "f4" else 1e-12) + 4 * tol_h
                            for dname, dfam, urule, vrule, fn in SP.DOORS:
                                if "nested" in dfam and es != ():
                                    continue
                                if dfam.startswith("ctor") and tname != "first-unit":
                                    continue                    # no second operand: run once per sequence
                                after_refusal = (nb + len(dname)) % 4 == 0
                                if after_refusal:
                                    try:
                                        UA([env.seq()[0], unyt.unyt_quantity(1.0, "A*K**2")])
                                    except Exception:
                                        rec.count("sameprint.after_refusal")
                                key0 = f"C16:coerce-door/{dname}"

                                def viol(fk, desc):
                                    # a failure the differently spelled control shows as well does not depend on how the elements' units are defined
                                    if kind == "spelled-differently":
                                        control_fails.add((dname, fk))
                                    sfx = "any-units" if (dname, fk) in control_fails else kind
                                    rec.violation(f"{key0}:{fk}:{sfx}", desc, case)
                                case = {"door": dname, "class": kind, "template": template, "sequence": sname, "target": tname, "builder": bname,
                                        "units": [f"{h.expr} [{h.label}: {h.scale:g} SI]" for h in seqh], "values": vals,
                                        "target_unit": f"{ht.expr} [{ht.label}: {ht.scale:g} SI]"}
                                try:
                                    res = fn(env)
                                except Exception as e:
                                    if kind == "spelled-differently":
                                        rec.note(f"sameprint-control-refuses:{dname}:{bname}:{type(e).__name__}")
                                        rec.count("sameprint.control_refused")
                                    elif (dname, bname) in control_returns:
                                        viol(f"raises-{type(e).__name__}", f"{dname} with elements in {case['units']} ({bname}, target {case['target_unit']}) raised "
                                                      f"{type(e).__name__}: {e}"[:500] + "; the same door returns for differently spelled units")
                                    else:
                                        rec.note(f"sameprint-vacuous-refusal:{dname}:{bname}")
                                    continue
                                if kind == "spelled-differently":
                                    control_returns.add((dname, bname))
                                exp_si = sp_expected(vrule, seq_si, nested_si, z_si, z2_si)
                                mag = np.abs(seq_si if "nested" not in vrule else nested_si)
                                if len(vrule) > 1 and vrule[0] not in ("seq", "nested"):
                                    mag = mag + np.abs(z_si if "nested" not in vrule else z2_si)
                                elif "reversed" in vrule:
                                    mag = mag[::-1]
                                rec.count("sameprint.judged")
                                rec.count("sameprint.class." + kind)
                                rec.count("sameprint.doorfam." + dfam)
                                rec.count("sameprint.target." + tname)
                                rec.reach(f"sameprint:{dname}")
                                prints_alike = len({str(h.unit) for h in seqh}) == 1
                                needs = bool(np.any(np.abs(seq_si / seqh[0].scale - raw) > 1e-6 * np.abs(raw)))
                                if prints_alike and needs:
                                    rec.count("sameprint.alike_and_conversion_needed")
                                if prints_alike and not needs:
                                    rec.count("sameprint.alike_and_same_size")
                                cell = ("coerce-sameprint", dname, kind, template, sname, tname, bname)
                                if urule == "bool":
                                    if isinstance(res, UA) or not isinstance(res, np.ndarray) or res.dtype.kind != "b":
                                        viol("comparison-result-not-bool-array", f"{dname} returned {type(res).__name__} {getattr(res, 'dtype', None)}")
                                    elif res.shape != exp_si.shape or not np.array_equal(res, exp_si):
                                        viol("comparison-wrong", f"{dname}: elements {list(zip(vals, case['units']))} against {case['target_unit']} numbers "
                                                      f"{(z_si / ht.scale).tolist()} gave {res.tolist()}, by size it is {exp_si.tolist()}")
                                    else:
                                        rec.ok(cell)
                                    continue
                                hexp = seqh[0] if urule == "first" else ht
                                if not isinstance(res, UA):
                                    viol("lost-units", f"{dname} on elements in {case['units']} returned bare {type(res).__name__}")
                                    continue
                                f = P.class_failure(res)
                                if f:
                                    viol(f, f"{dname} returned {type(res).__name__} of shape {res.shape}")
                                    continue
                                if str(res.units) != str(hexp.unit):
                                    viol(f"unit-not-{'first-element' if urule == 'first' else 'target'}",
                                         f"{dname} on elements in {case['units']} (target {case['target_unit']}) is labelled {res.units}, expected {hexp.unit}")
                                    continue
                                got = np.asarray(res.view(np.ndarray), dtype="f8")
                                exp = exp_si / hexp.scale
                                if got.shape != exp.shape:
                                    viol("shape", f"{dname}: result shape {got.shape}, expected {exp.shape}")
                                    continue
                                if not np.all(np.abs(got - exp) <= rel * (mag / hexp.scale) + 1e-300):
                                    raw_ref = None
                                    if vrule[0] in ("seq", "nested"):
                                        raw_ref = raw if vrule[0] == "seq" else np.stack([raw, raw[::-1]])
                                        raw_ref = raw_ref[::-1] if "reversed" in vrule else raw_ref
                                    unconverted = raw_ref is not None and raw_ref.shape == got.shape and np.allclose(got, raw_ref, rtol=1e-6)
                                    viol('values-not-converted' if unconverted else 'values-wrong',
                                         f"{dname}: elements {list(zip(vals, case['units']))}, other operand/target {case['target_unit']}: got {got.tolist()} {res.units}, "
                                                  f"by the sizes of the elements' own units it is {exp.tolist()}")
                                    continue
                                bv = float(res.units.base_value)
                                if not abs(bv / hexp.scale - 1) <= 1e-9 + hexp.tol:
                                    viol("result-unit-of-other-size", f"{dname}: numbers are right for {hexp.expr} [{hexp.label}] of size {hexp.scale:g} SI but the Unit object "
                                                  f"attached to the result has size {bv:g} SI (same print, other definition)")
                                    continue
                                rec.ok(cell)
    rec.sample({"sameprint": {"fams": payload["fams"], "plan": payload["plan"], "doors": len(SP.DOORS)}})


# ------------------------------------------------------------------------------------------------ random shapes, indices and operation chains
def drive_random(cx, payload, bid):
    unyt, rec = cx.unyt, cx.rec
    UA = unyt.unyt_array
    r = core.rng(payload["seed"], bid)
    ops = G.all_ops()
    chainable = [o for o in ops if o[1] in ("method", "npfunc", "operator", "conv") or "(x)" in o[0]]
    for it in range(payload["n"]):
        shape = G.random_shape(r)
        kind = r.choice(kinds_for(shape))
        dt = r.choice(["f8", "f8", "f4", "i8", "c16"])
        fam = r.choice(sorted(FAM))
        u, u2 = FAM[fam]
        layout = r.choice(G.layouts(shape))
        try:
            p = make_operand(unyt, shape, kind, dt, u, name=r.choice([None, "nm"]), layout=layout)
        except Exception:
            continue
        # random index expressions (and indexing the results again)
        cur = p
        for _ in range(6):
            item = G.random_index(r, cur.shape)
            res = do_index(cx, cur, item, "random")
            if isinstance(res, UA) and r.random() < 0.5:
                cur = res
        if p.ndim:
            drive_iteration(cx, p, layout)
        # random chain of operations: every intermediate result is an operand of the next step
        x = make_operand(unyt, shape, kind, dt, u)
        k = kind
        for step in range(4):
            name, route, fn = r.choice(chainable)
            try:
                env = make_env(unyt, x, k, P.ustr(x.units) or "dimensionless", u2 if P.ustr(x.units) == u else P.ustr(x.units) or "dimensionless")
            except Exception:
                break
            res, judged = run_op(cx, name, route, fn, env)
            if judged:
                rec.reach("op:" + name)
                rec.count("random.chain_steps")
            nxt = next(P.walk(res), None) if res is not None else None
            if nxt is None or nxt.size > 64 or nxt.ndim > 3:
                break
            x = nxt
            k = "q" if isinstance(x, unyt.unyt_quantity) and x.shape == () else "a"
    rec.sample({"random": {"iterations": payload["n"]}})


# ------------------------------------------------------------------------------------------------ extra source: the shared NumPy call-template catalogue
def drive_npcat(cx, payload, bid):
    """thorough tier only: vf/gen/npcatalog.py (built for C06) as one more workload; every returned unyt object is judged by
    class/shape, the passive observer sees every boundary.  Absence of the module is not an error (it is an extra)."""
    unyt, rec, obs = cx.unyt, cx.rec, cx.obs
    try:
        from vf.gen import npcatalog as nc
        cat = nc.catalog()
    except Exception as e:
        rec.note(f"npcatalog-unavailable:{type(e).__name__}")
        return
    mine = [t for i, t in enumerate(cat) if i % payload["of"] == payload["k"]]
    UA = unyt.unyt_array
    for t in mine:
        if "opaque" in t.tags or "unsupported" in t.tags:
            continue
        for shape in nc.SHAPES:
            for dt, flavor in (("f8", "frac"), ("i8", "int"), ("c16", "frac"), ("f4", "int"), ("f8", "gen")):
                for zero_d in ("quantity", "array"):
                    if zero_d == "array" and shape != "0d":
                        continue
                    g = nc.Gen(core.rng(payload["seed"], t.tid, shape, dt, flavor), dt, shape, flavor)
                    try:
                        call = t.build(g)
                        args, kwargs, leaves = call.realize(nc.unit_wrapper(unyt, {"A": "m", "B": "s", "1": ""}, zero_d=zero_d))
                    except nc.Skip:
                        continue
                    except Exception:
                        rec.count("npcat.build_failed")
                        continue
                    operands = [o for _, _, o in leaves if isinstance(o, UA)]
                    nv = obs.nviol
                    try:
                        r = t.invoke(args, kwargs)
                    except Exception:
                        rec.count("npcat.raised")
                        continue
                    rec.count("npcat.returned")
                    if obs.nviol != nv:
                        continue
                    group = None
                    route, kname = "npcat", t.func_name
                    if t.kind in ("method", "attr", "op"):
                        attr = t.func_name.split(".", 1)[1]
                        if operands and P.inherited_attr(operands[0], attr):
                            group = "inherited-ndarray-method"
                        elif t.kind == "op":
                            route, kname = "operator", attr
                        else:
                            route, kname = "method", "x." + attr
                    elif t.kind == "function":
                        group = "numpy-nodispatch-function"
                    obs.judge_class(route, kname, r, operands, "npcat", group=group)
    rec.sample({"npcat": {"templates": len(mine), "of": len(cat)}})


# ------------------------------------------------------------------------------------------------ the repository's own tests as workload
def drive_suite(cx, payload):
    rec = cx.rec
    fd, out = tempfile.mkstemp(prefix="c16-suite-", suffix=".json")
    os.close(fd)
    os.unlink(out)
    env = dict(os.environ, PYTHONPATH=core.VERIF + ":" + os.path.join(core.VERIF, ".deps"), VF_OBSERVERS="vf.monitors.c16_passive:Passive",
               VF_PLUGIN_OUT=out, PYTHONDONTWRITEBYTECODE="1", PYTHONHASHSEED="0")
    pr = subprocess.run([sys.executable, "-m", "pytest", "-p", "vf.pytest_plugin", "-p", "no:cacheprovider", "-q"],
                        cwd=core.REPO, env=env, capture_output=True, text=True, timeout=1400)
    if not os.path.exists(out):
        raise RuntimeError("suite: no dump written; pytest said: " + (pr.stdout[-400:] + pr.stderr[-400:]))
    try:
        with open(out) as f:
            d = json.load(f)
    finally:
        os.unlink(out)
    bad = {k: v for k, v in d["outcomes"].items() if v != "passed"}
    ob = d["observers"].get("vf.monitors.c16_passive:Passive")
    if ob is None or "error" in ob:
        raise RuntimeError(f"suite: observer dump missing: {ob}")
    rec.count("suite.tests_passed", sum(1 for v in d["outcomes"].values() if v == "passed"))
    rec.count("suite.tests_not_passed", len(bad))
    for k, v in d.get("tap_calls", {}).items():
        rec.count("suite.tap." + k, v)
    rec.evals += ob["evals"]
    rec.cells.update(ob["cells"])
    for k, v in ob["viol"].items():
        if k in rec.viol:
            rec.viol[k][0] += v[0]
        else:
            rec.viol[k] = [v[0], v[1], core.jsonable(v[2])]
    for k, v in ob["counters"].items():
        rec.count("suite.passive." + k, v)
    rec.sample({"suite": {"tests": len(d["outcomes"]), "not_passed": sorted(bad)[:5], "passive_evals": ob["evals"]}})
    if bad or len(d["outcomes"]) < 600:
        # the taps must not change the behaviour of the suite; the observations above are still reported, the batch is not 'held'
        raise RuntimeError(f"suite: {len(bad)} tests not passed under the taps / {len(d['outcomes'])} run: {sorted(bad)[:3]}")


# ------------------------------------------------------------------------------------------------ worker / extra
def worker(batch, rec):
    import warnings
    warnings.simplefilter("ignore")
    bid, (kind, payload) = batch
    np.seterr(all="ignore")
    cx = Ctx(rec)
    try:
        if kind == "index":
            drive_index(cx, payload)
        elif kind == "views":
            drive_views(cx, payload)
        elif kind == "ops":
            drive_ops(cx, payload)
        elif kind == "ctor":
            drive_ctor(cx, payload)
        elif kind == "coerce":
            drive_coerce(cx, payload)
        elif kind == "random":
            drive_random(cx, payload, bid)
        elif kind == "suite":
            drive_suite(cx, payload)
        elif kind == "npcat":
            drive_npcat(cx, payload, bid)
        elif kind == "callforms":
            drive_callforms(cx, payload, bid)
        elif kind == "sameprint":
            drive_sameprint(cx, payload, bid)
    finally:
        cx.close()


SAMEPRINT_COUNTERS = (("sameprint.judged", "sameprint.alike_and_conversion_needed", "sameprint.alike_and_same_size", "sameprint.after_refusal")
                      + tuple("sameprint.class." + k for k in SP.KINDS + ("spelled-differently",))
                      + tuple("sameprint.doorfam." + f for f in SP.DOOR_FAMILIES)
                      + tuple("sameprint.target." + t for t in ("first-unit", "same-print-sibling", "spelled-differently")))
DECIDING = ("passive.getitem.judged_objects", "passive.ufunc.judged_objects", "passive.function.judged_objects", "passive.conv.judged_objects",
            "passive.unitop.judged_objects", "passive.active.judged_objects", "passive.iter.judged_objects", "iteration.protocols", "index.driven",
            "views.judged", "accessor_views.judged", "copies.judged", "conversions.judged", "ctor_views.judged", "unit_mul_copies.judged",
            "quantity_ctor.judged", "coerce.judged", "random.chain_steps", "passive.getitem.memory_probes", "passive.conv.memory_probes",
            "passive.unitop.memory_probes", "passive.function.view_probes",
            "callform.ctor_judged", "callform.ctor_unyt_input_dtype_kw", "callform.ctor_unyt_input_kw_pairs", "callform.ctor_subclass", "callform.converter_subclass",
            "callform.view_judged", "callform.copy_judged") + CALLFORM_KW_COUNTERS + SAMEPRINT_COUNTERS


def extra(tier, seed, results):
    counters = {}
    reached = set()
    cells = set()
    for bid, r in results:
        for k, v in r.get("counters", {}).items():
            counters[k] = counters.get(k, 0) + v
        reached.update(r.get("reached", []))
        cells.update(r.get("cells", []))
    need = list(DECIDING) + (["suite.passive.events.ufunc", "suite.tests_passed"] if tier == "thorough" else [])
    zero = [k for k in need if not counters.get(k)]
    if zero:
        known = core.load_findings()
        new_viol = any(k not in known for _, r in results for k in r.get("viol", {}))
        if not new_viol:        # a run that found something new is 'violated', never downgraded to inconclusive
            raise core.Inconclusive("deciding-sub-monitor-saw-nothing:" + ",".join(zero))
    names = set("op:" + n for n in G.op_names())
    unreached = sorted(n[3:] for n in names - reached)
    forms = sorted(n for n in reached if n.startswith("index:"))
    sub = {k: counters.get(k, 0) for k in need}
    return {"sub_monitor_counters": sub, "sub_monitors_silent": zero, "unreached": unreached[:400], "unreached_count": len(unreached), "catalogue_size": len(names),
            "sameprint": {k: v for k, v in counters.items() if k.startswith("sameprint.")},
            "sameprint_doors_unreached": sorted(d[0] for d in SP.DOORS if "sameprint:" + d[0] not in reached),
            "index_forms_reached": forms, "tap_calls": {k[4:]: v for k, v in counters.items() if k.startswith("tap.")},
            "passive_events": {k: v for k, v in counters.items() if k.startswith("passive.events") or k.startswith("suite.")}}
