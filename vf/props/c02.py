"""C02 - every unit's scale and dimension agree with its definition (oracle: ref/defs.py + ref/uexpr.py)."""
import itertools, math
import numpy as np
from vf import core
from vf.ref import defs, dims, names, uexpr
from vf.monitors import c02_handles, c02_usys, c02_data, c02_doors
from .common import all_names, chunks, udim, TAINTED

RULE = ("names: every exposed unit name (exhaustive); a case is distinct per name. pairs: ordered pairs of names sharing a "
        "dimension, x.to(u2) vs x*scale(u1)/scale(u2) from the independent table; compounds: random expressions of 1-5 "
        "factors (rational exponents, coefficients, sqrt, parentheses) in the default registry and in a registry with added "
        "symbols, evaluated by an independent recursive-descent evaluator. distinct = distinct name / ordered symbol pair / "
        "expression string whose reference scale differs from 1 or whose dimension is not trivial. handles: histories on a "
        "user registry (added symbols + one built-in) reached through several registry objects - the registry, the registry of "
        "Unit.copy()/copy.copy/q.in_mks()/in_cgs()/in_base() of base-unit data (share its table), conversion results (same object), "
        "deep copies, pickles and JSON round trips of unit/registry/array (independent tables): strings (atomic, prefixed, compound) "
        "are resolved through one handle, a symbol is edited (modify by float/quantity, remove, re-add, add) through the same or "
        "another handle, then one evaluation = Unit(s, registry=h) [scale, dimension, or refusal] or x.to(s2)/x.in_mks() through one "
        "handle h against the sequential model of the table h holds NOW (one model per lut dict, identified by object identity); "
        "distinct = (handle provenance, relation of h to the handle that made the last edit touching the string's symbols "
        "[editor / shares its table, older or newer / snapshot taken after it / independent of it], edit kind, string class, "
        "resolved-before-the-edit or not, defined/undefined). Enumerated: every provenance x edit kind x edit direction x spawn "
        "time x warming handle (450 histories, seed-independent); random: longer histories over up to 7 live handles. "
        "usys: histories on UnitRegistry(unit_system=S), S = mks (control), cgs, imperial, galactic, solar, planck, geometrized and two custom "
        "UnitSystems, given by name or as the object: each step puts one new symbol in by one of 9 ways (define_unit with a (number, 'expr') "
        "tuple / a quantity bound to R / number*Unit(expr, registry=R) / a quantity of the default registry, R.add, R.add+modify(float), "
        "R.add+modify(quantity of R / of the default registry), define_unit+modify(quantity)); 'expr' is a random compound over exactly "
        "defined built-ins, the system's base units and the symbols defined earlier in the history. One evaluation = the new symbol's "
        "Unit(sym, registry=R) scale+dimension, one SI-prefixed form (prefix x scale, or refusal when not prefixable), one compound parsed "
        "from a string, one compound built with Unit operators, or one conversion (to the SI base string and back, to the defining "
        "expression and back, to another user symbol, in_mks(), in_cgs(), in_base() in R's own system) against number x reference scale of "
        "the expression (ref/regmodel.py sequential model); every symbol is judged right after its definition and again after all later "
        "ones; distinct = (system, way, evaluation kind, sysarg form, phase). Every system x way is enumerated whatever the seed. "
        "data: the NUMBERS that come out of a conversion (monitors/c02_data.py): one evaluation = one call of one conversion door (to / in_units "
        "with a string or a Unit, to_value, convert_to_units, in_base() / ('mks') / ('cgs') / ('imperial'), in_mks, in_cgs, convert_to_base() / ('cgs'), "
        "convert_to_mks, convert_to_cgs) on a vector of one dtype (bool, int8..uint64, float16/32/64, longdouble, complex64/128, clongdouble) "
        "whose magnitudes reach the limits of the dtype (iinfo.max/min, 2**k+-1 beyond the mantissa of the result, full-mantissa floats over the "
        "exponent range, +-inf, nan), in one layout (1-d, strided 2-d view, unyt_quantity, byte-swapped, read-only), for an ordered pair of "
        "commensurable unit expressions classified by its exact ratio (unity / whole-s / whole-m / whole-l / recip / recip-l / fraction / huge / "
        "inexact); every element must equal Fraction(x_i) * exact ratio within (class tolerance of the constituents + 4 eps of the float "
        "format the result is held in); distinct = (door, layout, dtype, ratio class). "
        "doors: the namespace door for custom registries, unit_systems.add_symbols(ns, R) (monitors/c02_doors.py): R = plain / cgs-reporting / "
        "deep copy, with 1-3 prefixable built-in symbols REDEFINED (modify float / modify quantity / remove+re-add other scale / remove+re-add "
        "other dimension), one prefixable user symbol added, prefixed spellings memoised before / after the edits or not at all; one evaluation "
        "= one name of the filled namespace (all ~3900) against the sequential definition model's prefix x scale-in-R, dimension and offset, "
        "plus conversions prefixed -> base between namespace units and to Unit(s, registry=R); distinct = (make, edit kind, warm, how the name "
        "resolves [entry/spelling/prefix], edited/user/untouched symbol). Every make x edit kind x warm is enumerated whatever the seed")
ASSUMPTIONS = ("vf/ref/defs.py (own transcription of SI/NIST/CODATA/IAU definitions with a tolerance class per entry) is the trusted base",
               "names listed in unyt's default_unit_name_alternatives are the documented spellings",
               "handles: 'the definitions' of a user registry are what the history of add/modify/remove calls made them (sequential model "
               "ref/regmodel.py per table); which handles share a table is OBSERVED (same lut dict object), never demanded: a copy that "
               "turned out independent is judged against a snapshot of its source at the time it was made",
               "handles: a table restored from an array pickle or from JSON gets the default symbols that were removed back "
               "(UnitRegistry.from_json / array __setstate__ semantics; whether that is right is C11's subject)",
               "handles: a string the current table gives no meaning to (removed symbol, prefix on a non-prefixable symbol) must be refused: "
               "an accepted string with a scale that no definition implies is counted as a violation of 'scale agrees with the definition'",
               "handles: compound strings name every editable symbol at most once (a symbol written twice can cancel out of the expression "
               "before it is looked up, and the string is then accepted although the symbol is undefined)",
               "handles: whether an edit call or the making of a handle is accepted is not judged here (C12/C11/C13): the history is abandoned "
               "and noted; x.in_mks() is judged only when the model can evaluate the unit string it returns, with the same dimension",
               "usys: the unit system a registry was created with only selects the units results are REPORTED in; a definition "
               "'number x expr' given to define_unit/modify means number x (scale to SI of expr) in every registry (UnitRegistry.add documents "
               "base_value as the scaling to the equivalent SI unit), and the base_value given to add/modify(float) is that SI scale",
               "usys: in_base()/in_cgs()/in_mks() are judged only as conversions (values vs the ratio of the reference scales of the source and "
               "of the unit string that came back, when the model can read it with the same dimension); which units a system reports in, and "
               "a refusal (UnitsNotReducible) to express a current-carrying dimension in a system without a current base unit, are C10's subject",
               "usys: results whose unit string names a symbol with a listed table finding (Mearth in the solar system, ...) are not judged; "
               "reference scales or base-unit products outside 1e-150..1e150 (1e-290..1e290 for a library ZeroDivision/Overflow) are skipped and counted",
               "usys: once a symbol's own scale/dimension is reported, it and the symbols defined from it are named in no later judged string "
               "(consequences are not re-reported under other ways' keys)",
               "usys: defining expressions and judged compounds are kept to |dimension exponent| <= 4 (8 for judged compounds) and never contain "
               "logarithmic units (they cannot be multiplied by design) or offset units",
               "data: which dtype a converted result has is C17's subject: the value bound follows the float format the result is actually held "
               "in; a Python float/complex (to_value of a unyt_quantity) is taken to have been computed in the float of the data's item size "
               "(at least 2, at most 8 bytes), the rule C17 states",
               "data: elements whose exact expected value lies outside [1e3*tiny, max/4] of the result's float format are discarded and counted "
               "(IEEE overflow/underflow, DESIGN 4.13); so are expected values outside 1e-270..1e290 (the double-double reference cannot hold them)",
               "data: an in-place conversion of 1-byte integers (documented ValueError: there is no 1-byte float) or of booleans (NumPy casting "
               "TypeError) is a loud refusal, not a wrong value: noted; unyt_quantity refuses booleans, 0-d arrays are used instead",
               "data: for in_base/in_mks/in_cgs/convert_to_base... the target is the unit that came back, read by ref/uexpr.py; that it is the "
               "right base unit is C10's subject; an unreadable or differently-dimensioned unit string is counted, not judged",
               "data: a ratio that the float format the library multiplies in cannot hold as a normal number (float16/32/complex64 data, 2- and "
               "4-byte integers converted in place) and uint16 data above float16's largest finite value are input-side stress regions: still "
               "judged (the expected value is representable), but keyed per door group, not per door/dtype (3 listed findings)")
TIMEOUT = 900
MIN_EVALS = 3000


def batches(tier, seed):
    nm = all_names()
    b = [("names/%d" % i, ("names", c)) for i, c in enumerate(chunks(nm, 8))]
    syms = list(defs.T)
    b += [("pairs/%d" % i, ("pairs", c)) for i, c in enumerate(chunks(syms, 8))]
    if tier == "quick":
        b += [("pairs-all/%d" % i, ("pairs_all", (i, 256))) for i in range(0, 256, 16)]
        ncomp, nb = 96000, 16
    else:
        b += [("pairs-all/%d" % i, ("pairs_all", (i, 32))) for i in range(32)]
        ncomp, nb = 960000, 64
    for i in range(nb):
        b.append(("compound/%d" % i, ("compound", (seed, i, ncomp // nb))))
    # registry handles (enumerated part ignores the seed)
    ne = 16 if tier == "quick" else 32
    b += [("handles-enum/%d" % i, ("handles_enum", (i, ne, tier != "quick"))) for i in range(ne)]
    nr, nh, ln = (16, 12, 14) if tier == "quick" else (64, 40, 36)
    b += [("handles-rand/%d" % i, ("handles_rand", (seed, i, nh, ln, tier != "quick"))) for i in range(nr)]
    # registries reporting in a non-MKS unit system: every system x sysarg x way is enumerated (expressions and numbers are random)
    nu, nrep, xs = (16, 8, 0) if tier == "quick" else (48, 48, 6)
    b += [("usys/%d" % i, ("usys", (seed, i, nu, nrep, xs))) for i in range(nu)]
    # the DATA of conversions: dtype x magnitude x ratio class x door x layout (enumerated pairs ignore the seed; magnitudes are seeded)
    nd = 16 if tier == "quick" else 64
    b += [("data/%d" % i, ("data", (tier, seed, i, nd))) for i in range(nd)]
    # the namespace-filling door add_symbols(ns, registry) on registries with redefined prefixable symbols (every make x edit x warm)
    ndo, dreps = (4, 1) if tier == "quick" else (16, 24)
    b += [("doors/%d" % i, ("doors", (seed, i, ndo, dreps))) for i in range(ndo)]
    return b


def _ref_affine(name):
    r = names.resolve(name)
    f, s, _ = r
    de = defs.T[s]
    return de, f, s


def _to_base(de, f, s, v):
    if de.offset == 0.0:
        return v * de.value * f
    if s in ("degC", "degF"):
        return de.value * f * v - de.value * de.offset
    return de.value * f * (v - de.offset)


def _from_base(de, f, s, b):
    if de.offset == 0.0:
        return b / (de.value * f)
    if s in ("degC", "degF"):
        return (b + de.value * de.offset) / (de.value * f)
    return b / (de.value * f) + de.offset


def check_name(unyt, n, rec):
    r = names.ref_unit(n)
    if r is None:
        rec.violation("C02:name-not-in-reference", f"exposed name {n!r} has no reading in the reference resolver", n)
        return
    sc, dv, de, f = r
    sym = names.resolve(n)[1]
    try:
        u = unyt.Unit(n)
    except Exception as e:
        rec.note("name-unusable(C14)")  # C14's subject
        return
    if udim(u) != dv:
        rec.violation(f"C02:dim:{sym}", f"Unit({n!r}) has dimension {dims.show(udim(u))}, definition says {dims.show(dv)}", n)
        return
    rel = abs(u.base_value - sc) / abs(sc)
    tol = de.tol + 4e-16
    if rel > tol:
        cu = unyt.Unit(sym)
        crel = abs(cu.base_value - de.value) / abs(de.value)
        if crel > tol:
            rec.violation(f"C02:scale:{sym}", f"Unit({sym!r}).base_value={cu.base_value!r} but definition gives {de.value!r} "
                          f"(rel {crel:.3g} > class '{de.cls}' {de.tol:g})", {"name": n, "symbol": sym})
        else:
            rec.violation(f"C02:name-scale:{n}", f"Unit({n!r}).base_value={u.base_value!r}; prefix x definition = {sc!r} (rel {rel:.3g})", n)
        return
    off = float(u.base_offset)
    if off != de.offset:
        rec.violation(f"C02:offset:{sym}", f"Unit({n!r}).base_offset={off} definition {de.offset}", n)
        return
    rec.ok("name:" + n)


VALUES = (1.5, -40.0, 1234.5678)


def check_pair(unyt, n1, n2, rec, keysyms=None):
    de1, f1, s1 = _ref_affine(n1)
    de2, f2, s2 = _ref_affine(n2)
    if s1 in TAINTED or s2 in TAINTED:
        rec.count("pairs_skipped_tainted")
        return
    x = unyt.unyt_array(np.array(VALUES), n1)
    try:
        y = x.to(n2)
    except Exception as e:
        rec.violation(f"C02:convert-raises:{s1}->{s2}", f"{n1}->{n2} raised {type(e).__name__}: {e}", [n1, n2])
        return
    tol = de1.tol + de2.tol + 1e-14
    exp = np.array([_from_base(de2, f2, s2, _to_base(de1, f1, s1, v)) for v in VALUES])
    # absolute slack for affine maps: rounding relative to the largest term
    mag = np.abs(exp) + (abs(de2.offset) if s2 not in ("degC", "degF") else abs(de2.offset) / abs(f2)) + \
        np.abs(np.array(VALUES)) * abs(de1.value * f1 / (de2.value * f2)) + (abs(de1.offset * de1.value / (de2.value * f2)))
    if not np.all(np.abs(y.d - exp) <= tol * mag):
        rec.violation(f"C02:convert:{s1}->{s2}", f"{VALUES} {n1} -> {n2}: got {y.d.tolist()} expected {exp.tolist()} (tol {tol:g})", [n1, n2])
        return
    rec.ok(f"pair:{n1}->{n2}")


EXPS = ["2", "3", "-1", "-2", "-3", "(1/2)", "(-1/2)", "(1/3)", "(3/2)", "(-3/2)", "0.5", "1.5", "2.0", "(2/3)", "-0.5"]


def gen_compound(r, pool):
    n = r.randint(1, 5)
    parts = []
    for i in range(n):
        name = r.choice(pool)
        t = name
        k = r.random()
        if k < 0.35:
            t = f"{name}**{r.choice(EXPS)}"
        elif k < 0.42:
            t = f"sqrt({name})"
        elif k < 0.5 and i + 1 < n:
            other = r.choice(pool)
            t = f"({name}{r.choice(['*', '/'])}{other})" + (f"**{r.choice(EXPS)}" if r.random() < 0.5 else "")
        parts.append(t)
    s = parts[0]
    for t in parts[1:]:
        s += r.choice(["*", "/", " * ", " / "]) + t
    if r.random() < 0.2:
        s = r.choice(["2*", "0.5*", "1000*", "3.0*", "1e-3*"]) + s
    return s


def worker(batch, rec):
    import unyt
    bid, (kind, payload) = batch
    if kind == "names":
        for n in payload:
            check_name(unyt, n, rec)
        rec.sample({"name": payload[0], "base_value": unyt.Unit(payload[0]).base_value})
    elif kind == "pairs":
        syms = list(defs.T)
        for s1 in payload:
            for s2 in syms:
                if s1 != s2 and defs.T[s1].dim == defs.T[s2].dim and defs.T[s1].dim != dims.D("LOG"):
                    check_pair(unyt, s1, s2, rec)
        rec.sample({"pair": [payload[0], "same-dimension partners"], "values": VALUES})
    elif kind == "pairs_all":
        i, n = payload
        nm = [x for x in all_names() if names.resolve(x) and "°" not in x]
        bydim = {}
        for x in nm:
            de, f, s = _ref_affine(x)
            bydim.setdefault(de.dim, []).append(x)
        r = core.rng(0, "pairs_all", i)
        todo = []
        for dv, lst in bydim.items():
            if dv == dims.D("LOG"):
                continue
            for a in lst[i::n]:
                for b in (lst if len(lst) <= 60 else r.sample(lst, 60)):
                    if a != b:
                        todo.append((a, b))
        for a, b in todo:
            check_pair(unyt, a, b, rec)
        rec.sample({"pairs_in_batch": len(todo), "first": todo[:2]})
    elif kind == "handles_enum":
        i, n, deep = payload
        combos = c02_handles.enum_combos()
        for j in range(i, len(combos), n):
            c02_handles.run_enum(unyt, j, combos[j], rec, deep)
            if deep:       # thorough: the same history with the rotated string set and the other symbol rotation
                c02_handles.run_enum(unyt, j + len(combos) + 1, combos[j], rec, deep)
    elif kind == "handles_rand":
        seed, i, nh, ln, deep = payload
        for j in range(nh):
            r = core.rng(seed, "handles-rand", i, j)
            h = c02_handles.run_random(unyt, r, ln, rec, ncompound=(10 if deep else 6), max_handles=(9 if deep else 7))
            if j < 1:
                rec.sample({"handles-history": "random", "steps": h.log[:8], "handles": [[o["kind"], o["table"]] for o in h.handles]})
    elif kind == "usys":
        seed, i, n, nrep, xs = payload
        specs = c02_usys.enum_histories(nrep)
        for j in range(i, len(specs), n):
            c02_usys.run_enum(unyt, core.rng(seed, "usys", j), specs[j], rec, extra_steps=xs)
    elif kind == "data":
        t, seed, i, n = payload
        c02_data.run_batch(unyt, rec, t, seed, i, n)
    elif kind == "doors":
        seed, i, n, reps = payload
        c02_doors.run_batch(unyt, rec, seed, i, n, reps)
    elif kind == "compound":
        seed, i, n = payload
        r = core.rng(seed, "compound", i)
        nm = []
        for x in all_names():
            rr = names.resolve(x)
            if rr and "°" not in x and x not in ("", "_", "%") and rr[1] not in TAINTED:
                de = defs.T[rr[1]]
                if de.offset == 0.0 and de.dim != dims.D("LOG"):
                    nm.append(x)
        reg = unyt.UnitRegistry()
        extra = {}
        for j, (sc, dspec, ud) in enumerate([(2.5, "L", unyt.dimensions.length), (1.0e-7, "M L2 T-2", unyt.dimensions.energy),
                                             (4096.0, "T", unyt.dimensions.time)]):
            sym = f"cu{j}"
            reg.add(sym, sc, ud, prefixable=(j == 0))
            extra[sym] = (sc, dims.D(dspec))
        extra["kcu0"] = (2500.0, dims.D("L"))
        res_default = names.resolver()
        res_custom = names.resolver(extra)
        for k in range(n):
            custom = (k % 3 == 2)
            pool = nm + (list(extra) * 40 if custom else [])
            s = gen_compound(r, pool)
            try:
                esc, edim = uexpr.evaluate(s, res_custom if custom else res_default)
            except (uexpr.ParseError, ZeroDivisionError, OverflowError) as e:
                rec.count("compound_ref_rejected")
                continue
            if not math.isfinite(esc) or esc == 0.0:
                rec.count("compound_overflow")
                continue
            try:
                u = unyt.Unit(s, registry=reg) if custom else unyt.Unit(s)
            except Exception as e:
                rec.violation("C02:compound:raises", f"Unit({s!r}) raised {type(e).__name__}: {e}", s)
                continue
            if udim(u) != edim:
                rec.violation("C02:compound:dim", f"Unit({s!r}) dimension {dims.show(udim(u))} expected {dims.show(edim)}", s)
                continue
            rel = abs(u.base_value - esc) / abs(esc)
            if rel > _ctol(s):
                rec.violation("C02:compound:scale", f"Unit({s!r}).base_value={u.base_value!r} expected {esc!r} rel={rel:.3g}", s)
                continue
            rec.ok("compound:" + s)
            if k < 2:
                rec.sample({"expr": s, "base_value": u.base_value, "ref": esc, "custom_registry": custom})


def _ctol(s):
    # sum over constituents of class tolerance x |exponent| is bounded by 5 factors x |3| x class; measured classes dominate.
    import re
    tol = 1e-12
    for tok in re.findall(r"[^\W\d][\w]*", s):
        rr = names.resolve(tok)
        if rr:
            tol += defs.T[rr[1]].tol * 3
    return tol


def extra(tier, seed, results):
    c = {}
    reached = set()
    for _, r in results:
        for k, v in r.get("counters", {}).items():
            c[k] = c.get(k, 0) + v
        reached.update(x for x in r.get("reached", []) if x.startswith(("handles|", "usys|", "data|", "doors|")))
    zero = [k for k in c02_handles.DECIDING + c02_usys.DECIDING + c02_data.DECIDING + c02_doors.DECIDING if not c.get(k)]
    known = core.load_findings()
    if zero and not any(k not in known for _, r in results for k in r.get("viol", {})):     # a new violation is reported, never masked
        raise core.Inconclusive("sub-monitors-saw-nothing:" + ",".join(zero))
    cat = c02_handles.catalogue()
    ucat = c02_usys.catalogue()
    if ucat - reached and not any(k not in known for _, r in results for k in r.get("viol", {})):
        raise core.Inconclusive("usys-cells-not-reached:" + ",".join(sorted(ucat - reached)[:6]))
    dcat = c02_data.catalogue()
    if dcat - reached and not any(k not in known for _, r in results for k in r.get("viol", {})):
        raise core.Inconclusive("data-cells-not-reached:" + ",".join(sorted(dcat - reached)[:6]))
    ocat = c02_doors.catalogue()
    if ocat - reached and not any(k not in known for _, r in results for k in r.get("viol", {})):
        raise core.Inconclusive("doors-cells-not-reached:" + ",".join(sorted(ocat - reached)[:6]))
    return {"sub_monitor_counters": {k: c[k] for k in sorted(c) if k.startswith(("handles_", "usys_", "data_", "doors_"))}, "handles_catalogue_size": len(cat),
            "usys_catalogue_size": len(ucat), "data_catalogue_size": len(dcat), "doors_catalogue_size": len(ocat),
            "unreached": sorted((cat | ucat | dcat | ocat) - reached)}
