"""C11 - persisted quantities, units and registries come back meaning and behaving the same.

Differential run: for every case an original object X (array / quantity / Unit / UnitRegistry) is built from plain data,
restored through one persistence route (R), and the same battery of follow-up operations is applied to X and to R in
separate forked grandchildren:  x only | r only (R loaded from bytes written by *another* process) | x then r |
r then x | mixed only.  All outcome vectors (value, unit, class or exception class) must agree with the x-only vector.
"""
import base64, copy, json, os, pickle, select, shutil, signal, tempfile, time, traceback
from fractions import Fraction as Fr
import numpy as np
from vf import core
from vf.ref import defs, dims
from vf.gen import c11_options
from .common import chunks

RULE = ("one evaluation = one follow-up operation (or one immediate numbers/units/lut comparison) of one case whose outcome "
        "(class, dtype, shape, numbers, unit string, unit scale/offset, dimension vector, or exception class) was compared between "
        "the original and the restored object across the vectors x-only, r-only (restored in a different process from persisted "
        "bytes), x-then-r, r-then-x and mixed-only; case = (object kind array/quantity/unit/registry, persistence route incl. pickle "
        "protocol 0-5, copy, deepcopy, .copy, Unit.copy(deep=), savetxt/loadtxt, str(units) rebuild, nested containers, registry "
        "to_json/from_json, deepcopy, pickle) x registry (default, custom with added/modified/prefixable/offset/angle/logarithmic "
        "symbols and a registered code unit system, cgs-based, without defaults, with removed symbols) x unit (whole symbol table, "
        "SI-prefixed, generated compounds, custom symbols) x dtype x shape. distinct = (kind, route, unit family, follow-up operation). "
        "Second workload (histories after duplicating): one evaluation = one question (conversion / fresh quantity / Unit by unit string, registry "
        "lookup, unit-system conversion) put, at the end of one history [use the original (unit strings resolved through its registry) before and/or "
        "after duplicating -> duplicate by one route incl. Unit.copy(), get_base_equivalent()/in_base()/in_mks()/in_cgs()/convert_to_base() of an object "
        "that already is in the base unit -> 1-4 registry edits (modify by float/quantity, re-add, re-add with the prefixable flag flipped, add new, "
        "remove) each made through the registry of the original, of the duplicate or of both, interleaved with more use], to original and duplicate "
        "(either order or interleaved) and compared (a) between the two whenever their tables hold the same contents and (b) with the answer of a "
        "brand-new registry holding a copy of that side's current table; plus one evaluation per side nobody edited: its table is what it was when the "
        "duplicate was made. distinct = (route, observed relation of the two registries, when it was used, edit kinds, edited through, monitor, question class). "
        "Third workload (keyword options of the persistence doors, vf/gen/c11_options.py): one evaluation = one immediate comparison (numbers, units, registry table of "
        "one column / object) or one follow-up operation of a reduced battery compared between the original and the object restored, in another process, through a "
        "door called with non-default but legitimate options, writer and reader given the same option: savetxt/loadtxt (comments=, delimiter=, header=, footer=, "
        "fmt= incl. per-column formats, usecols= as tuple/list/ndarray in any order, dtype=, str or path-like file name, single-column files written from a list or "
        "a bare array, single-row files, bare ndarray columns, float64/float32/int64/complex128 columns, nan/inf/-0.0), pickle (protocol 2-5 and -1, C and "
        "pure-Python pickler, fix_imports, out-of-band buffers, dumps / dump / Pickler, C / Fortran / strided data), registry JSON re-serialised by a JSON writer "
        "(indent, sort_keys, ensure_ascii, separators), to_string/from_string(unit_registry=), .copy(order=) / deepcopy(memo) / Unit.copy(deep=). "
        "distinct = (door, set of non-default options, monitor)")
ASSUMPTIONS = (
    "the oracle is differential between two executions (original vs restored); it never calls the persistence code to decide, and reads "
    "dimensions through vf/ref/dims.py by symbol name",
    "numbers must be bit-identical when the restored unit's scale/offset are bit-identical to the original's (always the case for units "
    "built from strings); otherwise a relative 1e-12 is allowed (units built by arithmetic may differ from their re-parsed string in the last "
    "ulp); the text route is compared with 1e-12 too because loadtxt returns strided column views and NumPy's dot/norm may then sum in another order",
    "a route that refuses to *write* (pickle protocol 0/1: SymPy raises NotImplementedError, copyreg raises TypeError for a bare Unit) is a loud "
    "refusal, recorded as a note, not judged; a route that wrote but cannot read back, or reads back something else, is judged",
    "shallow routes (copy.copy, .copy(), Unit.copy(deep=False), rebuild from str(units) in the same registry, copy.copy(registry)) share the "
    "registry by Python's copy semantics: registry-mutating follow-ups are applied only after deep routes (pickle, deepcopy, text, JSON)",
    "Unit(repr(u)), hash(unit), registry.unit_system_id, the .name attribute and registry class (default registry comes back as a plain "
    "UnitRegistry) are outside the statement: recorded as notes only; the class of a bare number (np.float64 vs float) is not an outcome, array dtype is",
    "registry.unit_system is part of 'the same registry' (it decides what in_base() means) and is compared by name",
    "savetxt/loadtxt returns float64 (or the dtype asked for) 1-D arrays: for integer input the numbers must be equal, follow-ups are judged "
    "for float64/complex128 columns only; a 0-d quantity cannot be written by the text route and is not driven there; complex columns are not "
    "written with a blank delimiter (NumPy itself cannot read those back)",
    "SI-prefixed entries materialise lazily in a registry's table when somebody looks one up: they are ignored when tables are compared and "
    "list_same_dimensions is compared on atomic symbols only",
    "keying: when the restored state itself differs visibly (numbers, units, table entries, unit system) that difference is the violation and the "
    "behavioural divergences of the same case are counted as its consequences, not keyed one by one; when the state looks the same but the "
    "restored dimension symbols are not the library's own objects / the scale changed between np.float64 and float, divergences are keyed by that "
    "cause (the cause alone is never a violation); everything else is keyed by operation class and failure kind. container routes, "
    "Unit.copy(deep=True) and registry deepcopy/pickle share the key of the code site they exercise (pickle / deepcopy), the cell keeps the exact route",
    "exception *class* is the refusal outcome; messages are not compared",
    "histories after duplicating: whether original and duplicate share a registry / one table / nothing is read off the objects (identity of "
    "registry and lut), never assumed from the route; two registries whose tables hold the same contents (one shared table always does) must answer "
    "alike, and each side must answer like a brand-new registry built from a copy of its current table with the object's unit keeping its own scale "
    "(an edit does not rescale objects built before it). A deep route (deepcopy, pickle, JSON, copy(deep=True)) whose duplicate shares the registry is a "
    "violation; a shallow route may share or not. With one shared table an edit 'through both' is applied twice only when it is idempotent (remove once)",
    "in_base()/in_mks()/in_cgs()/in_base('code')/convert_to_base()/get_base_equivalent() are duplication routes only when the object already is in the "
    "base unit (they return Unit.copy()); they are driven with float64 data (they hand back floating-point data) and are skipped (note) when the result is "
    "not an equal unit. A duplicate that is not the same right after duplicating is reported under the immediate oracle's keys and its history is not judged",
    "which system 'code' names is decided by registry.unit_system_id (a hash of the table that is outside the statement): in_base('code') is compared "
    "between original and duplicate but not against the brand-new registry",
    "HDF5 (write_hdf5/from_hdf5) needs h5py, dask arrays need dask: neither is installed, both routes are listed as unreached",
    "options of the persistence doors: an option is legitimate when the underlying NumPy/stdlib door can itself read back what it wrote with it (one-character "
    "comment markers that differ from the delimiter, single-character delimiters, no blank delimiter with blank-padded formats or complex columns); numbers must "
    "come back exactly because every value driven through a fmt= is one that Python's own % formatting prints exactly with that format; loadtxt(dtype=) decides "
    "the dtype that comes back; a bare ndarray column must come back dimensionless in the default registry; the file name may be a str or a path-like object",
    "a registry's JSON text re-serialised by a JSON writer (indent, key order, separators, ensure_ascii) is the same JSON document: from_json must restore the "
    "same registry from it",
    "to_string/from_string: a string outside the documented grammar of from_string (ValueError 'invalid quantity expression': fractional powers, leading 1/, "
    "non-ASCII symbols) is a loud refusal and is noted; a string that is accepted must give back the same number and an equal unit in the registry asked for "
    "(unit_registry=None means the default registry); the dtype class (float/int) is what the text says, follow-ups are judged for float64 quantities",
    "copy(order=) decides the memory layout of the copy, which is outside the statement (numbers, units, behaviour): a layout other than the one asked for is noted only",
    "mechanism keys of the options workload name the non-default options without which the failure disappears (each one is put back to its default in turn and "
    "the case re-run in-process); 'any-options' = the failure stays whatever single option is reset",
)
MIN_EVALS = 20000
TIMEOUT = 2400

# --------------------------------------------------------------------------------------------------------- plain data
VALS = [0.0, 1.0, -1.0, 2.5, 90.0, 30.0, -40.0, 98.6, 1e-12, 3.7e-6, 1234.5678, 6.02e11, -7.5e12, 300.0, 0.125, 45.0, 180.0, 0.5]
DTYPES = ["float64", "float64", "float32", "int64", "complex128"]
SHAPES = [[], [3], [2, 2], [4], [1]]
BASE_ATOMS = ["kg", "m", "s", "K", "rad", "A", "cd", "Np"]
ASCII_PREFIXES = ["k", "m", "u", "M", "G", "n", "c", "da", "h", "p", "T", "d", "f", "y", "Y"]

# custom symbols of the "custom" registries: symbol -> (dimension spec for vf/ref/dims, family)
CUSTOM = {
    "code_length": ("L", "custom-added"), "code_mass": ("M", "custom-added"), "code_time": ("T", "custom-added"),
    "code_temperature": ("K", "custom-added"), "code_velocity": ("L T-1", "custom-added"),
    "foo": ("L", "custom-prefixable"), "kfoo": ("L", "custom-prefixed"), "Mfoo": ("L", "custom-prefixed"), "ufoo": ("L", "custom-prefixed"),
    "degX": ("K", "custom-offset"), "turnish": ("A", "custom-angle"), "bel2": ("LOG", "custom-log"),
    "mile": ("L", "custom-modified"), "Msun": ("M", "custom-modified"), "pc": ("L", "custom-modified"), "kpc": ("L", "custom-modified"),
}
LOOKUP_SYMS = ["m", "km", "mile", "furlong", "smoot", "Msun", "pc", "kpc", "J", "degC", "dB", "code_length", "code_mass", "foo", "kfoo",
               "Mfoo", "degX", "mdegX", "turnish", "bel2", "c11_new", "nosuchunit"]

# atomic symbols known statically (SI-prefixed entries materialise lazily in a registry's table whenever somebody looks one up; listings are
# compared on the atomic symbols only)
STATIC_ATOMS = set(defs.T) | {"code_length", "code_mass", "code_time", "code_temperature", "code_velocity", "foo", "degX", "turnish", "bel2", "c11_new"}
DEEP_ROUTES = ("pickle", "deepcopy", "text", "json", "container-pickle", "container-deepcopy", "unit.copy-deep", "reg-deepcopy", "reg-pickle")


def dimvec_of_symbol(sym):
    if sym in CUSTOM:
        return dims.D(CUSTOM[sym][0])
    r = defs.split_symbol(sym)
    if r is None:
        return None
    return defs.T[r[1]].dim


def family_of_symbol(sym, regkind):
    if regkind != "default" and sym in CUSTOM and (CUSTOM[sym][1] != "custom-modified" or regkind == "custom-mod"):
        return CUSTOM[sym][1]
    r = defs.split_symbol(sym)
    if r is None:
        return "other"
    f, s = r
    de = defs.T[s]
    pre = "prefixed-" if f != 1.0 else ""
    if de.dim == dims.D("K"):
        if de.offset:
            return pre + "temp-offset"
        if s.startswith("delta_"):
            return pre + "temp-delta"
        return pre + "temp-abs"
    if de.dim == dims.D("A"):
        return pre + ("angle-offset" if de.offset else "angle")
    if de.dim == dims.D("LOG"):
        return pre + "log"
    if de.dim == dims.ZERO:
        return pre + "dimensionless"
    if any(x.denominator != 1 for x in de.dim):
        return pre + "gauss-em"
    if de.dim[5] != 0:
        return pre + "si-em"
    return pre + "plain"


def base_string(dv):
    parts = []
    for a, e in zip(BASE_ATOMS, dv):
        if e == 0:
            continue
        parts.append(a if e == 1 else (f"{a}**{e.numerator}" if e.denominator == 1 else f"{a}**({e.numerator}/{e.denominator})"))
    return "*".join(parts) if parts else "dimensionless"


def equivs_for(dv):
    s = dims.show(dv)
    table = {"K": [("eV", "thermal")], "L": [("Hz", "spectral")], "T-1": [("nm", "spectral")], "M": [("J", "mass_energy")],
             "M L2 T-2": [("K", "thermal"), ("g", "mass_energy"), ("Hz", "spectral")], "L T-1": [("dimensionless", "lorentz")],
             "M L-3": [("cm**-3", "number_density")]}
    return table.get(s, []) + [("J", "thermal")]


def spec_string(spec):
    out = []
    for a, e in spec:
        e = Fr(e)
        out.append(a if e == 1 else (f"{a}**{e.numerator}" if e.denominator == 1 and e > 0 else
                                     (f"{a}**({e.numerator})" if e.denominator == 1 else f"{a}**({e.numerator}/{e.denominator})")))
    return "*".join(out)      # the empty product is the empty string: unyt's dimensionless unit with expression 1 (NULL_UNIT)


def spec_dim(spec):
    v = dims.ZERO
    for a, e in spec:
        d = dimvec_of_symbol(a)
        if d is None:
            return None
        v = dims.mul(v, dims.power(d, Fr(e)))
    return v


# --------------------------------------------------------------------------------------------------------- case generation
def same_dim_pool():
    pool = {}
    for s, de in defs.T.items():
        pool.setdefault(de.dim, []).append(s)
    return pool


def mk_regp(r):
    """the numbers the custom registries are built from"""
    return {"L": r.choice([3.0857e19, 2.5, 7.0e8]), "M": r.choice([1.989e40, 3.0, 1e-5]), "T": r.choice([3.1557e13, 11.0, 1e-3]),
            "K": r.choice([1.0, 1e4, 2.5]), "foo": r.choice([0.3048, 12.5, 1e-7]), "degXs": r.choice([0.8, 1.25]),
            "degXo": r.choice([-100.0, -341.4375]), "ang": r.choice([0.015707963267948967, 6.283185307179586 / 360]),
            "log": r.choice([0.1151292546497023, 2.0]), "mile": r.choice([2000.0, 1500.5]), "msun": r.choice([2.0e30, 1.5e30]),
            "pc": r.choice([3.0e16, 3.1e16])}


def mk_case(r, kind, route, regkind, spec, pspec, fam, proto=None, built="str", dtype=None, shape=None, extra_targets=()):
    dv = spec_dim(spec)
    dtype = dtype or r.choice(DTYPES)
    shape = shape if shape is not None else r.choice(SHAPES)
    if route == "text":
        shape = [r.choice([2, 3, 5])]
        dtype = r.choice(["float64", "float64", "float64", "complex128", "int64"])
    text_opts = {"delimiter": r.choice(["\t", "\t", " ", ",", ";"]), "header": r.choice(["", "", "my data", "two\nlines"]),
                 "footer": r.choice(["", "", "the end"]), "cols": r.choice([1, 2, 2, 3])}
    if dtype == "complex128" and text_opts["delimiter"] == " ":
        text_opts["delimiter"] = "\t"      # NumPy itself cannot read back complex columns separated by blanks
    n = int(np.prod(shape)) if shape else 1
    vals = [r.choice(VALS) for _ in range(n)]
    pvals = [r.choice(VALS[1:]) for _ in range(n)]
    targets = [spec_string(pspec), base_string(dv)] + list(extra_targets)
    return {"kind": kind, "route": route, "proto": proto, "reg": regkind,
            "regp": mk_regp(r),
            "spec": spec, "pspec": pspec, "built": built, "dtype": dtype, "shape": shape, "vals": vals, "pvals": pvals,
            "targets": targets[:3], "equivs": equivs_for(dv)[:2], "fam": fam, "named": r.random() < 0.3,
            "text": text_opts}


ARRAY_ROUTES = [("pickle", p) for p in range(6)] + [("copy.copy", None), ("deepcopy", None), ("method-copy", None), ("text", None), ("str", None),
                                                    ("container-pickle", 2), ("container-pickle", 4), ("container-pickle", 0), ("container-deepcopy", None)]
UNIT_ROUTES = [("pickle", p) for p in range(6)] + [("copy.copy", None), ("deepcopy", None), ("unit.copy", None), ("unit.copy-deep", None), ("str", None),
                                                   ("container-pickle", 3), ("container-pickle", 5), ("container-deepcopy", None)]
REG_ROUTES = [("json", None), ("reg-deepcopy", None), ("reg-copy", None)] + [("reg-pickle", p) for p in (0, 2, 4, 5)]
LOW_PROTO = lambda rt: rt[1] is not None and rt[1] < 2      # SymPy refuses to write protocols 0 and 1: one fork each, kept rare
ARRAY_ROUTES_Q = [rt for rt in ARRAY_ROUTES if not LOW_PROTO(rt)]
UNIT_ROUTES_Q = [rt for rt in UNIT_ROUTES if not LOW_PROTO(rt)]
REG_ROUTES_Q = [rt for rt in REG_ROUTES if not LOW_PROTO(rt)]
ROUTE_CLASSES = sorted({("array", a) for a, _ in ARRAY_ROUTES} | {("unit", a) for a, _ in UNIT_ROUTES} | {("registry", a) for a, _ in REG_ROUTES})


def table_cases(tier, seed):
    """enumerated: every table symbol (and one SI-prefixed form of every prefixable one) through array and unit routes"""
    r = core.rng(0, "C11-table")     # enumerated part ignores the seed except for the values drawn
    pool = same_dim_pool()
    syms = list(defs.T)
    items = []
    for i, s in enumerate(syms):
        items.append(s)
        if defs.T[s].prefixable:
            items.append(ASCII_PREFIXES[i % len(ASCII_PREFIXES)] + s)
    cases = []
    for i, name in enumerate(items):
        f, s = defs.split_symbol(name)
        same = [t for t in pool[defs.T[s].dim] if t != s]
        partner = same[i % len(same)] if same else name
        fam = family_of_symbol(name, "default")
        special = fam not in ("plain", "prefixed-plain", "si-em", "prefixed-si-em", "gauss-em", "prefixed-gauss-em")
        if tier == "quick":
            ar = [ARRAY_ROUTES_Q[(i + seed) % len(ARRAY_ROUTES_Q)]]
            ur = [UNIT_ROUTES_Q[(i + 3 * seed) % len(UNIT_ROUTES_Q)]]
            if i % 60 == 0:
                ar.append(("pickle", (i // 60) % 2)); ur.append(("pickle", (i // 60 + 1) % 2))
            if special:      # the families the statement names (angles, temperatures, logarithmic, dimensionless) get pickle and deepcopy always
                ar = sorted({a for a in (ar + [("pickle", 2 + (i + seed) % 4), ("deepcopy", None)])}, key=str)
                ur = sorted({a for a in (ur + [("pickle", 2 + (i + seed + 1) % 4), ("unit.copy-deep", None)])}, key=str)
        elif special:
            ar, ur = ARRAY_ROUTES, UNIT_ROUTES
        else:            # ordinary families: every second route, alternating with the symbol index (every route is hit by half the symbols)
            ar = [rt for j, rt in enumerate(ARRAY_ROUTES) if (i + j + seed) % 2 == 0]
            ur = [rt for j, rt in enumerate(UNIT_ROUTES) if (i + j + seed) % 2 == 1]
        for (route, proto) in ar:
            cases.append(mk_case(r, "array", route, "default", [[name, "1"]], [[partner, "1"]], fam, proto=proto))
        for (route, proto) in ur:
            cases.append(mk_case(r, "unit", route, "default", [[name, "1"]], [[partner, "1"]], fam, proto=proto))
    # the unit with expression 1 (what '' , km/km, and every dimensionless result carry), written directly and as a cancelling ratio
    for j, (spec, built) in enumerate((([], "str"), ([["km", "1"], ["km", "-1"]], "arith"), ([["s", "2"], ["s", "-2"]], "str"))):
        ar = ARRAY_ROUTES_Q if tier != "quick" or j == 0 else ARRAY_ROUTES_Q[(j + seed) % 3::3]
        ur = UNIT_ROUTES_Q if tier != "quick" or j == 0 else UNIT_ROUTES_Q[(j + seed) % 3::3]
        for (route, proto) in ar:
            cases.append(mk_case(r, "array", route, "default", spec, [["dimensionless", "1"]], "expression-one", proto=proto, built=built))
        for (route, proto) in ur:
            cases.append(mk_case(r, "unit", route, "default", spec, [["%", "1"]], "expression-one", proto=proto, built=built))
    return cases


COMPOUND_POOLS = {"L": ["m", "km", "cm", "inch", "ft", "mile", "pc", "AU", "Å", "nmi", "um"], "T": ["s", "hr", "day", "yr", "ms", "min", "Myr"],
                  "M": ["kg", "g", "lb", "Msun", "oz", "amu", "t"], "E": ["J", "erg", "eV", "cal", "BTU", "kWh"],
                  "P": ["Pa", "bar", "atm", "psi"], "F": ["N", "dyn", "lbf", "kip"], "V": ["L", "gal_US", "mL"], "K": ["K", "R", "delta_degC", "mK"],
                  "A": ["rad", "degree", "arcsec", "rev"], "I": ["A", "mA"], "Q": ["C", "mC"], "B": ["T", "uT"], "G": ["G", "statC", "statV"]}
CUSTOM_POOLS = {"L": ["code_length", "foo", "kfoo", "Mfoo", "ufoo", "mile", "pc", "kpc", "km", "m"], "M": ["code_mass", "Msun", "kg", "g"],
                "T": ["code_time", "s", "Myr"], "K": ["code_temperature", "K", "R"], "V": ["code_velocity", "km/s"], "A": ["turnish", "degree", "rad"]}


def random_cases(tier, seed, n, i):
    r = core.rng(seed, "C11-random", i)
    cases = []
    for _ in range(n):
        what = r.random()
        if what < 0.35:       # compound in the default registry
            k = r.randint(2, 3)
            picks = r.sample(sorted(COMPOUND_POOLS), k)
            exps = [r.choice(["1", "1", "2", "-1", "-2", "3", "1/2", "3/2", "-3"]) for _ in picks]
            spec = [[r.choice(COMPOUND_POOLS[p]), e] for p, e in zip(picks, exps)]
            pspec = [[r.choice(COMPOUND_POOLS[p]), e] for p, e in zip(picks, exps)]
            regkind, fam = r.choice(["default", "default", "custom", "custom-mod", "cgs"]), "compound"
        elif what < 0.75:     # custom registry, single custom symbol
            regkind = r.choice(["custom", "custom", "custom-mod", "custom-mod", "cgs", "removed", "nodefaults"])
            if regkind == "nodefaults":
                sym = r.choice(["code_length", "code_mass", "code_time", "m", "g", "s"])
                d = {"code_length": "L", "m": "L", "code_mass": "M", "g": "M", "code_time": "T", "s": "T"}[sym]
                partner = r.choice({"L": ["code_length", "m"], "M": ["code_mass", "g"], "T": ["code_time", "s"]}[d])
                spec, pspec, fam = [[sym, "1"]], [[partner, "1"]], "reg-nodefaults"
            else:
                sym = r.choice(sorted(CUSTOM))
                d = CUSTOM[sym][0]
                pl = {"L": "L", "M": "M", "T": "T", "K": "K", "L T-1": "V", "A": "A"}.get(d)
                partner = r.choice(CUSTOM_POOLS[pl]) if pl else sym
                if "/" in partner:
                    pspec = [["km", "1"], ["s", "-1"]]
                else:
                    pspec = [[partner, "1"]]
                spec, fam = [[sym, "1"]], family_of_symbol(sym, regkind)
                if regkind == "removed":
                    fam = "reg-removed"
        else:                 # compound with custom symbols
            regkind = r.choice(["custom", "custom", "custom-mod", "cgs", "removed"])
            k = r.randint(2, 3)
            picks = r.sample(["L", "M", "T", "K"], k)
            exps = [r.choice(["1", "1", "2", "-1", "-2", "-3", "1/2"]) for _ in picks]
            spec = [[r.choice(CUSTOM_POOLS[p]), e] for p, e in zip(picks, exps)]
            pspec = [[r.choice(CUSTOM_POOLS[p]), e] for p, e in zip(picks, exps)]
            fam = "custom-compound" if regkind != "removed" else "reg-removed"
        kind = r.choice(["array", "array", "unit", "registry"])
        if kind == "array":
            route, proto = r.choice(ARRAY_ROUTES_Q if r.random() < 0.97 else ARRAY_ROUTES)
        elif kind == "unit":
            route, proto = r.choice(UNIT_ROUTES_Q if r.random() < 0.97 else UNIT_ROUTES)
        else:
            route, proto = r.choice(REG_ROUTES_Q if r.random() < 0.97 else REG_ROUTES)
        built = r.choice(["str", "str", "arith"])
        cases.append(mk_case(r, kind, route, regkind, spec, pspec, fam, proto=proto, built=built))
    return cases


def batches(tier, seed):
    tc = table_cases(tier, seed)
    if tier == "quick":
        b = [("table/%d" % i, {"cases": c}) for i, c in enumerate(chunks(tc, 24))]
        b += [("random/%d" % i, {"gen": [tier, seed, 12, i]}) for i in range(16)]
        b += [("history/%d" % i, {"hist": c}) for i, c in enumerate(chunks(shared_histories(tier, seed), 16))]
        b += [("history-random/%d" % i, {"hgen": [tier, seed, 8, i]}) for i in range(16)]
        b = c11_options.batches(tier, seed) + b
    else:
        b = [("table/%d" % i, {"cases": c}) for i, c in enumerate(chunks(tc, 96))]
        b += [("random/%d" % i, {"gen": [tier, seed, 40, i]}) for i in range(64)]
        b += [("history/%d" % i, {"hist": c}) for i, c in enumerate(chunks(shared_histories(tier, seed), 64))]
        b += [("history-random/%d" % i, {"hgen": [tier, seed, 60, i]}) for i in range(64)]
        b = c11_options.batches(tier, seed) + b
    return b


# --------------------------------------------------------------------------------------------------------- building objects
def build_registry(unyt, case):
    kind, p = case["reg"], case["regp"]
    if kind == "default":
        return unyt.unit_registry.default_unit_registry
    D = unyt.dimensions
    UR = unyt.UnitRegistry
    if kind == "nodefaults":
        reg = UR(add_default_symbols=False)
        dl = unyt.unit_registry.default_unit_registry.lut
        for s in ("m", "g", "s", "K", "rad", "A", "cd"):
            e = dl[s]
            reg.add(s, float(e[0]), e[1], tex_repr=e[3], prefixable=True)
        reg.add("code_length", p["L"], D.length)
        reg.add("code_mass", p["M"], D.mass)
        reg.add("code_time", p["T"], D.time)
        return reg
    reg = UR(unit_system="cgs") if kind == "cgs" else UR()
    reg.add("code_length", p["L"], D.length)
    reg.add("code_mass", p["M"], D.mass)
    reg.add("code_time", p["T"], D.time)
    reg.add("code_temperature", p["K"], D.temperature)
    reg.add("code_velocity", p["L"] / p["T"], D.velocity)
    reg.add("foo", p["foo"], D.length, prefixable=True)
    reg.add("degX", p["degXs"], D.temperature, offset=p["degXo"], prefixable=True)
    reg.add("turnish", p["ang"], D.angle, tex_repr=r"\rm{turn}")
    reg.add("bel2", p["log"], D.logarithmic)
    reg.modify("code_mass", p["M"] * 1.5)                                  # a modified user symbol
    reg.modify("code_velocity", unyt.unyt_quantity(p["L"] / p["T"] * 2.0, "m/s"))   # modified through a quantity
    if kind == "custom-mod":                                               # modified default symbols (one of them prefixable)
        reg.modify("mile", p["mile"])
        reg.modify("Msun", unyt.unyt_quantity(p["msun"], "kg"))
        reg.modify("pc", p["pc"])
    if kind == "removed":
        reg.remove("furlong")
        reg.remove("smoot")
    # the "code" unit system of this registry (what yt does for a dataset)
    unyt.UnitSystem(reg.unit_system_id, "code_length", "code_mass", "code_time", "code_temperature", registry=reg)
    return reg


def build_unit(unyt, reg, spec, built):
    if built == "str" or len(spec) == 0:
        return unyt.Unit(spec_string(spec), registry=reg)
    u = None
    for a, e in spec:
        f = unyt.Unit(a, registry=reg)
        if Fr(e) != 1:
            f = f ** float(Fr(e))
        u = f if u is None else u * f
    return u


def build_array(unyt, unit, vals, dtype, shape, named=False):
    dt = np.dtype(dtype)
    if dt.kind in "iu":
        vals = [int(max(-1e9, min(1e9, round(v)))) for v in vals]
    a = np.array(vals, dtype=dt).reshape(shape)
    if dt.kind == "c":
        a = a + 1j * np.array(vals[::-1], dtype=float).reshape(shape) * 0.5
    if shape == []:
        x = unyt.unyt_quantity(a[()], unit)
    else:
        x = unyt.unyt_array(a, unit)
    if named:
        x.name = "density"
    return x


class Built:
    pass


def build(unyt, case):
    b = Built()
    b.reg = build_registry(unyt, case)
    b.ux = build_unit(unyt, b.reg, case["spec"], case["built"])
    b.up = build_unit(unyt, b.reg, case["pspec"], "str")
    b.x = build_array(unyt, b.ux, case["vals"], case["dtype"], case["shape"], case["named"])
    b.p = build_array(unyt, b.up, case["pvals"], "float64" if case["dtype"] != "complex128" else "complex128", case["shape"])
    b.X = {"array": b.x, "unit": b.ux, "registry": b.reg}[case["kind"]]
    return b


# --------------------------------------------------------------------------------------------------------- routes
def container_of(b):
    return {"a": b.X, "b": [b.p, b.ux], "c": (b.X, 1.5, "text"), "d": {"k": [b.p.units]}}


def dump(unyt, case, b, tmpdir):
    """-> JSON-able blob for routes that persist bytes/text; None for in-process routes"""
    route = case["route"]
    if route in ("pickle", "reg-pickle"):
        return base64.b64encode(pickle.dumps(b.X, protocol=case["proto"])).decode()
    if route == "container-pickle":
        return base64.b64encode(pickle.dumps(container_of(b), protocol=case["proto"])).decode()
    if route == "json":
        return b.X.to_json()
    if route == "text":
        t = case["text"]
        fn = os.path.join(tmpdir, "c11_%d_%d.txt" % (os.getpid(), int(time.time() * 1e6) % 10**9))
        cols = [b.x, b.p, b.x][:t["cols"]]
        unyt.savetxt(fn, cols if t["cols"] > 1 else b.x, delimiter=t["delimiter"], header=t["header"], footer=t["footer"])
        return fn
    return None


def load(unyt, case, b, blob):
    """-> (R, rp) restored object and restored partner (None when the partner did not travel)"""
    route = case["route"]
    if route in ("pickle", "reg-pickle"):
        return pickle.loads(base64.b64decode(blob)), None
    if route == "container-pickle":
        c = pickle.loads(base64.b64decode(blob))
        return c["a"], c["b"][0]
    if route == "container-deepcopy":
        c = copy.deepcopy(container_of(b))
        return c["a"], c["b"][0]
    if route == "json":
        return unyt.UnitRegistry.from_json(blob), None
    if route == "text":
        t = case["text"]
        dt = "complex" if case["dtype"] == "complex128" else "float"
        got = unyt.loadtxt(blob, delimiter=t["delimiter"], dtype=dt)
        if t["cols"] == 1:
            return got, None
        return got[0], got[1]
    if route == "copy.copy" or route == "reg-copy":
        return copy.copy(b.X), None
    if route in ("deepcopy", "reg-deepcopy"):
        return copy.deepcopy(b.X), None
    if route == "method-copy":
        return b.X.copy(), None
    if route == "unit.copy":
        return b.X.copy(), None
    if route == "unit.copy-deep":
        return b.X.copy(deep=True), None
    if route == "str":
        if case["kind"] == "unit":
            if case["reg"] == "default" and case["vals"][0] > 1:
                return unyt.Unit(str(b.X)), None
            return unyt.Unit(str(b.X), registry=b.X.registry), None
        cls = type(b.X)
        if case["reg"] == "default" and case["vals"][0] > 1:
            return cls(np.array(b.X.d), str(b.X.units)), None
        return cls(np.array(b.X.d), str(b.X.units), registry=b.X.units.registry), None
    raise RuntimeError("unknown route " + route)


# --------------------------------------------------------------------------------------------------------- outcomes
def num(v):
    if isinstance(v, (complex, np.complexfloating)):
        return ["c", float(v.real), float(v.imag)]
    if isinstance(v, (bool, np.bool_)):
        return bool(v)
    if isinstance(v, (int, np.integer)):
        return int(v)
    if isinstance(v, (float, np.floating)):
        return float(v)
    return repr(v)[:80]


def numlist(a):
    a = np.asarray(a)
    if a.dtype.kind not in "biufc":
        return [repr(a.tolist())[:300]]
    return [num(v) for v in a.ravel().tolist()]


def normunit(u):
    try:
        dv = dims.show(dims.of_expr(u.dimensions))
    except Exception as e:
        dv = "dim-unreadable:" + type(e).__name__
    return {"s": str(u.expr), "bv": float(u.base_value), "bo": float(u.base_offset), "dim": dv}


def norm(v, depth=0):
    import sympy
    if depth > 4:
        return {"t": "deep", "v": repr(v)[:100]}
    if isinstance(v, np.ndarray):
        u = getattr(v, "units", None)
        d = {"t": type(v).__name__, "dt": str(v.dtype), "sh": list(v.shape), "v": numlist(np.asarray(v))}
        if u is not None:
            d["u"] = normunit(u)
        return d
    if hasattr(v, "is_Unit"):
        return {"t": "Unit", "u": normunit(v)}
    if isinstance(v, np.generic):
        # NumPy scalars and Python numbers are the same "class" of outcome (the number decides); array dtypes are compared separately
        kindname = {"b": "bool", "i": "int", "u": "int", "f": "float", "c": "complex"}.get(v.dtype.kind, type(v).__name__)
        return {"t": kindname, "v": num(v)}
    if v is None or isinstance(v, (bool, int, float, complex)):
        return {"t": type(v).__name__, "v": num(v) if v is not None else None}
    if isinstance(v, str):
        return {"t": "str", "v": v[:400]}
    if isinstance(v, (list, tuple)):
        return {"t": "seq", "v": [norm(e, depth + 1) for e in v[:64]]}
    if isinstance(v, sympy.Basic):
        return {"t": "sympy", "v": str(v)}
    return {"t": type(v).__name__, "v": repr(v)[:200]}


def outcome(fn):
    try:
        with np.errstate(all="ignore"):
            return norm(fn())
    except Exception as e:
        return {"t": "EXC", "v": type(e).__name__, "msg": str(e)[:160]}


def fsame(a, b, exact):
    if isinstance(a, list) and isinstance(b, list) and len(a) == 3 and a[0] == "c" and b[0] == "c":
        return fsame(a[1], b[1], exact) and fsame(a[2], b[2], exact)
    if isinstance(a, float) and isinstance(b, float):
        if a == b or (a != a and b != b):
            return True
        if exact:
            return False
        return abs(a - b) <= 1e-12 * max(abs(a), abs(b))
    return a == b


def usame(a, b, exact):
    if a["s"] != b["s"] or a["dim"] != b["dim"]:
        return False
    return fsame(a["bv"], b["bv"], False if not exact else True) and fsame(a["bo"], b["bo"], exact)


def differ(a, b, exact):
    """None when the two outcomes are the same, else the failure kind"""
    if (a["t"] == "EXC") != (b["t"] == "EXC"):
        return "refusal-differs"
    if a["t"] == "EXC":
        return None if a["v"] == b["v"] else "exception-class"
    if a["t"] != b["t"]:
        return "class"
    if "u" in a or "u" in b:
        if ("u" in a) != ("u" in b):
            return "unit-presence"
        if not usame(a["u"], b["u"], exact):
            return "unit"
    if a["t"] == "seq":
        if len(a["v"]) != len(b["v"]):
            return "length"
        for x, y in zip(a["v"], b["v"]):
            d = differ(x, y, exact)
            if d:
                return d
        return None
    if a.get("dt") != b.get("dt"):
        return "dtype"
    if a.get("sh") != b.get("sh"):
        return "shape"
    va, vb = a.get("v"), b.get("v")
    if isinstance(va, list) and isinstance(vb, list):
        if len(va) != len(vb) or not all(fsame(x, y, exact) for x, y in zip(va, vb)):
            return "value"
        return None
    return None if fsame(va, vb, exact) else "value"


# --------------------------------------------------------------------------------------------------------- follow-up battery
def battery(unyt, case, o, q, label):
    """list of (opkey, thunk).  o: array under test, q: partner array.  Nothing here may mutate o, q or a registry."""
    U = unyt.Unit
    reg = o.units.registry
    uq = unyt.unyt_quantity
    ops = []
    A = lambda k, f: ops.append((k, f))
    flat = lambda a: a.reshape(-1)
    A("neg", lambda: -o); A("abs", lambda: abs(o)); A("mul-scalar", lambda: o * 2.0); A("rmul-scalar", lambda: 2.0 * o)
    A("pow2", lambda: o ** 2); A("sqrt", lambda: np.sqrt(o)); A("pow-1", lambda: o ** -1); A("pow0.5", lambda: o ** 0.5)
    A("self+self", lambda: o + o); A("self-self", lambda: o - o); A("self*self", lambda: o * o); A("self/self", lambda: o / o)
    A("trig:sin", lambda: np.sin(o)); A("trig:cos", lambda: np.cos(o)); A("trig:tan", lambda: np.tan(o))
    A("arctan2-self", lambda: np.arctan2(o, o)); A("exp", lambda: np.exp(o)); A("log10", lambda: np.log10(o))
    A("diff", lambda: np.diff(flat(o))); A("ediff1d", lambda: np.ediff1d(o)); A("ptp", lambda: np.ptp(o)); A("sum", lambda: np.sum(o))
    A("mean", lambda: o.mean()); A("std", lambda: np.std(o)); A("var", lambda: np.var(o)); A("cumsum", lambda: np.cumsum(o)); A("prod", lambda: np.prod(o))
    A("max", lambda: o.max()); A("dot-self", lambda: np.dot(flat(o), flat(o))); A("norm", lambda: np.linalg.norm(flat(o)))
    A("item0", lambda: flat(o)[0]); A("add-bare-zero", lambda: o + 0); A("eq-bare-zero", lambda: o == 0)
    # unit systems
    A("system:in_cgs", lambda: o.in_cgs()); A("system:in_mks", lambda: o.in_mks()); A("system:in_base", lambda: o.in_base())
    for s in ("imperial", "galactic", "cgs", "solar", "code"):
        A("system:in_base:" + s, lambda s=s: o.in_base(s))
    A("system:convert_to_cgs", lambda: (lambda c: (c.convert_to_cgs(), c)[1])(o.copy()))
    A("system:convert_to_base", lambda: (lambda c: (c.convert_to_base(), c)[1])(o.copy()))

    def own_system():
        if "code_length" in reg.lut:
            us = unyt.UnitSystem("c11sys", "code_length", "code_mass", "code_time", registry=reg)
        else:
            us = unyt.UnitSystem("c11sys", "km", "Msun", "Myr", registry=reg)
        return o.in_base(us)
    A("system:new-UnitSystem-on-registry", own_system)
    A("system:units.get_base_equivalent", lambda: o.units.get_base_equivalent())
    A("system:units.get_cgs_equivalent", lambda: o.units.get_cgs_equivalent())
    # conversions to the case's targets (strings are resolved in the object's own registry)
    for i, t in enumerate(case["targets"]):
        tag = ("partner-unit", "base-string", "extra")[i]
        A("to:" + tag, lambda t=t: o.to(t)); A("to_value:" + tag, lambda t=t: o.to_value(t)); A("in_units:" + tag, lambda t=t: o.in_units(t))
        A("convert_to_units:" + tag, lambda t=t: (lambda c: (c.convert_to_units(t), c)[1])(o.copy()))
        A("to:unit-object-own-registry:" + tag, lambda t=t: o.to(U(t, registry=reg)))
        A("to:unit-object-default-registry:" + tag, lambda t=t: o.to(U(t)))
        A("units.get_conversion_factor:" + tag, lambda t=t: o.units.get_conversion_factor(U(t, registry=reg)))
    for (t, e) in case["equivs"]:
        A("equiv:to_equivalent:" + e, lambda t=t, e=e: o.to_equivalent(t, e)); A("equiv:has_equivalent:" + e, lambda e=e: o.has_equivalent(e))
    # logarithmic guards
    A("logguard:mul-dB", lambda: o * U("dB", registry=reg)); A("logguard:dB-mul", lambda: uq(3.0, "dB", registry=reg) * o)
    A("logguard:div-Np", lambda: o / U("Np", registry=reg)); A("logguard:mul-default-dB", lambda: o * U("dB"))
    A("logguard:units-mul-Np", lambda: o.units * U("Np", registry=reg)); A("logguard:units-pow", lambda: o.units ** 2)
    # unit attributes
    A("units:snapshot", lambda: o.units); A("units:str", lambda: str(o.units)); A("units:repr", lambda: repr(o.units))
    A("units:latex", lambda: o.units.latex_repr); A("units:is_dimensionless", lambda: o.units.is_dimensionless)
    A("units:is_code_unit", lambda: o.units.is_code_unit); A("units:is_atomic", lambda: o.units.is_atomic)
    A("units:simplify", lambda: (o.units ** 1).simplify()); A("units:as_coeff_unit", lambda: o.units.as_coeff_unit())
    A("units:eq-reparsed-in-own-registry", lambda: o.units == U(str(o.units), registry=reg))
    A("units:list_same_dimensions", lambda: [k for k in reg.list_same_dimensions(o.units) if k in STATIC_ATOMS])
    A("units:mul-self", lambda: o.units * o.units); A("units:div-self-dimensionless", lambda: (o.units / o.units).is_dimensionless)
    A("units:sqrt", lambda: o.units ** 0.5); A("units:inverse", lambda: o.units ** -1)
    A("units:quantity-from-unit", lambda: 2.5 * o.units); A("units:trig-of-90-units", lambda: np.sin(90.0 * o.units))
    A("units:same_dimensions_as-partner", lambda: o.units.same_dimensions_as(q.units)); A("units:eq-partner", lambda: o.units == q.units)
    A("units:mul-partner", lambda: o.units * q.units); A("units:div-partner", lambda: o.units / q.units); A("units:partner-div", lambda: q.units / o.units)
    # the array as a whole
    A("str", lambda: str(o)); A("repr", lambda: repr(o)); A("ndview", lambda: np.array(o.d)); A("unit_quantity", lambda: o.unit_quantity)
    A("reconstruct", lambda: unyt.unyt_array(o)); A("method-copy", lambda: o.copy()); A("astype-f4", lambda: o.astype("float32"))
    A("reshape", lambda: o.reshape(-1)); A("newaxis", lambda: o[..., None]); A("pickle-again", lambda: pickle.loads(pickle.dumps(o)))
    A("deepcopy-again", lambda: copy.deepcopy(o)); A("array-of-quantities", lambda: unyt.unyt_array([flat(o)[0], flat(q)[0]]))
    # registry lookups in the object's own registry
    for s in LOOKUP_SYMS:
        A("lookup:" + ("custom-symbol" if s in CUSTOM or s in ("mdegX", "c11_new") else "default-symbol"), lambda s=s: U(s, registry=reg))
    A("lookup:contains", lambda: [s in reg for s in LOOKUP_SYMS])
    A("lookup:getitem", lambda: [float(reg[s][0]) if s in reg else None for s in LOOKUP_SYMS[:-1]])
    A("lookup:prefixable_units", lambda: sorted(reg.prefixable_units))
    A("lookup:unit_system", lambda: str(reg.unit_system))
    # with the partner, both operand orders
    for tag, a, b in (("o,q", o, q), ("q,o", q, o)):
        A("binary:add:" + tag, lambda a=a, b=b: a + b); A("binary:sub:" + tag, lambda a=a, b=b: a - b)
        A("binary:mul:" + tag, lambda a=a, b=b: a * b); A("binary:div:" + tag, lambda a=a, b=b: a / b)
        A("binary:eq:" + tag, lambda a=a, b=b: a == b); A("binary:lt:" + tag, lambda a=a, b=b: a < b)
        A("binary:maximum:" + tag, lambda a=a, b=b: np.maximum(a, b)); A("binary:hypot:" + tag, lambda a=a, b=b: np.hypot(a, b))
        A("binary:arctan2:" + tag, lambda a=a, b=b: np.arctan2(a, b)); A("binary:floor_divide:" + tag, lambda a=a, b=b: a // b)
        A("binary:concatenate:" + tag, lambda a=a, b=b: np.concatenate([flat(a), flat(b)]))
        A("binary:iadd:" + tag, lambda a=a, b=b: (lambda c: c.__iadd__(b))(a.copy()))
        A("binary:to-other-units:" + tag, lambda a=a, b=b: a.to(b.units)); A("binary:dot:" + tag, lambda a=a, b=b: np.dot(flat(a), flat(b)))
        A("binary:allclose_units:" + tag, lambda a=a, b=b: unyt.allclose_units(a, b))
        A("binary:where:" + tag, lambda a=a, b=b: np.where(np.asarray(a.d).real > 1, a, b))
    return ops


def mutation_battery(unyt, case, o):
    """registry-mutating follow-ups (only after deep routes, only on modifiable registries); not idempotent on purpose, so that a
    registry shared between original and restored object shows up as an order dependence"""
    U = unyt.Unit
    reg = o.units.registry
    D = unyt.dimensions
    ops = []
    A = lambda k, f: ops.append((k, f))

    def modify():
        reg.modify("code_length", reg.lut["code_length"][0] * 2.0)
        return U("code_length", registry=reg)

    def add():
        old = reg.lut["c11_new"][0] if "c11_new" in reg.lut else 1.0
        reg.add("c11_new", old * 3.0, D.length)
        return U("c11_new", registry=reg)

    def modfoo():
        reg.modify("foo", reg.lut["foo"][0] * 5.0)
        return [U("foo", registry=reg), U("kfoo", registry=reg)]
    A("mutate:modify-custom", modify); A("mutate:add-new", add); A("mutate:modify-prefixable", modfoo)
    A("mutate:then-fresh-quantity", lambda: unyt.unyt_quantity(1.0, "code_length*c11_new/foo", registry=reg).in_mks())
    A("mutate:then-object-in_mks", lambda: o.in_mks()); A("mutate:then-object-to-code", lambda: o.to(case["targets"][0]))
    return ops


def derive(unyt, case, obj, b):
    """the array the battery runs on, derived from the (original or restored) object of the case's kind"""
    if case["kind"] == "array":
        return obj
    if case["kind"] == "unit":
        return build_array(unyt, obj, case["vals"], case["dtype"], case["shape"])
    u = build_unit(unyt, obj, case["spec"], case["built"])
    return build_array(unyt, u, case["vals"], case["dtype"], case["shape"])


def _fingerprint(a):
    return (np.asarray(a.d).tobytes(), str(a.dtype), a.shape, str(a.units.expr), float(a.units.base_value), float(a.units.base_offset), type(a).__name__)


def run_battery(unyt, case, o, q, label):
    f0 = (_fingerprint(o), _fingerprint(q))
    out = [[k, outcome(f)] for k, f in battery(unyt, case, o, q, label)]
    if (_fingerprint(o), _fingerprint(q)) != f0:     # self-check of the harness: the follow-ups must be non-mutating
        raise RuntimeError(f"harness: battery {label} changed one of its operands: {f0} -> {(_fingerprint(o), _fingerprint(q))}")
    return out


def run_mutation(unyt, case, o):
    return [[k, outcome(f)] for k, f in mutation_battery(unyt, case, o)]


# --------------------------------------------------------------------------------------------------------- immediate oracle
def lut_entry(e):
    try:
        dv = dims.show(dims.of_expr(e[1]))
    except Exception:
        dv = "?"
    return [float(e[0]), dv, float(e[2]), str(e[3]), bool(e[4]), len(e)]


def derived_prefixed(k, lut):
    """k is an SI-prefixed entry that a lookup materialised from a prefixable entry of the same table"""
    for p, f in defs.PREFIX.items():
        if k.startswith(p) and k[len(p):] in lut:
            base = lut[k[len(p):]]
            if base[4] and not lut[k][4] and abs(float(lut[k][0]) - float(base[0]) * f) <= 1e-12 * abs(float(lut[k][0])):
                return True
    return False


def immediate(unyt, case, b, R, rp):
    """-> (violations [(opkey, kind, text)], notes [str], unit_bits_equal)"""
    viol, notes = [], []
    X = b.X
    kind = case["kind"]
    exact = True
    if kind == "array":
        text = case["route"] == "text"
        if type(R) is not type(X) and not text:
            viol.append(("immediate:class", "class", f"{type(X).__name__} came back as {type(R).__name__}"))
        if not isinstance(R, unyt.unyt_array):
            viol.append(("immediate:class", "class", f"came back as {type(R).__name__}"))
            return viol, notes, False
        xa, ra = np.asarray(X.d), np.asarray(R.d)
        if not text:
            if xa.dtype != ra.dtype:
                viol.append(("immediate:numbers", "dtype", f"{xa.dtype} -> {ra.dtype}"))
            if xa.shape != ra.shape:
                viol.append(("immediate:numbers", "shape", f"{xa.shape} -> {ra.shape}"))
            elif xa.tobytes() != ra.tobytes():
                viol.append(("immediate:numbers", "value", f"{xa.tolist()} -> {ra.tolist()}"))
        else:
            if xa.shape != ra.shape:
                viol.append(("immediate:numbers", "shape", f"{xa.shape} -> {ra.shape}"))
            elif not np.array_equal(xa.astype(complex), ra.astype(complex)):
                viol.append(("immediate:numbers", "value", f"{xa.tolist()} -> {ra.tolist()}"))
        if getattr(X, "name", None) != getattr(R, "name", None):
            notes.append("name-attribute-not-restored:" + case["route"])
        ux, ur = X.units, R.units
    elif kind == "unit":
        if not hasattr(R, "is_Unit"):
            viol.append(("immediate:class", "class", f"Unit came back as {type(R).__name__}"))
            return viol, notes, False
        ux, ur = X, R
    else:
        ux = ur = None
        if not isinstance(R, unyt.UnitRegistry):
            viol.append(("immediate:class", "class", f"registry came back as {type(R).__name__}"))
            return viol, notes, False
        if type(R) is not type(X):
            notes.append("registry-class-changed:" + case["route"])
        if str(R.unit_system) != str(X.unit_system):
            viol.append(("immediate:registry.unit_system", "value", f"{X.unit_system} -> {R.unit_system}"))
    if ux is not None:
        a, c = normunit(ux), normunit(ur)
        exact = (a["bv"] == c["bv"] and a["bo"] == c["bo"])
        if a["s"] != c["s"]:
            viol.append(("immediate:units", "unit-expression", f"{a['s']} -> {c['s']}"))
        elif a["dim"] != c["dim"]:
            viol.append(("immediate:units", "dimensions", f"{a['s']}: {a['dim']} -> {c['dim']}"))
        elif not fsame(a["bv"], c["bv"], False):
            viol.append(("immediate:units", "scale", f"{a['s']}: scale {a['bv']} -> {c['bv']}"))
        elif not fsame(a["bo"], c["bo"], False):
            viol.append(("immediate:units", "offset", f"{a['s']}: zero-point offset {a['bo']} -> {c['bo']}"))
        if isinstance(ux.base_value, np.generic) != isinstance(ur.base_value, np.generic):
            notes.append("ATTRIB:unit-scale-changed-between-numpy-scalar-and-python-float")
        try:
            if hash(ux) != hash(ur):
                notes.append("hash-of-unit-changed:" + case["route"])
        except Exception:
            notes.append("hash-raises")
        lx, lr = ux.registry.lut, ur.registry.lut
        if str(ux.registry.unit_system) != str(ur.registry.unit_system):
            viol.append(("immediate:registry.unit_system", "value", f"{ux.registry.unit_system} -> {ur.registry.unit_system}"))
    else:
        lx, lr = X.lut, R.lut
    if rp is not None:
        if isinstance(b.p.units.base_value, np.generic) != isinstance(rp.units.base_value, np.generic):
            notes.append("ATTRIB:unit-scale-changed-between-numpy-scalar-and-python-float")
        pa, pc = normunit(b.p.units), normunit(rp.units)
        if pa["s"] != pc["s"]:
            viol.append(("immediate:units", "unit-expression", f"second column: {pa['s']} -> {pc['s']}"))
        elif pa["dim"] != pc["dim"]:
            viol.append(("immediate:units", "dimensions", f"second column {pa['s']}: {pa['dim']} -> {pc['dim']}"))
        elif not fsame(pa["bv"], pc["bv"], False):
            viol.append(("immediate:units", "scale", f"second column {pa['s']}: scale {pa['bv']} -> {pc['bv']}"))
        elif not fsame(pa["bo"], pc["bo"], False):
            viol.append(("immediate:units", "offset", f"second column {pa['s']}: zero-point offset {pa['bo']} -> {pc['bo']}"))
        if np.asarray(b.p.d).shape != np.asarray(rp.d).shape or not np.array_equal(np.asarray(b.p.d).astype(complex), np.asarray(rp.d).astype(complex)):
            viol.append(("immediate:numbers", "value", f"second column {np.asarray(b.p.d).tolist()} -> {np.asarray(rp.d).tolist()}"))
    # registry contents, entry by entry
    if True:
        dl = unyt.unit_registry.default_unit_registry.lut if lx is not unyt.unit_registry.default_unit_registry.lut else lx
        missing = [k for k in lx if k not in lr and not derived_prefixed(k, lx)]
        changed = [k for k in lx if k in lr and lut_entry(lx[k]) != lut_entry(lr[k])]
        extra = [k for k in lr if k not in lx]
        if missing:
            cus = [k for k in missing if k not in dl]
            viol.append(("immediate:lut", "symbols-lost:" + ("user-defined" if cus else "default"), f"{len(missing)} symbols lost, e.g. {(cus or missing)[:4]}"))
        if changed:
            user = [k for k in changed if k not in dl]
            reverted = [k for k in changed if k in dl and lut_entry(lr[k]) == lut_entry(dl[k])]
            if user:
                k = user[0]
                viol.append(("immediate:lut", "entry-changed:user-defined-symbol", f"{len(user)} user-defined entries changed, e.g. {k}: {lut_entry(lx[k])} -> {lut_entry(lr[k])}"))
            if reverted:
                k = reverted[0]
                viol.append(("immediate:lut", "entry-changed:modified-default-symbol-reverted-to-default",
                             f"{len(reverted)} modified default symbols came back with their default value, e.g. {k}: {lut_entry(lx[k])} -> {lut_entry(lr[k])}"))
            other = [k for k in changed if k not in user and k not in reverted]
            if other:
                k = other[0]
                viol.append(("immediate:lut", "entry-changed:default-symbol", f"{len(other)} entries changed, e.g. {k}: {lut_entry(lx[k])} -> {lut_entry(lr[k])}"))
        if extra:
            res = [k for k in extra if k in dl and not derived_prefixed(k, lr)]
            oth = [k for k in extra if k not in dl]
            if res:
                viol.append(("immediate:lut", "absent-default-symbols-reappeared", f"{len(res)} default symbols that the original registry did not have appeared, e.g. {res[:4]}"))
            oth = [k for k in oth if not derived_prefixed(k, lr)]
            if oth:
                viol.append(("immediate:lut", "symbols-gained", f"{len(oth)} symbols appeared, e.g. {oth[:4]}"))
    # attribution probe (never a verdict by itself): are the restored dimensions still built from the library's own symbol objects?
    try:
        by = {d.name: d for d in unyt.dimensions.base_dimensions if getattr(d, "is_Symbol", False)}
        lost = False
        objs = [ur.dimensions] if ux is not None else []
        objs += [e[1] for e in lr.values()]
        for dexpr in objs:      # only atomic dimensions: those are what the library compares by identity (is angle / temperature / logarithmic)
            if getattr(dexpr, "is_Symbol", False) and dexpr.name in by and dexpr is not by[dexpr.name]:
                lost = True
        if lost:
            notes.append("ATTRIB:dimension-symbols-not-the-library-singletons")
    except Exception:
        pass
    return viol, notes, exact


# --------------------------------------------------------------------------------------------------------- grandchildren
def fork_call(fn, timeout=180.0):
    r, w = os.pipe()
    pid = os.fork()
    if pid == 0:
        os.close(r)
        try:
            data = json.dumps(fn()).encode()
        except BaseException as e:
            data = json.dumps({"harness_error": "".join(traceback.format_exception(type(e), e, e.__traceback__))[-2500:]}).encode()
        try:
            with os.fdopen(w, "wb") as f:
                f.write(data)
        finally:
            os._exit(0)
    os.close(w)
    buf = []
    t0 = time.time()
    killed = False
    while True:
        left = timeout - (time.time() - t0)
        if left <= 0:
            os.kill(pid, signal.SIGKILL); killed = True
            break
        rl, _, _ = select.select([r], [], [], min(left, 1.0))
        if rl:
            c = os.read(r, 1 << 20)
            if not c:
                break
            buf.append(c)
    os.close(r)
    os.waitpid(pid, 0)
    if killed:
        return {"watchdog": True}
    try:
        return json.loads(b"".join(buf).decode())
    except Exception:
        return {"harness_error": "grandchild died without report"}


def child_main(case, mode, blob, tmpdir):
    """runs in a pristine fork.  mode: dump | x | r | xr | rx | m"""
    import warnings
    warnings.simplefilter("ignore")
    import unyt
    b = build(unyt, case)
    if mode == "dump":
        try:
            return {"blob": dump(unyt, case, b, tmpdir)}
        except Exception as e:
            return {"dump_refused": type(e).__name__, "msg": str(e)[:200]}
    out = {}
    deep = case["route"] in DEEP_ROUTES
    mutable = deep and case["reg"] in ("custom", "custom-mod", "cgs", "removed")
    ox = derive(unyt, case, b.X, b)
    if mode == "x":
        out["X"] = run_battery(unyt, case, ox, b.p, "x")
        if mutable:
            out["X"] += run_mutation(unyt, case, ox)
        return out
    # restore
    try:
        if blob is None and case["route"] in ("pickle", "reg-pickle", "container-pickle", "json", "text"):
            blob = dump(unyt, case, b, tmpdir)     # in-process round trip (modes xr / rx)
        R, rp = load(unyt, case, b, blob)
    except Exception as e:
        return {"load_refused": type(e).__name__, "msg": str(e)[:300], "tb": traceback.format_exc()[-600:]}
    iv, notes, exact = immediate(unyt, case, b, R, rp)
    if case["route"] == "text":
        exact = False      # loadtxt hands back strided column views: summation order in dot/norm may differ in the last bit
    out["imm"] = iv; out["notes"] = notes; out["exact"] = exact
    try:
        orr = derive(unyt, case, R, b)
    except Exception as e:
        out["derive_refused"] = type(e).__name__ + ": " + str(e)[:200]
        return out
    judged_battery = not (case["route"] == "text" and case["dtype"] not in ("float64", "complex128"))
    out["judged"] = judged_battery
    q_r = rp if rp is not None else b.p
    if mode == "r":
        out["R"] = run_battery(unyt, case, orr, q_r, "r")
        if mutable:
            out["R"] += run_mutation(unyt, case, orr)
    elif mode == "m":
        out["M"] = run_battery(unyt, case, orr, b.p, "m")
    elif mode == "xr":
        out["X"] = run_battery(unyt, case, ox, b.p, "x")
        out["R"] = run_battery(unyt, case, orr, q_r, "r")
        if rp is not None:
            out["M"] = run_battery(unyt, case, orr, b.p, "m")
        if mutable:
            out["X"] += run_mutation(unyt, case, ox)
            out["R"] += run_mutation(unyt, case, orr)
    elif mode == "rx":
        out["R"] = run_battery(unyt, case, orr, q_r, "r")
        out["X"] = run_battery(unyt, case, ox, b.p, "x")
        if rp is not None:
            out["M"] = run_battery(unyt, case, orr, b.p, "m")
        if mutable:
            out["R"] += run_mutation(unyt, case, orr)
            out["X"] += run_mutation(unyt, case, ox)
    if mutable and mode in ("r", "xr", "rx") and case["route"] in ("pickle", "reg-pickle", "container-pickle", "json", "deepcopy", "reg-deepcopy",
                                                                   "container-deepcopy", "unit.copy-deep"):
        # history: the first restored object (and its registry) has been used and changed by now; restoring once more from the same bytes /
        # the same original must still give what was persisted.  Compared against a freshly built original (the build is deterministic).
        try:
            b2 = build(unyt, case)
            blob2 = blob if blob is not None else dump(unyt, case, b2, tmpdir)
            R2, rp2 = load(unyt, case, b2, blob2)
            iv2, _, _ = immediate(unyt, case, b2, R2, rp2)
            out["imm2"] = iv2
        except Exception as e:
            out["imm2"] = [("restore", "refused:" + type(e).__name__, str(e)[:200])]
    return out


# --------------------------------------------------------------------------------------------------------- judging one case
def opgroup(op):
    """mechanism-key part: the operation class (operand order, target index and the single trig / guard function folded)"""
    parts = op.split(":")
    if parts[0] == "binary":
        return ":".join(parts[:2])
    if parts[0] in ("to", "to_value", "in_units", "convert_to_units"):
        return "convert:" + ("unit-object-default-registry" if "unit-object-default-registry" in parts else
                             "unit-object-own-registry" if "unit-object-own-registry" in parts else "by-name")
    if parts[0] == "units.get_conversion_factor":
        return "units:get_conversion_factor"
    if parts[0] == "trig":
        return "trig"
    if parts[0] == "logguard":
        return "log-guard"
    if parts[0] in ("diff", "ediff1d", "ptp"):
        return "diff-ops"
    if parts[0] in ("sum", "mean", "std", "var", "cumsum", "prod", "max", "dot-self", "norm", "item0"):
        return "reductions"
    if parts[0] == "equiv":
        return ":".join(parts[:2])
    if parts[0] == "system" and parts[1] in ("in_base", "convert_to_cgs", "convert_to_base", "in_cgs", "in_mks"):
        return "system:" + (parts[2] if len(parts) > 2 else "default-systems")
    return op


def judge_case(rec, case, tmpdir):
    kind, route, fam = case["kind"], case["route"], case["fam"]
    okind = kind if kind != "array" or case["shape"] != [] else "quantity"
    rkey = {"container-pickle": "pickle", "reg-pickle": "pickle", "container-deepcopy": "deepcopy", "unit.copy-deep": "deepcopy",
            "reg-deepcopy": "deepcopy", "reg-copy": "copy.copy"}.get(route, route)      # same code site -> same key; the cell keeps the exact route
    kkey = kind
    ident = {"kind": okind, "route": route, "proto": case["proto"], "registry": case["reg"], "unit": spec_string(case["spec"]),
             "partner": spec_string(case["pspec"]), "built": case["built"], "dtype": case["dtype"], "shape": case["shape"], "vals": case["vals"]}
    rec.count("cases")
    rec.count(f"cases:{kind}:{route}")
    persisted = route in ("pickle", "reg-pickle", "container-pickle", "json", "text")
    blob = None
    if persisted:
        d = fork_call(lambda: child_main(case, "dump", None, tmpdir))
        if "harness_error" in d:
            if "UnitParseError" in d["harness_error"] or "SymbolNotFoundError" in d["harness_error"]:
                rec.note("case-not-buildable"); return
            raise RuntimeError("harness error in dump child: " + d["harness_error"])
        if d.get("watchdog"):
            rec.count("inconclusive-cases:watchdog"); return
        if "dump_refused" in d:
            rec.note(f"route-refused-to-write:{kind}:{route}{case['proto'] if case['proto'] is not None and case['proto'] < 2 else ''}:{d['dump_refused']}")
            rec.count(f"write-refusals:{kind}:{route}")
            return
        blob = d["blob"]
    res = {}
    travels = route in ("container-pickle", "container-deepcopy") or (route == "text" and case["text"]["cols"] > 1)
    modes = ("x", "r", "xr", "rx", "m") if travels else ("x", "r", "xr", "rx")   # without a restored partner r-only already mixes R with the original partner
    for mode in modes:
        res[mode] = fork_call(lambda mode=mode: child_main(case, mode, blob if mode in ("r", "m") else None, tmpdir))
        rec.count("forks:" + mode)
        if "harness_error" in res[mode]:
            if mode == "x" and ("UnitParseError" in res[mode]["harness_error"] or "SymbolNotFoundError" in res[mode]["harness_error"]):
                rec.note("case-not-buildable"); return
            raise RuntimeError(f"harness error in {mode} child of {ident}: " + res[mode]["harness_error"])
        if res[mode].get("watchdog"):
            rec.count("inconclusive-cases:watchdog"); return
    if persisted and isinstance(blob, str) and route == "text":
        try:
            os.unlink(blob)
        except OSError:
            pass
    # restoring refused although writing worked
    rmodes = [m for m in modes if m != "x"]
    for mode in rmodes:
        if "load_refused" in res[mode]:
            where = "another-process" if mode in ("r", "m") else "same-process"
            rec.violation(f"C11:{rkey}:{kkey}:restore:refused:{res[mode]['load_refused']}:{'default' if case['reg'] == 'default' else 'custom'}-registry",
                          f"{route} of a {okind} in {ident['unit']} ({case['reg']} registry) was written but reading it back ({where}) raised "
                          f"{res[mode]['load_refused']}: {res[mode]['msg']}", ident)
            rec.count(f"immediate:{kind}:{route}")
            return
        if "derive_refused" in res[mode]:
            rec.violation(f"C11:{rkey}:{kkey}:restored-object-unusable",
                          f"{route}: building a quantity from the restored {okind} raised {res[mode]['derive_refused']}", ident)
            return
    # immediate oracle (all four restoring children evaluated it; report once per distinct (op, kind))
    seen = set()
    exact = all(res[m].get("exact", True) for m in rmodes)
    attrib = set()
    for mode in rmodes:
        for (op, k, text) in res[mode]["imm"]:
            if (op, k) in seen:
                continue
            seen.add((op, k))
            rec.violation(f"C11:{rkey}:{kkey}:{op}:{k}", f"{route} (protocol {case['proto']}) of a {okind} in {ident['unit']} "
                          f"({case['reg']} registry): {text}", ident)
        for n in res[mode]["notes"]:
            if n.startswith("ATTRIB:"):
                attrib.add(n[7:])
            else:
                rec.note(n)
    seen2 = set()
    n2 = 0
    for mode in rmodes:
        if "imm2" not in res[mode]:
            continue
        n2 += 1
        for (op, k, text) in res[mode]["imm2"]:
            if (op, k) in seen or (op, k) in seen2:      # already true of the first restore: not a matter of history
                continue
            seen2.add((op, k))
            rec.violation(f"C11:{rkey}:{kkey}:restored-again-after-the-first-restored-object-was-changed:{op}:{k}",
                          f"{route} (protocol {case['proto']}) of a {okind} in {ident['unit']} ({case['reg']} registry): after the first restored "
                          f"object and its registry were used and modified, restoring again from the same bytes gives: {text}", ident)
    if n2:
        rec.count(f"second-restore:{kind}:{route}", n2)
        if not seen2:
            rec.ok((okind, route, fam, "second-restore"))
    for op in ("immediate:class", "immediate:numbers", "immediate:units", "immediate:lut", "immediate:registry.unit_system"):
        if not any(s_[0] == op for s_ in seen):
            rec.ok((okind, route, fam, op))
    rec.count(f"immediate:{kind}:{route}", 5)
    if not res["r"].get("judged", True):
        rec.note("battery-not-judged:text-route-changed-dtype")
        return
    # behavioural oracle
    X0 = res["x"]["X"]
    names = [k for k, _ in X0]
    vecs = [("r", "R"), ("m", "M"), ("xr", "X"), ("rx", "X"), ("xr", "R"), ("rx", "R"), ("xr", "M"), ("rx", "M")]
    nb = 0
    state_differs = sorted(seen)
    show = lambda o_: json.dumps({k: v for k, v in o_.items() if k != "dt"})[:260]
    for idx, (op, ref) in enumerate(X0):
        bad = []
        for (mode, vn) in vecs:
            vec = res.get(mode, {}).get(vn)
            if vec is None or idx >= len(vec):
                continue    # the mixed vector has no mutation phase
            if vec[idx][0] != op:
                raise RuntimeError(f"battery misaligned: {op} vs {vec[idx][0]}")
            d = differ(ref, vec[idx][1], exact)
            if d:
                bad.append((mode, vn, d, vec[idx][1]))
        nb += 1
        if not bad:
            rec.ok((okind, route, fam, opgroup(op)))
            continue
        cold = [x for x in bad if x[0] in ("r", "m")]
        orig = [x for x in bad if x[1] == "X"]
        if cold:
            hist, pick = "", cold[0]
        elif orig:
            hist, pick = ":original-changes-once-restored-object-was-used", orig[0]
        else:
            hist, pick = ":depends-on-order-of-use", bad[0]
        text = (f"{route} (protocol {case['proto']}) of a {okind} in {ident['unit']} ({case['reg']} registry, dtype {case['dtype']}): "
                f"follow-up {op} on the original gives {show(ref)} but in vector {pick[0]}/{pick[1]} gives {show(pick[3])} "
                f"(differing vectors: {sorted(set(m + '/' + v for m, v, _, _ in bad))})")
        if state_differs:
            # the restored state already differs visibly (reported above, keyed by what differs): divergences are its consequences
            rec.count("behavioural-divergences-in-cases-with-a-reported-state-difference")
            rec.count(f"consequence-of:{state_differs[0][0]}:{state_differs[0][1]}")
            rec.evals += 1
        elif attrib:
            rec.violation(f"C11:{rkey}:{kkey}:behaviour-differs:{sorted(attrib)[0]}{hist}", text + f" [first diverging operation class: {opgroup(op)}]", ident)
            rec.count(f"attributed:{sorted(attrib)[0]}:{opgroup(op)}:{pick[2]}")
        else:
            rec.violation(f"C11:{rkey}:{kkey}:{opgroup(op)}:{pick[2]}{hist}", text, ident)
    rec.count(f"behavioural:{kind}:{route}", nb)
    rec.count("battery-ops", nb)
    refusals = sum(1 for _, o_ in X0 if o_["t"] == "EXC")
    rec.count("battery-ops-refused-on-original", refusals)
    rec.reach(f"{kind}:{route}" + (f":p{case['proto']}" if case["proto"] is not None else ""))
    rec.reach("registry:" + case["reg"])
    rec.reach("family:" + fam)
    rec.sample({"case": ident, "ops": len(names), "refused_on_original": refusals}, limit=2)


# --------------------------------------------------------------------------------------------------------- histories after duplicating
# Second workload: a duplicate does not live alone.  One forked child builds an original object in a modifiable registry, uses it (unit strings
# are resolved through its registry: whatever the library memoises gets filled), duplicates it through one route, then walks a history of
# registry edits made through the registry of only ONE of the two objects (or of both) interleaved with more use, and finally asks both objects
# the same questions.  Judged from plain facts read off the objects (are the two registries one object / do they share one table / do the two
# tables hold the same contents):
#   * same table contents            -> original and duplicate give the same outcome for every question,
#   * every side                     -> the same outcome as a brand-new registry holding a copy of that side's current table (the outcome
#                                       implied by the current table; nothing memoised),
#   * independent (deep) duplicates  -> an edit through one side leaves the other side's table as it was when it was duplicated.
SH_FOCUS = {   # edited symbols: symbol -> (dimension key, attribute of unyt.dimensions, prefixable)
    "code_length": ("L", "length", False), "foo": ("L", "length", True), "mile": ("L", "length", False), "pc": ("L", "length", True),
    "code_mass": ("M", "mass", False), "code_time": ("T", "time", False), "code_temperature": ("K", "temperature", False), "degX": ("K", "temperature", True)}
SH_BASE = {"mks": {"L": "m", "M": "kg", "T": "s", "K": "K"}, "cgs": {"L": "cm", "M": "g", "T": "s", "K": "K"}}
SH_CODE = {"L": "code_length", "M": "code_mass", "T": "code_time", "K": "code_temperature"}
SH_OBJ_UNITS = {"L": ["m", "km", "cm", "code_length", "foo", "kfoo", "mile", "pc"], "M": ["kg", "g", "code_mass", "Msun"],
                "T": ["s", "code_time", "Myr"], "K": ["K", "code_temperature", "degX", "R"]}
SH_SUFFIX = {"L": ["", "", "/s", "**2"], "M": ["", "", "/s", "**2"], "T": ["", "", "*m", "**2"], "K": ["", "", "/s"]}
# duplication routes: name -> (object the route is applied to, depth by Python's / the documented semantics, mechanism-key part = code site)
SH_ROUTES = {
    "array:copy.copy": ("array", "shallow", "copy.copy"), "array:method-copy": ("array", "shallow", "method-copy"),
    "array:deepcopy": ("array", "deep", "deepcopy"), "array:pickle": ("array", "deep", "pickle"), "array:str": ("array", "shallow", "str"),
    "array:reconstruct": ("array", "shallow", "reconstruct"),
    "array:in_base-of-base-unit": ("array", "shallow", "unit.copy"), "array:in_mks-of-base-unit": ("array", "shallow", "unit.copy"),
    "array:in_cgs-of-base-unit": ("array", "shallow", "unit.copy"), "array:in_base-code-of-code-unit": ("array", "shallow", "unit.copy"),
    "array:convert_to_base-of-base-unit": ("array", "shallow", "unit.copy"),
    "unit:unit.copy": ("unit", "shallow", "unit.copy"), "unit:copy.copy": ("unit", "shallow", "copy.copy"),
    "unit:unit.copy-deep": ("unit", "deep", "deepcopy"), "unit:deepcopy": ("unit", "deep", "deepcopy"), "unit:pickle": ("unit", "deep", "pickle"),
    "unit:str": ("unit", "shallow", "str"), "unit:get_base_equivalent-of-base-unit": ("unit", "shallow", "unit.copy"),
    "unit:get_mks-or-cgs_equivalent-of-base-unit": ("unit", "shallow", "unit.copy"),
    "registry:reg-copy": ("registry", "shallow", "copy.copy"), "registry:reg-deepcopy": ("registry", "deep", "deepcopy"),
    "registry:reg-pickle": ("registry", "deep", "pickle"), "registry:json": ("registry", "deep", "json"),
}
SH_BASE_ROUTES = {"array:in_base-of-base-unit": "sys", "array:in_mks-of-base-unit": "mks", "array:in_cgs-of-base-unit": "cgs",
                  "array:in_base-code-of-code-unit": "code", "array:convert_to_base-of-base-unit": "sys",
                  "unit:get_base_equivalent-of-base-unit": "sys", "unit:get_mks-or-cgs_equivalent-of-base-unit": "sys"}
SH_RELS = ("same-registry", "shared-table", "independent")
SH_WARM = ("before", "after-original", "after-duplicate", "after-both", "never")


def sh_questions(focus, sfx, nq=None, r=None):
    qs = []
    for F in focus:
        T = F + sfx
        qs += [["to", T], ["in_units", "k" + T], ["to", F + "**1" + sfx], ["to_value", T], ["convert_to_units", T], ["add-q", T], ["div-q", T],
               ["unit", T], ["unit", F + "/s"], ["unit", "k" + F], ["unit", F], ["q-in_mks", T], ["q-in_base", "M" + T], ["reg-getitem", F],
               ["reg-getitem", "k" + F], ["reg-contains", F], ["conv-factor", T], ["array-ctor", T], ["to-unit-object", T], ["lut-entry", F]]
    qs += [["in_mks"], ["in_cgs"], ["in_base"], ["in_base-code"], ["eq-reparsed"], ["list_same_dimensions"], ["units-snapshot"], ["to-own-string"],
           ["prefixable_units"], ["unit", "c11_new"], ["to", "c11_new" + sfx]]
    if nq is not None and len(qs) > nq:
        keep = sorted(r.sample(range(len(qs)), nq))
        qs = [qs[i] for i in keep]
    return qs


def sh_edit(r, F, kind):
    dk, dattr, pre = SH_FOCUS[F]
    v = r.choice([5.0, 0.125, 7.5e3, 3.0e-4, 42.0])
    if kind == "modify":
        return ["modify", F, v]
    if kind == "modify-quantity":
        return ["modify-quantity", F, v, SH_BASE["mks"][dk]]
    if kind == "re-add":
        return ["add", F, v, dattr, pre, None]
    if kind == "re-add-prefixable-flipped":
        return ["add", F, v, dattr, not pre, None]
    if kind == "add-new":
        return ["add", "c11_new", v, dattr, False, None]
    if kind == "remove":
        return ["remove", F]
    raise RuntimeError(kind)


SH_EDIT_KINDS = ("modify", "modify-quantity", "re-add", "re-add-prefixable-flipped", "add-new", "remove")


def sh_history(r, regkind, route, F, edits, warm, order, obj_unit=None, nq=None, focus2=None):
    """edits: list of (edit kind, through).  warm: one of SH_WARM (which side parses the question strings, and when)"""
    dk = SH_FOCUS[F][0]
    sysname = "cgs" if regkind == "cgs" else "mks"
    want = SH_BASE_ROUTES.get(route)
    sfx = r.choice(SH_SUFFIX[dk])
    if want is not None:        # the route duplicates only an object that already is in the base unit of the system asked for
        sfx = ""
        obj_unit = SH_CODE[dk] if want == "code" else SH_BASE[sysname if want == "sys" else want][dk]
    elif obj_unit is None:
        obj_unit = r.choice(SH_OBJ_UNITS[dk])
    focus = [F] + ([focus2] if focus2 and focus2 != F and SH_FOCUS[focus2][0] == dk else [])
    qs = sh_questions(focus, sfx, nq, r)
    allq = list(range(len(qs)))
    wq = allq if r.random() < 0.6 else sorted(r.sample(allq, max(1, len(allq) // 2)))
    steps = []
    if warm == "before":
        steps.append(["warm", "original", wq])
    steps.append(["duplicate"])
    if warm in ("after-original", "after-both"):
        steps.append(["warm", "original", wq])
    if warm in ("after-duplicate", "after-both"):
        steps.append(["warm", "duplicate", wq])
    for i, (ek, through) in enumerate(edits):
        steps.append(["edit", through, sh_edit(r, F if i % 2 == 0 or len(focus) == 1 else focus[1], ek)])
        if i + 1 < len(edits) and r.random() < 0.5:
            steps.append(["warm", r.choice(["original", "duplicate"]), sorted(r.sample(allq, max(1, len(allq) // 3)))])
    shape = r.choice([[], [2], [3]])
    n = int(np.prod(shape)) if shape else 1
    dtype = r.choice(["float64", "float64", "float32", "int64"])      # (in_base & co. hand back floating-point data: they duplicate float64 objects only)
    return {"reg": regkind, "regp": mk_regp(r), "route": route,
            "unit": obj_unit + sfx, "dtype": dtype if want is None else "float64", "shape": shape,
            "vals": [r.choice(VALS[1:]) for _ in range(n)], "proto": r.choice([2, 3, 4, 5]), "steps": steps, "questions": qs,
            "order": order, "focus": focus, "warm": warm, "edits": [[ek, th] for ek, th in edits]}


def shared_histories(tier, seed):
    """enumerated core: every route x edit kind, the (through, warm, order) combination rotating with the index and the seed, and always
    the combination 'used before duplicating, edited through one side'.  thorough: the full product."""
    r = core.rng(0, "C11-shared")
    out = []
    routes = sorted(SH_ROUTES)
    combos = [(th, w, o) for th in ("original", "duplicate", "both") for w in SH_WARM for o in ("original-first", "duplicate-first", "interleaved")]
    focus_cycle = sorted(SH_FOCUS)
    i = 0
    for regkind in (("custom",) if tier == "quick" else ("custom", "cgs", "custom-mod", "removed")):
        for route in routes:
            for ek in SH_EDIT_KINDS:
                i += 1
                F = "code_length" if (i + seed) % 3 == 0 else focus_cycle[(i + seed) % len(focus_cycle)]
                if tier == "quick":
                    th, w, o = combos[(7 * i + seed) % len(combos)]
                    picks = [(th, w, o), (("original", "duplicate")[(i + seed) % 2], "before", ("duplicate-first", "original-first", "interleaved")[(i + seed) % 3])]
                elif regkind == "custom":
                    picks = combos
                else:
                    picks = [combos[(7 * i + j + seed) % len(combos)] for j in range(0, len(combos), 9)] + [("original", "before", "duplicate-first"),
                                                                                                         ("duplicate", "before", "original-first")]
                for (th, w, o) in picks:
                    out.append(sh_history(r, regkind, route, F, [(ek, th)], w, o))
    return out


def random_histories(tier, seed, n, i):
    r = core.rng(seed, "C11-shared-random", i)
    out = []
    for _ in range(n):
        regkind = r.choice(["custom", "custom", "custom-mod", "cgs", "removed"])
        route = r.choice(sorted(SH_ROUTES))
        F = r.choice(sorted(SH_FOCUS))
        same = [s for s in SH_FOCUS if SH_FOCUS[s][0] == SH_FOCUS[F][0] and s != F]
        edits = [(r.choice(SH_EDIT_KINDS), r.choice(["original", "duplicate", "original", "duplicate", "both"])) for _ in range(r.randint(1, 4))]
        out.append(sh_history(r, regkind, route, F, edits, r.choice(SH_WARM + ("before",)), r.choice(["original-first", "duplicate-first", "interleaved"]),
                              nq=r.choice([12, 20, None]), focus2=r.choice(same) if same and r.random() < 0.5 else None))
    return out


def sh_ask(unyt, o, q):
    """one question put to the object o; unit strings are resolved in o's own registry"""
    reg = o.units.registry
    U, uq = unyt.Unit, unyt.unyt_quantity
    k = q[0]
    s = q[1] if len(q) > 1 else None
    if k == "to": return lambda: o.to(s)
    if k == "in_units": return lambda: o.in_units(s)
    if k == "to_value": return lambda: o.to_value(s)
    if k == "convert_to_units": return lambda: (lambda c: (c.convert_to_units(s), c)[1])(o.copy())
    if k == "add-q": return lambda: o + uq(1.0, s, registry=reg)
    if k == "div-q": return lambda: (o / uq(2.0, s, registry=reg)).to("")
    if k == "unit": return lambda: U(s, registry=reg)
    if k == "q-in_mks": return lambda: uq(1.0, s, registry=reg).in_mks()
    if k == "q-in_base": return lambda: uq(1.0, s, registry=reg).in_base()
    if k == "reg-getitem": return lambda: float(reg[s][0])
    if k == "reg-contains": return lambda: s in reg
    if k == "conv-factor": return lambda: o.units.get_conversion_factor(U(s, registry=reg))
    if k == "array-ctor": return lambda: unyt.unyt_array(np.asarray(o.d), s, registry=reg).in_mks()
    if k == "to-unit-object": return lambda: o.to(U(s, registry=reg))
    if k == "lut-entry": return lambda: (lambda e: None if e is None else lut_entry(e))(reg.lut.get(s))
    if k == "in_mks": return lambda: o.in_mks()
    if k == "in_cgs": return lambda: o.in_cgs()
    if k == "in_base": return lambda: o.in_base()
    if k == "in_base-code": return lambda: o.in_base("code")
    if k == "eq-reparsed": return lambda: o.units == U(str(o.units), registry=reg)
    if k == "list_same_dimensions": return lambda: [x for x in reg.list_same_dimensions(o.units) if x in STATIC_ATOMS]
    if k == "units-snapshot": return lambda: o.units
    if k == "to-own-string": return lambda: o.to(str(o.units))
    if k == "prefixable_units": return lambda: sorted(reg.prefixable_units)
    raise RuntimeError("unknown question " + repr(q))


def sh_qclass(q):
    k = q[0]
    if k in ("to", "in_units", "to_value", "convert_to_units", "to-own-string", "array-ctor"):
        return "convert-by-name"
    if k in ("add-q", "div-q", "q-in_mks", "q-in_base"):
        return "fresh-quantity-by-name"
    if k in ("unit", "to-unit-object", "conv-factor", "eq-reparsed"):
        return "unit-from-string"
    if k in ("reg-getitem", "reg-contains", "lut-entry", "prefixable_units", "list_same_dimensions"):
        return "registry-lookup"
    if k in ("in_mks", "in_cgs", "in_base"):
        return "system:default-systems"
    if k == "in_base-code":
        return "system:code"
    return k


def sh_apply_edit(unyt, reg, e):
    D = unyt.dimensions
    try:
        if e[0] == "modify":
            reg.modify(e[1], e[2])
        elif e[0] == "modify-quantity":
            reg.modify(e[1], unyt.unyt_quantity(e[2], e[3]))
        elif e[0] == "add":
            reg.add(e[1], e[2], getattr(D, e[3]), prefixable=e[4], offset=e[5])
        elif e[0] == "remove":
            reg.remove(e[1])
        else:
            raise RuntimeError("unknown edit " + repr(e))
    except (unyt.exceptions.SymbolNotFoundError, unyt.exceptions.UnitParseError) as ex:
        return type(ex).__name__
    return None


def sh_duplicate(unyt, h, b):
    """-> (duplicate array, route said it was not applicable)"""
    route, x, u, reg = h["route"], b.x, b.x.units, b.x.units.registry
    mk = lambda unit: build_array(unyt, unit, h["vals"], h["dtype"], h["shape"])
    if route == "array:copy.copy": return copy.copy(x)
    if route == "array:method-copy": return x.copy()
    if route == "array:deepcopy": return copy.deepcopy(x)
    if route == "array:pickle": return pickle.loads(pickle.dumps(x, protocol=h["proto"]))
    if route == "array:str": return type(x)(np.array(x.d), str(x.units), registry=reg)
    if route == "array:reconstruct": return unyt.unyt_array(x) if h["shape"] else unyt.unyt_quantity(x)
    if route == "array:in_base-of-base-unit": return x.in_base()
    if route == "array:in_mks-of-base-unit": return x.in_mks()
    if route == "array:in_cgs-of-base-unit": return x.in_cgs()
    if route == "array:in_base-code-of-code-unit": return x.in_base("code")
    if route == "array:convert_to_base-of-base-unit":
        c = x.copy(); c.convert_to_base(); return c
    if route == "unit:unit.copy": return mk(u.copy())
    if route == "unit:copy.copy": return mk(copy.copy(u))
    if route == "unit:unit.copy-deep": return mk(u.copy(deep=True))
    if route == "unit:deepcopy": return mk(copy.deepcopy(u))
    if route == "unit:pickle": return mk(pickle.loads(pickle.dumps(u, protocol=h["proto"])))
    if route == "unit:str": return mk(unyt.Unit(str(u), registry=reg))
    if route == "unit:get_base_equivalent-of-base-unit": return mk(u.get_base_equivalent())
    if route == "unit:get_mks-or-cgs_equivalent-of-base-unit": return mk(u.get_cgs_equivalent() if h["reg"] == "cgs" else u.get_mks_equivalent())
    if route == "registry:reg-copy": return mk(unyt.Unit(h["unit"], registry=copy.copy(reg)))
    if route == "registry:reg-deepcopy": return mk(unyt.Unit(h["unit"], registry=copy.deepcopy(reg)))
    if route == "registry:reg-pickle": return mk(unyt.Unit(h["unit"], registry=pickle.loads(pickle.dumps(reg, protocol=h["proto"]))))
    if route == "registry:json": return mk(unyt.Unit(h["unit"], registry=unyt.UnitRegistry.from_json(reg.to_json())))
    raise RuntimeError("unknown route " + route)


def sh_tables_differ(la, lb):
    """symbols whose entries differ between two tables (lazily materialised SI-prefixed entries apart)"""
    out = []
    for k in set(la) | set(lb):
        ea, eb = la.get(k), lb.get(k)
        if ea is eb:
            continue
        if ea is None or eb is None:
            if not derived_prefixed(k, la if eb is None else lb):
                out.append(k)
        elif not (ea[0] == eb[0] and (ea[1] is eb[1] or ea[1] == eb[1]) and tuple(ea[2:]) == tuple(eb[2:])):
            out.append(k)
    return sorted(out)


def sh_child(h):
    import warnings
    warnings.simplefilter("ignore")
    import unyt
    b = Built()
    b.reg = build_registry(unyt, h)
    b.x = build_array(unyt, unyt.Unit(h["unit"], registry=b.reg), h["vals"], h["dtype"], h["shape"])
    qs = h["questions"]
    sides = {"original": b.x}
    out = {"edit_refusals": []}
    snap = None
    for st in h["steps"]:
        if st[0] == "duplicate":
            try:
                R = sh_duplicate(unyt, h, b)
            except Exception as e:
                out["duplicate_refused"] = type(e).__name__ + ": " + str(e)[:200]
                return out
            sides["duplicate"] = R
            ro, rd = b.x.units.registry, R.units.registry
            out["rel"] = "same-registry" if ro is rd else ("shared-table" if ro.lut is rd.lut else "independent")
            a, c = normunit(b.x.units), normunit(R.units)
            out["same_units"] = (a["s"] == c["s"] and a["dim"] == c["dim"] and fsame(a["bv"], c["bv"], False) and fsame(a["bo"], c["bo"], False))
            out["exact"] = a["bv"] == c["bv"] and a["bo"] == c["bo"]
            b.X = b.x       # the immediate oracle of the first workload: numbers, units, table entry by entry, unit system
            out["imm"], _, _ = immediate(unyt, {"kind": "array", "route": SH_ROUTES[h["route"]][2]}, b, R, None)
            snap = {"original": dict(ro.lut), "duplicate": dict(rd.lut)}
            edited = {"original": False, "duplicate": False}
        elif st[0] == "warm":
            o = sides[st[1]]
            for i in st[2]:
                outcome(sh_ask(unyt, o, qs[i]))
        elif st[0] == "edit":
            ro, rd = sides["original"].units.registry, sides["duplicate"].units.registry
            one_table = ro.lut is rd.lut
            targets = {"original": [ro], "duplicate": [rd], "both": [ro] if one_table and st[2][0] == "remove" else [ro, rd]}[st[1]]
            for t in targets:
                ref = sh_apply_edit(unyt, t, st[2])
                if ref:
                    out["edit_refusals"].append(ref)
            for s_ in (("original", "duplicate") if st[1] == "both" or one_table else (st[1],)):
                edited[s_] = True
    ro, rd = sides["original"].units.registry, sides["duplicate"].units.registry
    out["rel_end"] = "same-registry" if ro is rd else ("shared-table" if ro.lut is rd.lut else "independent")
    out["tables_differ"] = sh_tables_differ(ro.lut, rd.lut)[:6]
    # isolation: a side whose registry nobody edited still holds the table it had when it was duplicated
    out["isolation"] = {s_: (None if edited[s_] else sh_tables_differ(snap[s_], sides[s_].units.registry.lut)[:6]) for s_ in ("original", "duplicate")}
    # the outcome implied by the current table: a brand-new registry holding a copy of it (taken before the questions are asked)
    fresh = {}
    for s_ in ("original", "duplicate"):
        o = sides[s_]
        reg = o.units.registry
        if s_ == "duplicate" and reg.lut is ro.lut and normunit(o.units) == normunit(sides["original"].units) and o.dtype == sides["original"].dtype:
            continue       # one table, equal objects: one reference vector serves both
        fr = unyt.UnitRegistry(add_default_symbols=False, lut=dict(reg.lut), unit_system=reg.unit_system)
        fu = unyt.Unit(str(o.units.expr), base_value=o.units.base_value, base_offset=o.units.base_offset, dimensions=o.units.dimensions, registry=fr)
        fresh[s_] = type(o)(np.array(o.d), fu)
    vec = {"original": [None] * len(qs), "duplicate": [None] * len(qs)}
    first, second = ("duplicate", "original") if h["order"] == "duplicate-first" else ("original", "duplicate")
    f0 = (_fingerprint(sides["original"]), _fingerprint(sides["duplicate"]))
    if h["order"] == "interleaved":
        for i, q in enumerate(qs):
            for s_ in ((first, second) if i % 2 == 0 else (second, first)):
                vec[s_][i] = outcome(sh_ask(unyt, sides[s_], q))
    else:
        for s_ in (first, second):
            for i, q in enumerate(qs):
                vec[s_][i] = outcome(sh_ask(unyt, sides[s_], q))
    if (_fingerprint(sides["original"]), _fingerprint(sides["duplicate"])) != f0:
        raise RuntimeError("harness: a question changed one of the two objects")
    out["vec"] = vec
    out["fresh"] = {s_: [outcome(sh_ask(unyt, o, q)) for q in qs] for s_, o in fresh.items()}
    return out


def judge_history(rec, h):
    route = h["route"]
    kind, depth, rkey = SH_ROUTES[route]
    ident = {"route": route, "registry": h["reg"], "unit": h["unit"], "dtype": h["dtype"], "shape": h["shape"], "vals": h["vals"], "proto": h["proto"],
             "steps": [s if s[0] != "warm" else [s[0], s[1], len(s[2])] for s in h["steps"]], "order": h["order"],
             "regp": {k: h["regp"][k] for k in ("L", "foo", "M", "T", "K", "degXs", "degXo")}}
    rec.count("history:histories")
    res = fork_call(lambda: sh_child(h))
    rec.count("forks:history")
    if "harness_error" in res:
        raise RuntimeError(f"harness error in history child of {ident}: " + res["harness_error"])
    if res.get("watchdog"):
        rec.count("inconclusive-cases:watchdog"); return
    pre = f"C11:{rkey}:{kind}:history-after-duplicating"
    if "duplicate_refused" in res and route in SH_BASE_ROUTES:
        rec.note("history:route-did-not-duplicate:" + route); return
    if "duplicate_refused" in res:
        rec.violation(f"{pre}:duplicating-refused", f"{route} of an object in {h['unit']} ({h['reg']} registry) raised {res['duplicate_refused']}", ident)
        return
    if route in SH_BASE_ROUTES and not res["same_units"]:       # the object was not in the base unit after all: a conversion, not a duplicate
        rec.note("history:route-did-not-duplicate:" + route); return
    if res["imm"]:      # not the same right after duplicating: the violation of the immediate oracle (same keys as in the first workload)
        for (op, k, text) in res["imm"]:
            rec.violation(f"C11:{rkey}:{kind}:{op}:{k}", f"{route} of an object in {h['unit']} ({h['reg']} registry): {text}", ident)
        rec.count("history:not-the-same-right-after-duplicating")
        return
    rel = res["rel"]
    rec.count("history:rel:" + rel)
    edits = "+".join(sorted({e[0] for e in h["edits"]}))
    through = "+".join(sorted({e[1] for e in h["edits"]}))
    cellbase = (route, rel, "warm-" + h["warm"], "edit-" + edits, "through-" + through)
    if depth == "deep" and rel != "independent":
        rec.violation(f"{pre}:deep-route-shares-the-registry:{rel}", f"{route} ({h['reg']} registry) is a deep route but original and duplicate are {rel}", ident)
    elif depth == "deep":
        rec.ok(cellbase + ("deep-route-independent",))
    exact = res["exact"]
    # isolation
    for s_, d in res["isolation"].items():
        if d is None:
            continue
        rec.count("history:isolation")
        if d:
            rec.violation(f"{pre}:{rel}:table-of-the-side-nobody-edited-changed", f"{route} ({h['reg']} registry): nobody edited the registry of the {s_} "
                          f"but its entries for {d} are not what they were when the duplicate was made", ident)
        else:
            rec.ok(cellbase + ("isolation:" + s_,))
    qs = h["questions"]
    show = lambda o_: json.dumps({k: v for k, v in o_.items() if k != "dt"})[:260]
    hist = f"history {ident['steps']}, questions asked {h['order']}"
    one_contents = not res["tables_differ"]
    if rel != "independent" and not one_contents:
        raise RuntimeError(f"harness: one table but contents differ: {res['tables_differ']} in {ident}")
    if rel != "independent" and h["warm"] in ("before", "after-original", "after-duplicate", "after-both") and through in ("original", "duplicate"):
        rec.count(f"history:{rel}:used-{'before' if h['warm'] == 'before' else 'after'}-duplicating:edited-through-one-side")
    vo, vd = res["vec"]["original"], res["vec"]["duplicate"]
    if one_contents:
        n = 0
        for q, a, c in zip(qs, vo, vd):
            d = differ(a, c, exact)
            n += 1
            if d:
                rec.violation(f"{pre}:{rel}:original-and-duplicate-with-equal-tables-answer-differently:{sh_qclass(q)}:{d}",
                              f"{route} of an object in {h['unit']} ({h['reg']} registry; the two registries are {rel} and hold the same contents); {hist}: "
                              f"{q} on the original gives {show(a)}, on the duplicate {show(c)}", ident)
            else:
                rec.ok(cellbase + ("original-vs-duplicate", sh_qclass(q)))
        rec.count("history:original-vs-duplicate:" + rel, n)
    else:
        rec.count("history:tables-differ-after-history")
    n = 0
    for s_, v in (("original", vo), ("duplicate", vd)):
        fv = res["fresh"].get(s_) or res["fresh"]["original"]
        for q, a, f in zip(qs, v, fv):
            if q[0] == "in_base-code":
                continue      # which unit system 'code' names is decided by registry.unit_system_id (outside the statement); judged between the two sides only
            d = differ(f, a, exact)
            n += 1
            if d:
                rec.violation(f"{pre}:{rel}:answer-not-the-one-a-new-registry-with-the-same-table-gives:{s_}:{sh_qclass(q)}:{d}",
                              f"{route} of an object in {h['unit']} ({h['reg']} registry, {rel}); {hist}: {q} on the {s_} gives {show(a)}; a new registry "
                              f"holding a copy of its current table gives {show(f)}", ident)
            else:
                rec.ok(cellbase + ("vs-new-registry:" + s_, sh_qclass(q)))
    rec.count("history:vs-new-registry:" + rel, n)
    rec.count("history:judged")
    rec.reach("history:" + route)
    rec.reach("history:registry:" + h["reg"])
    for e in res["edit_refusals"]:
        rec.note("history:edit-refused:" + e)
    rec.sample({"history": ident, "relation": rel, "questions": len(qs)}, limit=1)


def worker(batch, rec):
    import unyt  # noqa: F401  (the forks below start from this import-time state)
    bid, payload = batch
    if "hist" in payload or "hgen" in payload:
        for h in (payload["hist"] if "hist" in payload else random_histories(*payload["hgen"])):
            judge_history(rec, h)
        return
    tmpdir = tempfile.mkdtemp(prefix="c11-run-")
    try:
        if "ogen" in payload:
            c11_options.run_batch(rec, payload, tmpdir)
            return
        cases = payload["cases"] if "cases" in payload else random_cases(*payload["gen"])
        for case in cases:
            judge_case(rec, case, tmpdir)
    finally:
        shutil.rmtree(tmpdir, ignore_errors=True)


def extra(tier, seed, results):
    counters = {}
    for _, r in results:
        for k, v in (r.get("counters") or {}).items():
            counters[k] = counters.get(k, 0) + v
    sub = {}
    starving = []
    for kind, route in ROUTE_CLASSES:
        n_i = counters.get(f"immediate:{kind}:{route}", 0)
        n_b = counters.get(f"behavioural:{kind}:{route}", 0)
        sub[f"{kind}:{route}"] = {"cases": counters.get(f"cases:{kind}:{route}", 0), "immediate": n_i, "behavioural": n_b,
                                  "write_refusals": counters.get(f"write-refusals:{kind}:{route}", 0)}
        if n_i == 0 or n_b == 0:
            starving.append(f"{kind}:{route}")
    hist_keys = (["history:judged", "history:isolation", "history:shared-table:used-before-duplicating:edited-through-one-side",
                  "history:shared-table:used-after-duplicating:edited-through-one-side"]
                 + ["history:original-vs-duplicate:" + rel for rel in SH_RELS] + ["history:vs-new-registry:" + rel for rel in SH_RELS])
    sub["histories-after-duplicating"] = {k: counters.get(k, 0) for k in ["history:histories", "history:tables-differ-after-history"] + hist_keys}
    sub["options-of-the-persistence-doors"], options_blind = c11_options.gate(counters)
    known = core.load_findings()
    any_violation = any(k not in known for _, r in results for k in (r.get("viol") or {}))
    if not any_violation:        # a run that reports new violations is decided; "saw nothing" only matters when nothing new was found
        if starving:
            raise core.Inconclusive("sub-monitor-saw-nothing:" + ",".join(starving))
        for m in ("x", "r", "xr", "rx", "m", "history", "options-writer", "options-reader"):
            if counters.get("forks:" + m, 0) == 0:
                raise core.Inconclusive("no-fork-in-mode-" + m)
        blind = [k for k in hist_keys if counters.get(k, 0) == 0]
        if blind:
            raise core.Inconclusive("history-sub-monitor-saw-nothing:" + ",".join(blind))
        if options_blind:
            raise core.Inconclusive("options-sub-monitor-saw-nothing:" + ",".join(options_blind))
        wd = counters.get("inconclusive-cases:watchdog", 0)
        if wd > 0.02 * max(1, counters.get("cases", 0)):
            raise core.Inconclusive(f"watchdog-on-{wd}-cases")
    return {"sub_monitors": sub, "starving_sub_monitors": starving,
            "unreached": ["unyt_array.write_hdf5 / from_hdf5 (h5py is not installed: the HDF5 route cannot be executed)",
                          "unyt_dask_array.__reduce__ (dask is not installed)",
                          "pickle protocols 0 and 1 (writing is refused: SymPy raises NotImplementedError for arrays, copyreg raises TypeError for a bare Unit / "
                          "registry with cached units; there is nothing to restore - the refusals are counted under notes)",
                          "_correct_old_unit_registry 4-tuple branch (registries written by unyt < 2.0 / yt 3: no such file can be produced by this tree)"]}
