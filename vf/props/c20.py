"""C20 - the unit-string interface is total, canonical and re-readable.

Sub-monitors (each has its own counters; a deciding one that saw nothing makes the run INCONCLUSIVE):
  tot   exception class escaping Unit(<str>) and the other string entry points (only UnitParseError may)
  sbx   audit events + callables invoked by the compiled unit expression while a string is parsed (vf/monitors/c20_sandbox.py)
  rr    Unit(str(u)) / Unit(repr(u)) against u: dimension vector, offset, scale, and expression + hash when coefficient-free
  sp    equivalent spellings of one expression tree give equal units
  gr    compounds of individually accepted names under the documented grammar are accepted and have the scale/dimension
        computed by an independent evaluation of the tree (vf/ref/defs.py + names.py)
  txt   the printed text of a unit, read by the independent evaluator vf/ref/uexpr.py, denotes the unit's scale/dimension
  per   persistence routes that store str(units): pickle, savetxt/loadtxt, unyt_array(..., registry=), deepcopy
  nf    powers whose exponent is nearly but not exactly a simple fraction (decimal floats with 6-12 digits, narrow NumPy scalars, Fractions with
        huge denominators, Decimals, strings, sympy numbers; vf/gen/c20_nearfrac.py) of units whose scale is not 1: the exponent the result prints
        and the scale/dimension it carries must be the same power of the base (no parser involved), then rr/txt/per on the result and on the
        results of further arithmetic on it
"""
import math, os, re, io, pickle, copy, tempfile
from fractions import Fraction as Fr
from vf import core
from vf.ref import dims, defs, names, uexpr
from vf.gen import c20_strings as G
from vf.monitors import c20_sandbox as sbx
from .common import all_names, chunks, TAINTED

RULE = ("one evaluation = one judged observation of the string interface: (tot) exception class of one entry point on one string; "
        "(sbx) audit events and callables invoked while one string is parsed; (rr) one reparse of str(u) or repr(u) compared with u "
        "(dimension vector, offset, scale, and expression+hash when u has no numeric coefficient); (sp) one alternative spelling "
        "compared with the canonical spelling of the same tree; (gr) one grammar-valid compound compared with an independent "
        "evaluation of its tree; (txt) one printed unit read by the independent evaluator; (per) one persistence route; (nf) one power "
        "base**p with p nearly a simple fraction: scale and dimension of the result against the base's to the exponent the result prints. "
        "distinct = (sub-monitor, structural class of the string or unit, entry point / spelling dimension / route, outcome class) "
        "- structural classes are tree shapes, unit-expression classes, hostile-template families and mutation categories, never values")
ASSUMPTIONS = (
    "trusted base: vf/ref/defs.py + names.py (independent definitions and name resolution) and vf/ref/uexpr.py (independent reader); "
    "sympy's structural equality of expressions; CPython's audit events and sys.monitoring CALL events",
    "the constructor names Symbol/Integer/Float/Rational that the parser itself emits, and sqrt, are the parser's own vocabulary: "
    "a user string calling them is not an evaluation outside the vocabulary; any other callable invoked by the compiled expression is",
    "audit events of the import machinery for files under the interpreter's library roots (sympy imports sub-modules lazily) and "
    "linecache probing the synthetic file name '<string>' are the parser's own; a second compile/exec of '<string>' is a nested eval",
    "'same scale up to rounding': 4 ulp per factor; when the printed form carries a floating-point coefficient the printer's "
    "15-significant-digit decimal rounding is rounding too (1e-14 relative)",
    "reparse is done cold: the registry's string cache entry for the printed text is dropped first, as in a process that reads persisted text",
    "hash equality is demanded only for reparses in the same registry (the hash mixes in the registry id, which is C11/C13's subject)",
    "strings that hang (per-string timer) or are fork-isolated arithmetic bombs killed by the deadline are reported as hangs, never violations",
    "names of a custom registry that are not Python identifiers or that shadow the parser vocabulary are not obtainable from strings: not judged",
    "documented names that the parser rejects on their own are C14's subject (known finding word-prefix+degree sign): noted, and such names "
    "are not used as atoms of compounds",
    "other entry points (array constructors, conversions, from_string, loadtxt header) are judged for the exception class only when "
    "the string itself is not a unit (Unit(s) raised): once a unit was constructed, conversion errors are C01/C03's subject; "
    "from_string's own ValueError('invalid quantity expression') is its documented gate and allowed",
    "a re-read unit is judged aspect by aspect in the order dimension, offset, scale, ==, expression, hash and only the first failing aspect is reported "
    "(one key per mechanism); units whose plain str->parse round trip already fails are not reported again for every persistence route",
    "mechanism classes override the structural class of a unit in keys: huge-integer (> CPython's 4300-digit int->str limit), pow-nonreal-exponent, "
    "negative-scale-root, offset-compound, internal-constructor-text, noncanonical-micro; an offset-free unit printing as the symbol of an offset unit is keyed "
    "by the arithmetic operation after which that state first appeared",
    "for the other entry points only evaluations nested inside the unit expression and calls made by it are sandbox-judged: those entry points do their own "
    "I/O and lazy imports around the parse",
    "Unit(bytes) is part of the string interface (the constructor decodes bytes itself, HDF5 attributes come back as bytes)",
    "non-finite or zero scales (1e400*m, 0*m) are accepted by the constructor: the statement does not forbid them; noted",
    "float range (same policy as C03): when the factor-by-factor computation of a scale leaves the normal double range (sum of |log10 scale_i * exponent_i| > 290, "
    "non-finite, zero or denormal result: YL**18/EΩ**18 is nan, l_pl**9 is denormal) overflow and denormals decide the number, not the string interface: "
    "scale and == are not judged for that unit (counted as discarded:scale-out-of-float-range); dimension, offset, expression and hash still are",
    "spellings: only the equivalences the statement lists (spacing, **-1 vs 1/, float vs rational exponents, sqrt forms, micro/ohm/angstrom/degree signs); "
    "equal = == plus same dimension vector, offset and scale; differing expressions between spellings are noted, not judged",
    "lat has a negative scale (-pi/180) although every unit symbol is declared positive to sympy (sqrt(lat**2) simplifies to lat): the sign of the scale of "
    "compounds containing lat is not judged against the independent tree value; roots of lat have no real scale and need not be accepted",
    "x**p is evaluated as exp(p ln x) in double precision by both the library and the reference readers: tolerances carry a term |ln scale| ulps, and for units "
    "built by arithmetic a budget of roundings accumulated along the recorded history",
    "symbols with a listed C02 value finding (Tsun, Mearth, ly, mp) are excluded from value comparisons against the reference table",
    "near-fraction exponents (nf): which rational the library turns an exponent into (str() then limit_denominator: 0.3333333 -> 1/3, np.float16(0.1) -> 1/10) "
    "is not C20's subject and is only noted; judged is that ONE exponent governs what is printed, the dimension and the scale: ln(scale(result)) = e * ln(scale(base)) "
    "for the exponent e read off the result's expression, within (32 + 8|e ln s| + 8|ln s|max(1,|e|)) eps; bases are coefficient-free units built from strings "
    "whose scale is positive and not 1 and that have no offset and are not logarithmic (those refuse powers)",
    "mechanism class simplify-of-exponent-denominator>1e6 overrides the structural class in keys for units with a simplify() of an expression carrying an exponent "
    "whose denominator exceeds 10**6 in their history (simplify() rebuilds factors through Unit.__pow__, which moves such exponents; array multiplication and division call simplify() on the result unit)",
    "nf tolerances: the rounding budget of a power and of every further step carries 2 * sum over the symbols of |exponent * ln scale| ulps (factor-by-factor exp(p ln x)), "
    "not only |ln| of the total scale: a compound whose scale is near 1 still carries the roundings of its large factors",
    "nf: exponent types NumPy's power does not take for arrays (str, Decimal, Fraction, sympy numbers) are driven through Unit.__pow__ only; a power the library "
    "refuses is noted (nf:power-refused:<form>:<kind>:<exception>), not judged - refusing an exponent type is not a string-interface matter",
)
MIN_EVALS = 100000
TIMEOUT = 1500
EPS = 2.220446049250313e-16

ENTRY_POINTS = ["Unit(str,registry=)", "Unit(bytes)", "unyt_array(list,str)", "unyt_quantity(float,str)", "q.to(str)", "q.in_units(str)",
                "q.convert_to_units(str)", "q.to_value(str)", "unyt_quantity.from_string", "loadtxt-header", "q.to_equivalent(str,'spectral')"]
PERSIST_ROUTES = ["pickle", "savetxt/loadtxt", "unyt_array(data,Unit,registry=)", "unyt_array(unyt_array,registry=)", "deepcopy(array)", "Unit.copy"]
ARITH_OPS = ["mul", "rmul", "div", "rdiv", "pow-int", "pow-fraction", "pow-float", "pow-numpy", "pow-string", "pow-near-fraction", "simplify", "base-equivalent", "cgs-equivalent", "mks-equivalent",
             "system-equivalent", "as_coeff_unit", "quantity-mul", "quantity-sqrt", "quantity-pow", "in_base", "in_cgs", "Unit(quantity)", "rtruediv"]
SUBMON = ["tot", "sbx", "rr.str", "rr.repr", "sp", "gr", "txt", "per", "nf", "nf.followup"]


# ------------------------------------------------------------------------------------------------ context
class Ctx:
    pass


CUSTOM = [  # name, scale, dimension spec (vf.ref.dims), prefixable
    ("code_length", 3.0856775814913673e21, "L", False), ("code_mass", 1.98841586e41, "M", False), ("code_time", 3.15576e13, "T", True),
    ("code_velocity", 1.0e5, "L T-1", False), ("foo", 2.0 ** 12, "T", False), ("smoot", 1.7018, "L", True), ("lambda", 5.0e-7, "L", False),
    ("as", 2.0 ** 24, "M", False), ("is", 2.0 ** -12, "T", False), ("pi", 3.0, "L", False), ("E", 7.0, "M", False), ("I", 11.0, "I", False),
    ("x_1", 13.0, "K", False), ("_u", 0.25, "A", False), ("ħ", 1.054571817e-34, "M L2 T-1", False), ("λ0", 6.5e-7, "L", False),
    ("sqrtx", 2.0, "T", False), ("Symbolic", 4.0, "L", False), ("e3", 8.0, "M", False), ("j", 16.0, "T", False),
]
UNPARSEABLE_CUSTOM = ["Float", "sqrt", "Symbol", "Integer", "Rational", "a-b", "my unit", "2x", "m/s", "a.b"]


def make_ctx():
    import unyt
    import sympy
    import numpy as np
    c = Ctx()
    c.unyt, c.sympy, c.np = unyt, sympy, np
    c.Unit = unyt.Unit
    c.UPE = unyt.exceptions.UnitParseError
    c.UnytError = unyt.exceptions.UnytError
    c.default_reg = unyt.unit_registry.default_unit_registry
    sbx.install()
    c.res_default = names.resolver()
    c._micro = {}
    return c


def custom_registry(c):
    """a registry with user-defined names (+ all default symbols) and the matching independent resolver"""
    unyt = c.unyt
    reg = unyt.UnitRegistry()
    D = unyt.dimensions
    dmap = {"L": D.length, "M": D.mass, "T": D.time, "K": D.temperature, "A": D.angle, "I": D.current_mks}
    extra = {}
    for name, scale, spec, pre in CUSTOM:
        e = 1
        for tok in spec.split():
            m = re.fullmatch(r"([A-Z]+)(-?\d+)?", tok)
            e = e * dmap[m.group(1)] ** int(m.group(2) or 1)
        reg.add(name, scale, e, prefixable=pre)
        extra[name] = (scale, dims.D(spec))
        if pre:
            for p, f in (("k", 1e3), ("m", 1e-3), ("M", 1e6)):
                extra[p + name] = (scale * f, dims.D(spec))
    return reg, extra


def is_micro(c, name):
    v = c._micro.get(name)
    if v is None:
        v = False
        if len(name) > 1 and name[0] in "uµμ":
            r, r2 = names.resolve(name), names.resolve(name[1:])
            v = bool(r and r2 and r[1] == r2[1] and abs(r[0] / r2[0] - 1e-6) < 1e-20)
        c._micro[name] = v
    return v


def udims(u):
    try:
        return dims.of_expr(u.dimensions)
    except Exception:
        return None


# ------------------------------------------------------------------------------------------------ structural classes of units
def expr_info(c, u):
    """-> (class label, coefficient_free, n symbol factors, has float coefficient) read off the unit's expression tree"""
    sp = c.sympy
    e = u.expr
    flags = []
    syms = sorted(e.free_symbols, key=lambda s: s.name) if hasattr(e, "free_symbols") else []
    n = max(1, len(syms))
    has_float = bool(e.atoms(sp.Float)) if hasattr(e, "atoms") else False

    def walk(x):
        if isinstance(x, sp.Symbol):
            return True
        if isinstance(x, sp.Pow):
            return isinstance(x.args[0], sp.Symbol) and isinstance(x.args[1], sp.Number)
        if isinstance(x, sp.Mul):
            return all(walk(a) for a in x.args)
        return False
    nonreal = any(isinstance(a, sp.Pow) and a.args[1].is_real is not True for a in sp.preorder_traversal(e)) if hasattr(e, "args") else False
    if nonreal:
        cls, free = "pow-nonreal-exponent", False
    elif e is sp.S.One or e == 1 and isinstance(e, sp.Integer):
        cls, free = "one", True
    elif isinstance(e, sp.Symbol):
        cls, free = "atom", True
    elif isinstance(e, sp.Number):
        cls, free = "pure-number", False
    elif walk(e):
        cls, free = ("pow" if isinstance(e, sp.Pow) else "mul"), True
        if any(isinstance(a, sp.Pow) and not a.args[1].is_Integer for a in ([e] if isinstance(e, sp.Pow) else e.args)):
            cls += "-frac"
    else:
        free = False
        co = e.as_coeff_Mul()[0] if hasattr(e, "as_coeff_Mul") else None
        irr = any(isinstance(a, sp.Pow) and isinstance(a.args[0], sp.Number) for a in sp.preorder_traversal(e))
        if irr:
            cls = "coeff-irrational"
        elif has_float:
            cls = "coeff-float"
        elif co is not None and co.is_Integer:
            cls = "coeff-int"
        elif co is not None and co.is_Rational:
            cls = "coeff-rational"
        else:
            cls = "coeff-other"
    # one mechanism each, whatever the surrounding structure (priority order)
    huge = any(isinstance(a, sp.Rational) and max(abs(a.p).bit_length(), a.q.bit_length()) > 14000 for a in sp.preorder_traversal(e)) if hasattr(e, "args") else False
    offset_compound = False
    try:
        offset_compound = u.base_offset != 0.0 and not isinstance(e, sp.Symbol)
    except Exception:
        pass
    if huge:
        return "huge-integer", False, n, has_float           # beyond CPython's int->str digit limit
    if nonreal:
        return cls, free, n, has_float
    try:
        for b, ex in e.as_powers_dict().items():
            if isinstance(b, sp.Symbol) and not ex.is_Integer:
                r = names.ref_unit(b.name)
                if r is not None and r[0] < 0:
                    return "negative-scale-root", False, n, has_float     # lat (scale -pi/180) under a fractional power
    except Exception:
        pass
    if offset_compound:
        return "offset-compound", free, n, has_float          # offset unit times a dimensionless unit keeps the zero point
    if any(s.name[0] == "µ" or (s.name[0] == "u" and is_micro(c, s.name.replace("Ω", "ohm"))) for s in syms):
        return "noncanonical-micro", free, n, has_float       # symbol spelled with u / micro sign instead of greek mu
    try:
        if u.base_offset != 0.0:
            flags.append("offset")
    except Exception:
        pass
    if not math.isfinite(u.base_value) or u.base_value == 0.0:
        flags.append("degenerate-scale")
    return cls + "".join("+" + f for f in flags), free, n, has_float


# ------------------------------------------------------------------------------------------------ guarded parse: tot + sbx
INNER = re.compile(r"raised an error during parsing:\s*(\w+)\(")


def raise_site(e):
    """innermost function of the library under test on the traceback (structural part of a totality key)"""
    root = os.path.join(os.path.realpath(core.REPO), "unyt") + os.sep
    site = "outside-unyt"
    tb = e.__traceback__
    while tb is not None:
        co = tb.tb_frame.f_code
        if os.path.realpath(co.co_filename).startswith(root):
            site = getattr(co, "co_qualname", co.co_name)
        tb = tb.tb_next
    return site


def parse_guarded(c, rec, fn, entry, fam, text, judge_tot=True, limit=5.0):
    """run one string entry point under the sandbox observers; judge totality and sandbox.  -> (value or None, outcome)"""
    o = sbx.guarded(fn, limit)
    rec.count("sbx.guarded-calls")
    if o.hang:
        rec.count("tot.hang")
        rec.note(f"hang:{entry}:{fam}")
        rec.reach("hang-text:" + text[:40])
        return None, "hang"
    # ---- sandbox
    rec.count("sbx.own-compile", o.audit_own.get("compile", 0))
    rec.count("sbx.own-exec", o.audit_own.get("exec", 0))
    rec.count("sbx.import-machinery-events", o.audit_import)
    rec.count("sbx.vocab-calls", o.calls_vocab)
    rec.count("sbx.noncallable-calls", o.calls_noncallable)
    bad = False
    for label in sorted(set(o.audit_bad)):
        bad = True
        rec.violation(f"C20:sandbox:audit:{label}", f"{entry} on {text[:120]!r} ({fam}) raised audit event {label} while parsing", {"text": text[:400], "entry": entry})
    for q in sorted(set(o.calls_outside)):
        bad = True
        rec.violation(f"C20:sandbox:call-outside-vocabulary:{q}", f"{entry} on {text[:120]!r}: the compiled unit expression called {q}", {"text": text[:400], "entry": entry})
    if not bad:
        rec.ok(("sbx", fam, "compiled" if o.audit_own.get("exec") else "not-compiled", "calls" if o.calls_vocab else "nocalls"))
    # ---- totality
    if o.outcome == "ok":
        if judge_tot:
            rec.ok(("tot", entry, fam, "ok"))
        return o.value, "ok"
    e = o.exc
    if isinstance(e, c.UPE):
        m = INNER.search(str(e))
        if m:
            rec.reach("inner-exception:" + m.group(1))
        if judge_tot:
            rec.ok(("tot", entry, fam, "UnitParseError"))
        return None, "UnitParseError"
    if judge_tot:
        rec.violation(f"C20:totality:{entry}:{type(e).__name__}@{raise_site(e)}",
                      f"{entry} on {text[:160]!r} ({fam}) raised {type(e).__name__}: {str(e)[:200]}", {"text": text[:600], "entry": entry, "exception": type(e).__name__})
    return e, "other:" + type(e).__name__


def other_entries(c, rec, s, fam, base_outcome, which):
    """drive the other string entry points with s; judged for the exception class when s is not a unit (base outcome UnitParseError)"""
    unyt, np = c.unyt, c.np
    for entry in which:
        if entry == "Unit(str,registry=)":
            fn = lambda: c.Unit(s, registry=c.reg2)
        elif entry == "Unit(bytes)":
            try:
                b = s.encode("utf-8")
            except UnicodeEncodeError:
                continue
            fn = lambda: c.Unit(b)
        elif entry == "unyt_array(list,str)":
            fn = lambda: unyt.unyt_array([1.0, 2.0], s)
        elif entry == "unyt_quantity(float,str)":
            fn = lambda: unyt.unyt_quantity(1.0, s)
        elif entry == "q.to(str)":
            fn = lambda: unyt.unyt_quantity(1.0, "m").to(s)
        elif entry == "q.in_units(str)":
            fn = lambda: unyt.unyt_array([1.0, 2.0], "kg").in_units(s)
        elif entry == "q.convert_to_units(str)":
            fn = lambda: unyt.unyt_array([1.0, 2.0], "s").convert_to_units(s)
        elif entry == "q.to_value(str)":
            fn = lambda: unyt.unyt_quantity(1.0, "K").to_value(s)
        elif entry == "q.to_equivalent(str,'spectral')":
            fn = lambda: unyt.unyt_quantity(1.0, "m").to_equivalent(s, "spectral")
        elif entry == "unyt_quantity.from_string":
            fn = lambda: unyt.unyt_quantity.from_string("2.5 " + s)
        elif entry == "loadtxt-header":
            if re.search(r"\s|#", s) or not s or "\x00" in s:
                continue
            try:
                s.encode("utf-8")
            except UnicodeEncodeError:
                continue

            def fn(s=s):
                path = os.path.join(c.tmp, "h.txt")
                with open(path, "w", encoding="utf-8") as f:
                    f.write("# Units\n# " + s + "\n1.0\n2.0\n")
                return unyt.loadtxt(path)
        else:
            continue
        rec.reach("entry:" + entry)
        judged = base_outcome == "UnitParseError"
        # loadtxt opens its own file: the audit/IO observers are for the parser, so only the exception class is taken here
        if entry == "loadtxt-header":
            try:
                fn()
                out = "ok"
            except BaseException as e:
                out = e
            if judged:
                if out == "ok" or isinstance(out, c.UPE):
                    rec.ok(("tot", entry, fam, "ok" if out == "ok" else "UnitParseError"))
                else:
                    rec.violation(f"C20:totality:{entry}:{type(out).__name__}@{raise_site(out)}", f"{entry} with units text {s[:120]!r} raised {type(out).__name__}: {str(out)[:160]}", {"text": s[:400]})
            rec.count("tot.entry:" + entry)
            continue
        o = sbx.guarded(fn, 5.0)
        rec.count("tot.entry:" + entry)
        if o.hang:
            rec.count("tot.hang")
            continue
        # these entry points do their own work around the parse (conversions import lazily, loadtxt opens files): of the audit events
        # only an evaluation nested inside the unit expression is attributable to the string; the CALL tap is specific to it anyway
        for label in sorted(set(l for l in o.audit_bad if l.startswith("nested-"))):
            rec.violation(f"C20:sandbox:audit:{label}", f"{entry} on {s[:120]!r} ({fam}) raised audit event {label}", {"text": s[:400], "entry": entry})
        for q in sorted(set(o.calls_outside)):
            rec.violation(f"C20:sandbox:call-outside-vocabulary:{q}", f"{entry} on {s[:120]!r}: the compiled unit expression called {q}", {"text": s[:400], "entry": entry})
        if o.outcome == "ok":
            if judged:
                if entry in ("unyt_quantity.from_string",):
                    rec.note("entry-accepts-what-Unit-rejects:" + entry)   # from_string rewrites the text ('1'+unit, regex extraction)
                else:
                    rec.note("entry-accepts-what-Unit-rejects:" + entry)
            else:
                rec.ok(("tot", entry, fam, "ok"))
            continue
        e = o.exc
        if isinstance(e, c.UPE):
            rec.ok(("tot", entry, fam, "UnitParseError"))
        elif entry == "unyt_quantity.from_string" and isinstance(e, ValueError) and "invalid quantity expression" in str(e):
            rec.note("from_string-gate-ValueError")
        elif entry == "Unit(bytes)" or judged:
            rec.violation(f"C20:totality:{entry}:{type(e).__name__}@{raise_site(e)}", f"{entry} on {s[:160]!r} ({fam}) raised {type(e).__name__}: {str(e)[:200]}",
                          {"text": s[:600], "entry": entry, "exception": type(e).__name__})
        elif isinstance(e, c.UnytError):
            rec.note(f"post-parse-unyt-error:{entry}:{type(e).__name__}")
        else:
            rec.note(f"post-parse-other-error:{entry}:{type(e).__name__}")


def range_risky(c, u):
    """does computing u's scale factor by factor leave the normal float range (sum over the symbols of |log10(scale_i) * exponent_i| > 290)?
    then overflow/denormals decide the scale, not the string interface (same policy as C03: discarded, counted)"""
    extra = c.custom[1] if getattr(c, "custom", None) and u.registry is c.custom[0] else None
    try:
        pw = u.expr.as_powers_dict()
    except Exception:
        return False
    total = 0.0
    for b, e in pw.items():
        if not isinstance(b, c.sympy.Symbol):
            if isinstance(b, c.sympy.Number) and b != 0:
                try:
                    total += abs(math.log10(abs(float(b))) * float(e))
                except Exception:
                    return True
            continue
        nm = "percent" if b.name == "%" else b.name
        if extra and nm in extra:
            sc = extra[nm][0]
        else:
            r = names.ref_unit(nm)
            if r is None:
                continue
            sc = r[0]
        try:
            total += abs(math.log10(abs(sc)) * float(e))
        except Exception:
            return True
    return total > 290        # partial products, in whatever order the factors are taken, may leave the normal range


# ------------------------------------------------------------------------------------------------ comparison of a re-read unit with the original
def compare_units(c, rec, u, v, prefix, ucls, free, nfac, has_float, same_registry, case, budget=0.0, quiet=False, mech=None, sfx=""):
    """-> True when v denotes u.  prefix e.g. 'C20:reread:str' ; keys prefix:<failure>:<ucls>"""
    sp = c.sympy
    ok = True

    def bad(kind, msg):
        nonlocal ok
        if not ok:
            return            # first failing aspect only (dimension, offset, scale, ==, expression, hash): one key per mechanism
        ok = False
        if not quiet:
            k = ucls
            if kind == "offset-gained":
                # an offset-free unit whose expression is the symbol of an offset unit; the operation that produced that state names the mechanism
                k = "offset-symbol-after-" + (mech or "unknown-operation")
            elif kind == "offset-lost" and isinstance(u.expr, c.sympy.Symbol) and not is_offset_symbol(c, u):
                k = "offsetless-symbol-carrying-offset"     # e.g. 'degree' with lat's zero point after a product was simplified
            rec.violation(f"{prefix}:{kind}:{_k(k, sfx)}", msg, case)
    du, dv = udims(u), udims(v)
    if du is None or dv is None:
        rec.note("dimension-vector-unreadable")
        if not (u.dimensions == v.dimensions):
            bad("dimension-differs", f"{case.get('text')!r}: dimensions {u.dimensions} became {v.dimensions}")
    elif du != dv:
        bad("dimension-differs", f"{case.get('text')!r}: dimensions {dims.show(du)} became {dims.show(dv)}")
    ou, ov = float(u.base_offset), float(v.base_offset)
    if not (ou == ov or abs(ou - ov) <= 4 * EPS * max(abs(ou), abs(ov))):
        bad("offset-lost" if ov == 0.0 else ("offset-gained" if ou == 0.0 else "offset-differs"), f"{case.get('text')!r}: offset {ou!r} became {ov!r}")
    bu, bv = float(u.base_value), float(v.base_value)
    tol = (1e-14 if has_float else 4 * EPS * (nfac + 1)) + 2 * EPS * budget
    if bu and math.isfinite(bu) and (budget or "frac" in ucls or ucls in ("noncanonical-micro", "offset-compound")):
        tol += 2 * EPS * abs(math.log(abs(bu)))      # x**p is evaluated as exp(p ln x) in 53 bits: relative error ~ |ln result| ulps
    degenerate = not (math.isfinite(bu) and math.isfinite(bv)) or bu == 0.0 or bv == 0.0 or abs(bu) < 1e-290 or abs(bu) > 1e290 or range_risky(c, u)
    if degenerate:
        rec.count("discarded:scale-out-of-float-range")
    elif not (bu == bv or abs(bu - bv) <= tol * max(abs(bu), abs(bv))):
        bad("scale-differs", f"{case.get('text')!r}: scale {bu!r} became {bv!r} (tolerance {tol:.2g} relative)")
    if ok and not degenerate:
        try:
            eq = (v == u) and (u == v) and not (v != u)
        except Exception as e:
            eq = False
            bad("eq-raises:" + type(e).__name__, f"{case.get('text')!r}: comparing the re-read unit raised {type(e).__name__}")
        else:
            if not eq:
                bad("not-equal", f"{case.get('text')!r}: re-read unit has the same dimension/offset/scale but == says unequal")
    if free:
        same = (v.expr == u.expr) and sp.srepr(v.expr) == sp.srepr(u.expr)
        if not same:
            bad("expr-differs", f"{case.get('text')!r}: expression {sp.srepr(u.expr)[:120]} became {sp.srepr(v.expr)[:120]}")
        elif same_registry and hash(v) != hash(u):
            bad("hash-differs", f"{case.get('text')!r}: same expression, different hash")
    return ok


def _k(ucls, sfx):
    """unit class as it appears in keys and cells: '!mechanism' replaces the structural class, '/qualifier' is appended"""
    return sfx[1:] if sfx.startswith("!") else ucls + sfx


BEYOND = "simplify-of-exponent-denominator>1e6"


def beyond_limit(c, u):
    """does the expression carry an exponent that Unit.__pow__ cannot reproduce (denominator above limit_denominator's 10**6)?  Such exponents arise
    from products of exponents ((x**a)**b) and sums (x**a * x**b)"""
    try:
        return any(getattr(e, "q", 1) > 10 ** 6 for e in u.expr.as_powers_dict().values())
    except Exception:
        return False


def _sfx(ucls, tag):
    """history qualifier of a key: only for the structural unit classes; mechanism classes (one, huge-integer, offset-compound ...) name their mechanism already"""
    if tag and tag.startswith("!"):
        return tag if (ucls.split("+")[0] in ("atom", "pow", "pow-frac", "mul", "mul-frac") or ucls.startswith("coeff")) else ""
    if tag and (ucls.split("+")[0] in ("atom", "pow", "pow-frac", "mul", "mul-frac") or ucls.startswith("coeff")):
        return "/" + tag
    return ""


INTERNAL_CTOR = re.compile(r"\b(Symbol|Integer|Float|Rational)\s*\(")


def reread(c, rec, u, origin, reg=None, budget=0.0, mech=None, tag=None):
    """rr sub-monitor on one unit; -> True when both printed forms read back as u.  tag: mechanism qualifier appended to the unit class in keys/cells"""
    try:
        ucls, free, nfac, has_float = expr_info(c, u)
    except Exception as e:
        rec.note("expr-info-failed:" + type(e).__name__)
        return False
    sfx = _sfx(ucls, tag)
    if isinstance(origin, str) and not origin.startswith(("nearfrac:", "arith:")) and INTERNAL_CTOR.search(origin) and ucls not in ("huge-integer", "pow-nonreal-exponent", "offset-compound"):
        ucls = "internal-constructor-text"     # the string called the parser's internal constructors itself (Symbol('m') has no positive assumption ...)
    allok = True
    if ucls.startswith("pure-number") or "degenerate-scale" in ucls or ucls == "huge-integer":
        rec.count("rr.degenerate-or-pure-number-units")
    for how, f in (("str", str), ("repr", repr)):
        try:
            text = f(u)
        except Exception as e:
            rec.violation(f"C20:reread:{how}:print-raises:{type(e).__name__}:{_k(ucls, sfx)}", f"{how}() of a unit built from {origin!r} raised {type(e).__name__}: {str(e)[:120]}",
                          {"origin": origin})
            rec.count("rr." + how)
            allok = False
            continue
        registry = u.registry
        try:
            registry._unit_object_cache.pop(text, None)     # cold read (see ASSUMPTIONS)
        except Exception:
            pass
        case = {"origin": origin, "text": text[:300], "how": how}
        v, out = parse_guarded(c, rec, lambda: c.Unit(text, registry=registry), "Unit(str)", "printed:" + ucls.split("+")[0], text, judge_tot=True)
        rec.count("rr." + how)
        if out == "hang":
            allok = False
            continue
        if out != "ok":
            allok = False
            if out.startswith("other:") and ucls != "negative-scale-root":
                rec.note("rr:reparse-escaped-with-another-exception(reported-by-tot)")
                continue
            rec.violation(f"C20:reread:{how}:unparseable:{_k(ucls, sfx)}", f"{how}() of the unit built from {origin!r} is {text[:100]!r}, which does not parse ({out})", case)
            continue
        if compare_units(c, rec, u, v, f"C20:reread:{how}", ucls, free, nfac, has_float, True, case, budget, mech=mech, sfx=sfx):
            rec.ok(("rr", how, _k(ucls, sfx), origin.split(":")[0] if isinstance(origin, str) else "unit"))
        else:
            allok = False
    return allok


# ------------------------------------------------------------------------------------------------ independent evaluation of trees / printed text
def leaf_ref(c, name, extra):
    """-> (scale, dimvec, reltol, tainted) or None"""
    if extra and name in extra:
        s, d = extra[name]
        return s, d, 4 * EPS, False
    r = names.ref_unit(name)
    if r is None:
        return None
    scale, dim, de, f = r
    sym = names.resolve(name)[1]
    return scale, dim, de.tol, sym in TAINTED


def has_negative_leaf(c, t, extra):
    for l in G.leaves(t):
        if l[0] == "n":
            r = leaf_ref(c, l[1], extra)
            if r is not None and r[0] < 0:
                return True
    return False


def has_frac(t):
    if t[0] in ("n", "c"):
        return False
    if t[0] == "q" or (t[0] == "^" and Fr(t[2]).denominator != 1):
        return True
    return any(has_frac(x) for x in t[1:] if isinstance(x, tuple))


class ComplexScale(Exception):
    """a negative scale (lat) under a non-integer power: the tree has no real value, acceptance is not demanded"""


def tree_eval(c, t, extra=None):
    """independent value of a tree: (log10 |scale|, dimvec, reltol, tainted, sign)"""
    k = t[0]
    if k == "n":
        r = leaf_ref(c, t[1], extra)
        if r is None:
            raise KeyError(t[1])
        return math.log10(abs(r[0])), r[1], r[2], r[3], (-1 if r[0] < 0 else 1)
    if k == "c":
        v = float(Fr(t[1]))
        return math.log10(v), dims.ZERO, 2 * EPS, False, 1
    if k in ("*", "/"):
        a, b = tree_eval(c, t[1], extra), tree_eval(c, t[2], extra)
        if k == "*":
            return a[0] + b[0], dims.mul(a[1], b[1]), a[2] + b[2] + 2 * EPS, a[3] or b[3], a[4] * b[4]
        return a[0] - b[0], dims.div(a[1], b[1]), a[2] + b[2] + 2 * EPS, a[3] or b[3], a[4] * b[4]
    if k in ("^", "q"):
        a = tree_eval(c, t[1], extra)
        e = Fr(t[2]) if k == "^" else Fr(1, 2)
        sign = a[4]
        if sign < 0:
            if e.denominator != 1:
                raise ComplexScale()
            sign = -1 if e.numerator % 2 else 1
        return a[0] * float(e), dims.power(a[1], e), a[2] * abs(float(e)) + 4 * EPS * max(1.0, abs(a[0] * float(e))), a[3], sign
    raise ValueError(k)


def printed_text_check(c, rec, u, ucls, extra, origin, budget=0.0, tag=None):
    """txt: read str(u) with the independent evaluator and compare with the unit that printed it"""
    kcls = _k(ucls, _sfx(ucls, tag))
    try:
        text = str(u)
    except Exception:
        return
    res = names.resolver(extra)
    rec.count("txt")
    try:
        scale, dv = uexpr.evaluate(text, res)
    except uexpr.ParseError as e:
        rec.note("txt:reference-reader-cannot-read:" + ucls.split("+")[0])
        return
    except (OverflowError, ZeroDivisionError, ValueError):
        rec.note("txt:reference-reader-overflow")
        return
    du = udims(u)
    if du is None:
        rec.note("dimension-vector-unreadable")
        return
    case = {"origin": origin, "text": text[:300]}
    if du != dv:
        rec.violation(f"C20:printed-text:dimension-differs:{kcls}", f"{text[:100]!r} reads as {dims.show(dv)} but the unit that printed it has {dims.show(du)}", case)
        return
    syms = [s.name for s in u.expr.free_symbols]
    tol = 16 * EPS
    tainted = False
    try:
        pw = u.expr.as_powers_dict()
    except Exception:
        pw = {}
    for s in u.expr.free_symbols:
        nm = "percent" if s.name == "%" else s.name
        r = None if (extra and nm in extra) else names.resolve(nm)
        e = pw.get(s, 1)
        try:
            e = abs(float(e))
        except Exception:
            e = 1.0
        if r is not None:
            tol += e * defs.T[r[1]].tol
            tainted = tainted or r[1] in TAINTED
        tol += 8 * EPS * max(1.0, e)
    bu = float(u.base_value)
    tol += 2 * EPS * budget
    if bu and math.isfinite(bu):
        tol += 4 * EPS * abs(math.log(abs(bu)))      # both readers evaluate powers as exp(p ln x)
    if tainted:
        rec.note("txt:tainted-symbol-value-not-compared")
        rec.ok(("txt", kcls, "dimension-only"))
        return
    if not math.isfinite(bu) or not math.isfinite(scale) or bu == 0.0 or scale == 0.0 or range_risky(c, u):
        rec.count("discarded:scale-out-of-float-range")
        return
    if abs(bu - scale) > tol * max(abs(bu), abs(scale)):
        rec.violation(f"C20:printed-text:scale-differs:{kcls}", f"{text[:100]!r} reads as scale {scale!r} but the unit that printed it has {bu!r} (tolerance {tol:.2g})", case)
        return
    rec.ok(("txt", kcls, "scale+dimension"))


# ------------------------------------------------------------------------------------------------ persistence routes
def persist(c, rec, u, origin, routes, budget=0.0, tag=None):
    """per: the routes store str(units) and parse it back.  A unit whose plain str->parse round trip already fails is rr's
    finding and is not reported again per route; the routes are judged for what they add (own registry, header splitting ...)"""
    unyt, np = c.unyt, c.np
    try:
        ucls, free, nfac, has_float = expr_info(c, u)
    except Exception:
        return
    if "degenerate-scale" in ucls or ucls == "huge-integer":
        return
    if isinstance(origin, str) and not origin.startswith(("nearfrac:", "arith:")) and INTERNAL_CTOR.search(origin):
        ucls = "internal-constructor-text"
    try:
        w = c.Unit(str(u), registry=u.registry)
        plain_ok = compare_units(c, rec, u, w, "", ucls, free, nfac, has_float, False, {}, budget, quiet=True)
    except Exception:
        plain_ok = False
    if not plain_ok:
        rec.note("per:unit-with-reread-finding-not-repeated-per-route")
        return
    for route in routes:
        rec.reach("persist:" + route)
        case = {"origin": origin, "route": route}
        try:
            case["text"] = str(u)[:300]
        except Exception:
            continue
        try:
            arr = unyt.unyt_array(np.array([1.0, 2.5, -3.0]), u)
            if route == "pickle":
                v = pickle.loads(pickle.dumps(arr)).units
            elif route == "savetxt/loadtxt":
                if re.search(r"\s", case["text"]):
                    rec.note("per:printed-unit-contains-whitespace")
                path = os.path.join(c.tmp, "p.txt")
                unyt.savetxt(path, [arr, arr])
                back = unyt.loadtxt(path)
                v = back[0].units
                if u.registry is not c.default_reg:
                    # loadtxt always reads in the default registry: custom names cannot come back (outside the statement)
                    rec.note("per:loadtxt-custom-registry-skipped")
                    continue
            elif route == "unyt_array(data,Unit,registry=)":
                v = unyt.unyt_array(np.array([1.0]), u, registry=u.registry if u.registry is not c.default_reg else c.reg_same).units
            elif route == "unyt_array(unyt_array,registry=)":
                v = unyt.unyt_array(arr, registry=u.registry if u.registry is not c.default_reg else c.reg_same).units
            elif route == "deepcopy(array)":
                v = copy.deepcopy(arr).units
            elif route == "Unit.copy":
                v = u.copy()
            else:
                continue
        except Exception as e:
            rec.count("per")
            if route == "savetxt/loadtxt" and u.registry is not c.default_reg:
                rec.note("per:loadtxt-custom-registry-skipped")
                continue
            rec.violation(f"C20:persist:{route}:raises:{type(e).__name__}:{ucls}", f"{route} of an array in {case['text'][:80]!r} raised {type(e).__name__}: {str(e)[:160]}", case)
            continue
        rec.count("per")
        rec.count("per.route:" + route)
        if compare_units(c, rec, u, v, f"C20:persist:{route}", ucls, free, nfac, has_float, False, case, budget, sfx=_sfx(ucls, tag)):
            rec.ok(("per", route, _k(ucls, _sfx(ucls, tag))))


# ------------------------------------------------------------------------------------------------ workers
def name_pool(c, rec, candidates, reg=None):
    """names that the parser accepts on their own (atoms of compounds); rejected documented names are C14's subject"""
    good = []
    for n in candidates:
        try:
            c.Unit(n, registry=reg) if reg is not None else c.Unit(n)
            good.append(n)
        except c.UPE:
            rec.note("documented-name-rejected-on-its-own(C14)")
        except Exception as e:
            rec.violation(f"C20:totality:Unit(str):{type(e).__name__}@{raise_site(e)}", f"Unit({n!r}) (documented name) raised {type(e).__name__}: {str(e)[:150]}", {"text": n})
    return good


def do_atoms(c, rec, batch_names):
    for n in batch_names:
        u, out = parse_guarded(c, rec, lambda: c.Unit(n), "Unit(str)", "documented-name", n)
        if out != "ok":
            if out == "UnitParseError":
                rec.note("documented-name-rejected-on-its-own(C14)")
            continue
        reread(c, rec, u, "name:" + n)
        ucls = expr_info(c, u)[0]
        printed_text_check(c, rec, u, ucls, None, "name:" + n)
        # sign spellings of this name
        for alt in G.sign_spellings(n, is_micro(c, n)):
            kind = sign_kind(n, alt)
            v, o2 = parse_guarded(c, rec, lambda: c.Unit(alt), "Unit(str)", "sign-spelling", alt)
            rec.count("sp")
            case = {"canonical": n, "variant": alt}
            if o2 == "hang":
                continue
            if o2 != "ok":
                rec.violation(f"C20:spelling:sign:{kind}:variant-rejected", f"{n!r} is a unit but its spelling {alt!r} is rejected ({o2})", case)
                continue
            if spelling_equal(c, rec, u, v, f"sign:{kind}", 1, case):
                rec.ok(("sp", "sign:" + kind, "atom"))


def sign_kind(name, alt):
    if alt and alt[0] in "µμu" and name[0] in "µμu" and alt[0] != name[0]:
        return "micro" + ("+ohm" if ("Ω" in alt) != ("Ω" in name) else "")
    if "Ω" in alt:
        return "ohm"
    if "Å" in alt:
        return "angstrom"
    if "Δ" in alt:
        return "delta-degree"
    if alt == "%":
        return "percent"
    if "°" in alt:
        return "degree" if alt == "°" else "degree-" + alt[1:]
    return "ascii-" + alt


def spelling_equal(c, rec, u, v, kind, nleaves, case):
    ok = True

    def bad(k, msg):
        nonlocal ok
        ok = False
        rec.violation(f"C20:spelling:{kind}:{k}", msg, case)
    du, dv = udims(u), udims(v)
    if du is None or dv is None:
        if not (u.dimensions == v.dimensions):
            bad("dimension-differs", f"{case}: {u.dimensions} vs {v.dimensions}")
    elif du != dv:
        bad("dimension-differs", f"{case}: {dims.show(du)} vs {dims.show(dv)}")
    if float(u.base_offset) != float(v.base_offset):
        bad("offset-differs", f"{case}: offsets {u.base_offset!r} vs {v.base_offset!r}")
    bu, bv = float(u.base_value), float(v.base_value)
    degenerate = not (math.isfinite(bu) and math.isfinite(bv)) or bu == 0.0 or bv == 0.0 or abs(bu) < 1e-290 or abs(bu) > 1e290 or range_risky(c, u)
    if degenerate:
        rec.count("discarded:scale-out-of-float-range")
    elif not (bu == bv or abs(bu - bv) <= 4 * EPS * (nleaves + 1) * max(abs(bu), abs(bv))):
        bad("scale-differs", f"{case}: scales {bu!r} vs {bv!r}")
    if ok and not degenerate and not ((u == v) and (v == u) and not (u != v)):
        bad("not-equal", f"{case}: same dimension, offset and scale but == says unequal")
    if ok and not (u.expr == v.expr):
        rec.note("sp:expression-differs-between-spellings:" + kind.split(":")[0])
    return ok


VARIANT_KINDS = [("div=neg", dict(div="neg")), ("div=recip", dict(div="recip")), ("expo=float", dict(expo="float")), ("expo=paren", dict(expo="paren")),
                 ("sqrt=half", dict(sqrt="half")), ("sqrt=float", dict(sqrt="float")), ("space=loose", dict(space=1)), ("space=wide", dict(space=2))]


def tree_uses(t, what):
    if t[0] in ("n", "c"):
        return False
    if what == "div" and t[0] == "/":
        return True
    if what == "expo" and t[0] == "^":
        return True
    if what == "sqrt" and t[0] == "q":
        return True
    return any(tree_uses(x, what) for x in t[1:] if isinstance(x, tuple))


def do_grammar(c, rec, payload):
    seed, idx, n, depth, pool_kind = payload
    r = core.rng(seed, "grammar", idx)
    extra = None
    reg = None
    if pool_kind == "custom":
        reg, extra = c.custom
        cand = [x[0] for x in CUSTOM] + ["kcode_time", "Mcode_time", "msmoot", "ksmoot"] + r.sample(c.canon_names, 40)
    elif pool_kind == "canon":
        cand = c.canon_names
    else:
        cand = r.sample(c.all_names, min(len(c.all_names), 400))
    cand = [x for x in cand if x and (x.isidentifier() or x in ("%",))]
    pool = name_pool(c, rec, cand, reg)
    if not pool:
        return
    U = (lambda s: c.Unit(s, registry=reg)) if reg is not None else c.Unit
    entries = ENTRY_POINTS if reg is None else []
    for i in range(n):
        t = G.gen_tree(r, pool, r.randint(1, depth))
        shp = G.shape(t)
        s = G.render(t)
        try:
            lg, dv, tol, tainted, sign = tree_eval(c, t, extra)
        except ComplexScale:
            lg = "complex"
        except (KeyError, ValueError, OverflowError, ZeroDivisionError):
            lg = None
        if lg != "complex" and has_frac(t) and has_negative_leaf(c, t, extra):
            lg = "complex"     # sympy distributes powers over the (declared positive) symbols: (lat**-4)**(2/3) is evaluated as lat**(-8/3)
        u, out = parse_guarded(c, rec, lambda: U(s), "Unit(str)", "grammar:" + pool_kind, s)
        rec.count("gr")
        if out == "hang":
            continue
        if out != "ok":
            if lg == "complex":
                rec.note("gr:root-of-negative-scale-unit-rejected")     # e.g. sqrt(lat): no real scale exists; only the exception class is judged (tot)
            elif out == "UnitParseError":
                rec.violation(f"C20:grammar:valid-compound-rejected:{shp}", f"every atom of {s!r} is accepted on its own but the compound is rejected ({out})", {"text": s})
            continue           # another exception class is reported by the totality monitor
        if lg == "complex":
            rec.note("gr:root-of-negative-scale-unit-accepted")
            lg = None
        nl = len(G.leaves(t))
        if lg is not None:
            du = udims(u)
            case = {"text": s}
            if du is None:
                rec.note("dimension-vector-unreadable")
            elif du != dv:
                rec.violation(f"C20:grammar:dimension-differs:{shp}", f"Unit({s!r}) has dimensions {dims.show(du)}; the tree evaluates to {dims.show(dv)}", case)
            elif tainted:
                rec.ok(("gr", shp, "dimension-only"))
            elif has_negative_leaf(c, t, extra):
                rec.note("gr:compound-of-negative-scale-unit:sign-not-judged")
                rec.ok(("gr", shp, "dimension-only"))
            elif abs(lg) > 280 or range_risky(c, u) or not math.isfinite(float(u.base_value)) or float(u.base_value) == 0.0:
                rec.count("discarded:scale-out-of-float-range")
                rec.ok(("gr", shp, "dimension-only"))
            else:
                ref = sign * 10.0 ** lg
                bu = float(u.base_value)
                t2 = tol + 8 * EPS * nl + 4 * EPS * abs(lg) * 2.31      # 10**lg carries the rounding of lg itself
                if not (bu * sign > 0 and abs(bu - ref) <= t2 * max(abs(bu), abs(ref))):
                    rec.violation(f"C20:grammar:scale-differs:{shp}", f"Unit({s!r}) has scale {bu!r}; the tree evaluates to {ref!r} (tolerance {t2:.2g})", case)
                else:
                    rec.ok(("gr", shp, "scale+dimension"))
        # ---- rr / txt on the parsed unit
        reread(c, rec, u, "grammar:" + s)
        if i % 3 == 0:
            printed_text_check(c, rec, u, expr_info(c, u)[0], extra, "grammar:" + s)
        # ---- sp: one-dimension-at-a-time variants + one combined
        kinds = [(k, kw) for k, kw in VARIANT_KINDS if k.startswith("space") or tree_uses(t, k.split("=")[0])]
        picks = r.sample(kinds, min(len(kinds), 2))
        variants = [(k, G.render(t, G.Style(r=r, **kw))) for k, kw in picks]
        # sign variants
        sign_leaves = [(l[1], G.sign_spellings(l[1], is_micro(c, l[1]))) for l in G.leaves(t) if l[0] == "n"]
        sign_leaves = [(nm, alts) for nm, alts in sign_leaves if alts]
        if sign_leaves and reg is None:
            nm, alts = r.choice(sign_leaves)
            alt = r.choice(alts)
            variants.append(("sign:" + sign_kind(nm, alt), G.render(t, G.Style(name=lambda x, nm=nm, alt=alt: alt if x == nm else x))))
        st = G.styles(r, 1, None)[1]
        variants.append(("combined", G.render(t, st)))
        for kind, vs in variants:
            if vs == s:
                continue
            v, o2 = parse_guarded(c, rec, lambda: U(vs), "Unit(str)", "spelling:" + kind.split(":")[0], vs)
            rec.count("sp")
            case = {"canonical": s, "variant": vs}
            if o2 == "hang":
                continue
            if o2 != "ok":
                rec.violation(f"C20:spelling:{kind}:variant-rejected", f"{s!r} is a unit but its spelling {vs!r} is rejected ({o2})", case)
                continue
            if spelling_equal(c, rec, u, v, kind, nl, case):
                rec.ok(("sp", kind, shp))
        # ---- one other entry point per string (valid strings: must not raise anything but unit errors; judged only for parse failures)
        if entries and i % 2 == 0:
            other_entries(c, rec, s, "grammar", out, [entries[(i // 2) % len(entries)]])
    rec.sample({"grammar_example": s, "pool": pool_kind})


POWS = [("pow-int", [2, 3, -1, -2, 4, -3, 1, 0, 5]), ("pow-fraction", [Fr(1, 2), Fr(3, 2), Fr(-1, 2), Fr(1, 3), Fr(2, 3), Fr(-5, 4), Fr(7, 3), Fr(1, 7)]),
        ("pow-float", [0.5, 1.5, -0.5, 0.3333, 1.0 / 3.0, 2.0, 0.1, 0.75, -1.5, 2.0 / 3.0, 0.2, 1e-3, 0.30000000000000004]),
        ("pow-numpy", ["np.float64(0.5)", "np.int64(2)", "np.float32(1.5)", "np.int8(-1)", "np.float64(1/3)"]), ("pow-string", ["2/3", "0.25", "-3/2"]),
        ("pow-near-fraction", None)]      # exponents nearly but not exactly simple fractions, every caller form (vf/gen/c20_nearfrac.py)


def is_offset_symbol(c, u):
    """is the unit's expression the bare symbol of a unit that the reference table defines with a zero point?"""
    e = u.expr
    if not isinstance(e, c.sympy.Symbol):
        return False
    r = names.resolve(e.name)
    return r is not None and defs.T[r[1]].offset != 0.0


def partner(c, r, atoms, U, reg):
    """right/left operand of a product or quotient: an atom, or (1 in 8) an identity-like unit whose expression is 1"""
    k = r.random()
    if k < 0.06:
        return (c.Unit(registry=reg) if reg is not None else c.Unit()), "1"
    if k < 0.12:
        a = U(r.choice(atoms))
        try:
            return a / a, "(" + str(a) + "/" + str(a) + ")"
        except Exception:
            return a, str(a)
    a = U(r.choice(atoms))
    return a, str(a)


def fresh_copy(c, u):
    """the same unit as a new object built through the constructor's expression path (no string involved)"""
    return c.Unit(u.expr, base_value=u.base_value, base_offset=u.base_offset, dimensions=u.dimensions, registry=u.registry)


def gen_arith(c, rec, r, atoms, U, reg):
    """one unit produced by random unit arithmetic; returns (unit, description, rounding budget, mechanism note)"""
    unyt, np = c.unyt, c.np
    u, d0 = partner(c, r, atoms, U, reg)
    desc = [d0]
    budget = 0.0       # roundings accumulated in base_value by the arithmetic history (ulps), used for 'same scale up to rounding'
    mech = None        # first operation after which the unit is the bare symbol of an offset unit without its zero point
    beyond = False     # simplify() was applied to an expression with an exponent denominator > 10**6 somewhere in the history
    keys = {}
    for _ in range(r.randint(1, 5)):
        k = r.random()
        try:
            b0 = budget
            if r.random() < 0.3:
                keys[u] = 1          # units are used as dict keys (hashed) at arbitrary points of their history
                rec.count("arith.hashed-intermediate")
            if k < 0.20:
                w, dw = partner(c, r, atoms, U, reg); u = u * w; op = "mul"; desc.append("*" + dw); budget = b0 + 1
            elif k < 0.28:
                w, dw = partner(c, r, atoms, U, reg); u = w * u; op = "rmul"; desc.insert(0, dw + "*("); desc.append(")"); budget = b0 + 1
            elif k < 0.43:
                w, dw = partner(c, r, atoms, U, reg); u = u / w; op = "div"; desc.append("/" + dw); budget = b0 + 1
            elif k < 0.48:
                w, dw = partner(c, r, atoms, U, reg); u = w / u; op = "rdiv"; desc.insert(0, dw + "/("); desc.append(")"); budget = b0 + 1
            elif k < 0.70:
                op, vals = r.choice(POWS)
                if op == "pow-near-fraction":
                    from vf.gen import c20_nearfrac as NFG
                    nk, pv, p, near = NFG.gen_exponent(r, np, c.sympy)
                    u = u ** pv; desc.append("**(" + p + ")"); budget = b0 * abs(float(near)) * 1.01 + 4 + _lnb(u)
                    rec.count("arith.pow-near-fraction")
                else:
                    p = r.choice(vals)
                    pv = eval(p, {"np": np}) if op == "pow-numpy" else p
                    u = u ** pv; desc.append("**(" + str(p) + ")"); budget = b0 * abs(float(Fr(str(p))) if op == "pow-string" else float(pv)) + 4 + _lnb(u)
            elif k < 0.75:
                v = fresh_copy(c, u)
                if beyond_limit(c, v):
                    beyond = True
                    rec.count("simplify-of-exponent-denominator>1e6")
                if r.random() < 0.6:
                    keys[v] = 2      # hashed while un-simplified; simplify() rewrites the expression in place
                    rec.count("arith.hashed-before-simplify")
                u = v.simplify(); op = "simplify"; desc.append(".simplify()"); budget = b0 + 8
            elif k < 0.79:
                u = u.get_base_equivalent(); op = "base-equivalent"; desc.append(".get_base_equivalent()")
            elif k < 0.82:
                u = u.get_cgs_equivalent(); op = "cgs-equivalent"; desc.append(".get_cgs_equivalent()")
            elif k < 0.85:
                u = u.get_mks_equivalent(); op = "mks-equivalent"; desc.append(".get_mks_equivalent()")
            elif k < 0.88:
                sysn = r.choice(["imperial", "galactic", "solar", "geometrized", "planck", "cgs-ampere"])
                u = u.get_base_equivalent(sysn); op = "system-equivalent"; desc.append(f".get_base_equivalent({sysn!r})")
            elif k < 0.90:
                u = u.as_coeff_unit()[1]; op = "as_coeff_unit"; desc.append(".as_coeff_unit()[1]")
            elif k < 0.93:
                w = U(r.choice(atoms))
                if beyond_limit(c, u):
                    beyond = True; rec.count("simplify-of-exponent-denominator>1e6")       # array multiplication/division simplify the unit
                u = ((2.5 * u) * (4 * w)).units; op = "quantity-mul"; desc.append(" q*" + str(w)); budget = b0 + 2
            elif k < 0.95:
                u = np.sqrt(3.0 * u).units; op = "quantity-sqrt"; desc.append(" np.sqrt(q)"); budget = b0 / 2 + 4 + _lnb(u)
            elif k < 0.96:
                qp = r.choice([2, 0.5, -1, 1.5]); u = ((3.0 * u) ** qp).units; op = "quantity-pow"; desc.append(f" q**{qp}"); budget = b0 * abs(qp) + 4 + _lnb(u)
            elif k < 0.975:
                u = (2.0 * u).in_base().units; op = "in_base"; desc.append(" q.in_base()")
            elif k < 0.985:
                u = (2.0 * u).in_cgs().units; op = "in_cgs"; desc.append(" q.in_cgs()")
            elif k < 0.995:
                f = r.choice([2.5, 3, 1000.0, 0.1, 1e-7, 12])
                u = c.Unit(f * u, registry=reg) if reg is not None else c.Unit(f * u); op = "Unit(quantity)"; desc.append(f" Unit({f}*u)")
            else:
                if beyond_limit(c, u):
                    beyond = True; rec.count("simplify-of-exponent-denominator>1e6")
                u = (1 / u).units; op = "rtruediv"; desc.append(" 1/u"); budget = b0 + 2
            rec.reach("arith:" + op)
            if mech is None and u.base_offset == 0.0 and is_offset_symbol(c, u):
                mech = op
        except Hangish:
            raise
        except Exception as e:
            rec.note("arith-step-refused:" + type(e).__name__)
    return u, "".join(desc)[:200], budget + 4 * len(desc), mech, beyond


Hangish = sbx.Hang


def _lnb(u):
    try:
        b = abs(float(u.base_value))
        return 2 * abs(math.log(b)) if b and math.isfinite(b) else 0.0
    except Exception:
        return 0.0


def _lnsum(c, u):
    """sum over the symbols of |exponent * ln scale|: the size (in ulps) of the rounding of a scale computed factor by factor as exp(p ln x) -
    a compound whose scale is near 1 (ZWb**(18/7)*nC**(54/7)/uK**(18/7)) still carries the roundings of its large factors.  Tolerance sizing only"""
    tot = 0.0
    try:
        lut = u.registry.lut
        for b, e in u.expr.as_powers_dict().items():
            if isinstance(b, c.sympy.Symbol):
                sc = abs(float(lut[b.name][0]))
                if sc and math.isfinite(sc):
                    tot += abs(float(e) * math.log(sc))
    except Exception:
        return _lnb(u)
    return tot


def do_arith(c, rec, payload):
    seed, idx, n, pool_kind = payload
    r = core.rng(seed, "arith", idx)
    reg, extra = (c.custom if pool_kind == "custom" else (None, None))
    U = (lambda s: c.Unit(s, registry=reg)) if reg is not None else c.Unit
    if pool_kind == "custom":
        atoms = [x[0] for x in CUSTOM] + ["kcode_time", "msmoot"] + r.sample(c.canon_names, 30)
    elif pool_kind == "offset":
        atoms = ["degC", "degF", "lat", "lon", "mdegC", "dimensionless", "percent", "%", "ppm", "K", "delta_degC", "dB", "Np", "rad", "degree", "count"]
    elif pool_kind == "coherent":     # SI-coherent units: products cancel to coefficient-free expressions under simplify()
        atoms = ["m", "s", "kg", "Hz", "N", "J", "W", "Pa", "C", "A", "V", "ohm", "F", "H", "T", "Wb", "S", "Bq", "Gy", "Sv", "rad", "sr", "lm", "lx", "cd", "K", "mol"]
    elif pool_kind == "canon":
        atoms = c.canon_names
    else:
        atoms = r.sample(c.all_names, 300)
    atoms = name_pool(c, rec, [a for a in atoms if a], reg)
    last = None
    for i in range(n):
        o = sbx.guarded(lambda: gen_arith(c, rec, r, atoms, U, reg), 20.0)
        if o.outcome != "ok":
            rec.note("arith-generation-" + o.outcome)
            continue
        u, desc, budget, mech, beyond = o.value
        tag = ("!" + BEYOND) if beyond else None
        rec.count("arith-units")
        reread(c, rec, u, "arith:" + desc, budget=budget, mech=mech, tag=tag)
        try:
            ucls = expr_info(c, u)[0]
        except Exception:
            continue
        printed_text_check(c, rec, u, ucls, extra, "arith:" + desc, budget, tag=tag)
        if i % 2 == 0:
            persist(c, rec, u, "arith:" + desc, [PERSIST_ROUTES[(i // 2 + j) % len(PERSIST_ROUTES)] for j in range(2)], budget, tag=tag)
        last = desc
    rec.sample({"arith_example": last, "pool": pool_kind})


# ------------------------------------------------------------------------------------------------ nf: powers with nearly-simple-fraction exponents
NF_FORMS = ["unit-pow", "unit-pow-pow", "quantity-pow", "np.power(quantity)"]
NF_FOLLOW = ["mul-atom", "div-atom", "pow-int", "pow-inverse", "sqrt", "square-self", "reciprocal", "simplify", "div-base", "base-equivalent", "quantity-mul", "np.sqrt(quantity)"]


def _sym_powers(c, u):
    """{symbol name: Fraction exponent} of a coefficient-free unit expression, or None"""
    sp = c.sympy
    out = {}
    for b, e in u.expr.as_powers_dict().items():
        if isinstance(b, sp.Symbol) and e.is_Rational:
            out[b.name] = Fr(int(e.p), int(e.q))
        elif b == 1:
            continue
        else:
            return None
    return out


def power_consistency(c, rec, a, u, form, kind, case):
    """nf oracle that involves no parser: u was produced as a power of a.  The exponent the expression of u shows (every symbol of a carries
    the same multiple e of its exponent in a) is the exponent u prints; the dimension vector and the scale u carries must be those of a to
    that same e, or the printed form and the scale denote different units.  -> e or None"""
    pa, pu = _sym_powers(c, a), _sym_powers(c, u)
    if not pa or pu is None:
        rec.note("nf:base-or-result-not-coefficient-free")
        return None
    ratios = {pu.get(s, Fr(0)) / ea for s, ea in pa.items()}
    key = f"C20:near-fraction-power:{form}"
    if len(ratios) != 1 or set(pu) - set(pa):
        rec.violation(f"{key}:expression-is-not-one-power-of-the-base:{kind}", f"{case['origin']}: expression {u.expr} is not a single power of {a.expr}", case)
        return None
    e = ratios.pop()
    da, du = udims(a), udims(u)
    if da is None or du is None:
        rec.note("dimension-vector-unreadable")
    elif dims.power(da, e) != du:
        rec.violation(f"{key}:dimension-is-not-base-dimension-to-the-printed-exponent:{kind}",
                      f"{case['origin']}: prints {str(u)!r} (exponent {e}) but has dimensions {dims.show(du)}; the base has {dims.show(da)}", case)
        return e
    ba, bu = float(a.base_value), float(u.base_value)
    if not (ba > 0 and bu > 0 and math.isfinite(ba) and math.isfinite(bu)) or range_risky(c, u) or range_risky(c, a):
        rec.count("discarded:scale-out-of-float-range")
        return e
    la, lu = math.log(ba), math.log(bu)
    want = float(e) * la
    tol = EPS * (32 + 8 * abs(want) + 8 * abs(la) * max(1.0, abs(float(e))))     # x**p = exp(p ln x) in 53 bits on both sides, roundings of a's own scale included
    if abs(lu - want) > tol:
        rec.violation(f"{key}:scale-is-not-base-scale-to-the-printed-exponent:{kind}",
                      f"{case['origin']}: prints {str(u)!r} (exponent {e}) but carries scale {bu!r}; base scale {ba!r} to that exponent is {math.exp(want)!r} "
                      f"(ln differs by {abs(lu - want):.3g}, tolerance {tol:.2g})", case)
        return e
    rec.ok(("nf", form, kind, "snapped" if e.denominator <= 13 else "kept"))
    return e


def nf_follow(c, rec, r, a, u, e, atoms, U, reg, budget):
    """one further arithmetic step on the result of a near-fraction power -> (unit, name, budget) or None"""
    np = c.np
    name = r.choice(NF_FOLLOW)
    try:
        if name == "mul-atom":
            w = u * U(r.choice(atoms)); b = budget + 1
        elif name == "div-atom":
            w = u / U(r.choice(atoms)); b = budget + 1
        elif name == "pow-int":
            q = r.choice([2, 3, -1, -2]); w = u ** q; b = budget * abs(q) + 4 + _lnb(w)
        elif name == "pow-inverse":
            if not e:
                return None
            q = 1 / Fr(e); w = u ** q; b = budget * abs(float(q)) + 4 + _lnb(w)      # back to the base's expression
        elif name == "sqrt":
            w = u ** 0.5; b = budget / 2 + 4 + _lnb(w)
        elif name == "square-self":
            w = u * u; b = 2 * budget + 1
        elif name == "reciprocal":
            if beyond_limit(c, u):
                name = "reciprocal>1e6"          # array division simplifies the unit
            w = (1 / u).units; b = budget + 2
        elif name == "simplify":
            w = fresh_copy(c, u * a)
            if beyond_limit(c, w):
                name = "simplify>1e6"
            w = w.simplify(); b = budget + 9
        elif name == "div-base":
            w = u / a; b = budget + 1
        elif name == "base-equivalent":
            w = u.get_base_equivalent(); b = budget
        elif name == "quantity-mul":
            if beyond_limit(c, u):
                name = "quantity-mul>1e6"        # array multiplication simplifies the unit
            w = ((2.5 * u) * (4 * U(r.choice(atoms)))).units; b = budget + 2
        else:
            w = np.sqrt(3.0 * u).units; b = budget / 2 + 4 + _lnb(w)
    except Hangish:
        raise
    except Exception as ex:
        rec.note("nf:follow-up-refused:" + name + ":" + type(ex).__name__)
        return None
    rec.reach("nf-follow:" + name.split(">")[0])
    return w, name, b


def do_nearfrac(c, rec, payload):
    from vf.gen import c20_nearfrac as NFG
    seed, idx, n, pool_kind = payload
    r = core.rng(seed, "nearfrac", idx)
    np = c.np
    reg, extra = (c.custom if pool_kind == "custom" else (None, None))
    U = (lambda s: c.Unit(s, registry=reg)) if reg is not None else c.Unit
    if pool_kind == "custom":
        cand = ["code_length", "code_mass", "code_time", "kcode_time", "code_velocity", "foo", "smoot", "ksmoot", "msmoot", "lambda", "ħ", "e3"] + NFG.FIXED_ATOMS[:12]
    elif pool_kind == "fixed":
        cand = list(NFG.FIXED_ATOMS)
    else:
        cand = r.sample(c.canon_names, min(60, len(c.canon_names))) + r.sample(c.all_names, min(240, len(c.all_names)))      # prefixed names included
        cand = [x for x in cand if x.isidentifier()]
    atoms = []
    for nm in name_pool(c, rec, cand, reg):
        lr = leaf_ref(c, nm, extra)
        if lr is None or not (lr[0] > 0) or abs(math.log10(lr[0])) < 1e-3:
            continue          # scale 1 hides a wrong exponent on the scale; lat has a negative scale
        try:
            t = U(nm)
            if t.base_offset != 0.0 or t.dimensions is c.unyt.dimensions.logarithmic or t.is_dimensionless:
                continue
        except Exception:
            continue
        atoms.append(nm)
    if not atoms:
        return
    compounds = list(NFG.FIXED_COMPOUNDS) if reg is None else ["code_length/code_time", "code_mass/code_length**3", "smoot*km/code_time**2"]
    last = None
    for i in range(n):
        # ---- the base: an atom, a fixed compound, or a random compound of atoms
        k = r.random()
        if k < 0.5:
            s = r.choice(atoms)
        elif k < 0.7:
            s = r.choice(compounds)
        else:
            s = r.choice(atoms) + r.choice(["*", "/"]) + r.choice(atoms) + ("**" + str(r.choice([2, 3, -1, -2])) if r.random() < 0.5 else "")
            if r.random() < 0.4:
                s += r.choice(["*", "/"]) + r.choice(atoms)
        try:
            a = U(s)
        except Exception:
            rec.note("nf:base-rejected")
            continue
        if _sym_powers(c, a) in (None, {}):
            continue          # everything cancelled (km/km)
        form = NF_FORMS[i % len(NF_FORMS)] if r.random() < 0.5 else "unit-pow"
        kind, p, pdesc, near = NFG.gen_exponent(r, np, c.sympy, NFG.KINDS[i % len(NFG.KINDS)] if r.random() < 0.7 else None)
        if form != "unit-pow" and kind in ("string-decimal", "decimal", "fraction-huge-denominator", "sympy-float", "sympy-rational-huge"):
            form = "unit-pow"         # NumPy's power does not take these exponent types for arrays: not a unit-arithmetic route
        origin = f"nearfrac:({s})**{pdesc}" + ("" if form == "unit-pow" else " via " + form)
        case = {"origin": origin, "base": s, "exponent": pdesc, "form": form}

        def build():
            if form == "unit-pow":
                return a ** p, a
            if form == "unit-pow-pow":
                k2, p2, d2, _ = NFG.gen_exponent(r, np, c.sympy, r.choice(["decimal-float", "numpy-float32", "near-integer-float"]))
                case["origin"] += f"**{d2}"
                mid = a ** p2
                return mid ** p, mid
            if form == "quantity-pow":
                return ((3.0 * a) ** p).units, a
            return np.power(c.unyt.unyt_array([2.0, 3.0], a), p).units, a
        o = sbx.guarded(build, 20.0)
        rec.count("nf.attempts")
        if o.outcome != "ok":
            rec.note(f"nf:power-refused:{form}:{kind}:" + (type(o.exc).__name__ if o.outcome == "exc" else o.outcome))
            continue
        u, base = o.value
        origin = case["origin"]
        rec.count("nf")
        rec.count("nf.kind:" + kind)
        rec.reach("nf-kind:" + kind)
        rec.reach("nf-form:" + form)
        tag = "near-fraction-exponent"        # the exponent's form (kind) is part of the nf oracle's own key and of the description
        budget = 8 + 2 * _lnsum(c, u) + _lnb(base)
        e = power_consistency(c, rec, base, u, form, kind, case)
        if e is not None and abs(float(e) - float(near)) > 2e-3 and form != "unit-pow-pow":
            rec.note("nf:printed-exponent-far-from-given-exponent:" + kind)     # recorded, not judged: which rational the library picks is C05's subject
        reread(c, rec, u, origin, budget=budget, tag=tag)
        try:
            ucls = expr_info(c, u)[0]
        except Exception:
            continue
        printed_text_check(c, rec, u, ucls, extra, origin, budget, tag=tag)
        if i % 4 == 0:
            persist(c, rec, u, origin, [PERSIST_ROUTES[(i // 4 + j) % len(PERSIST_ROUTES)] for j in range(2)], budget, tag=tag)
        # ---- further arithmetic on the result
        cur, b, beyond = u, budget, False
        for step in range(r.randint(1, 2)):
            o = sbx.guarded(lambda: nf_follow(c, rec, r, base, cur, e if step == 0 else None, atoms, U, reg, b), 20.0)
            if o.outcome != "ok" or o.value is None:
                break
            cur, fname, b = o.value
            b += 4 + 2 * _lnsum(c, cur)
            rec.count("nf.followup")
            if fname.endswith(">1e6"):
                beyond = True
                rec.count("simplify-of-exponent-denominator>1e6")
            # the step's name is in the description and the reached catalogue, not in the key - except the one mechanism class (see ASSUMPTIONS)
            ftag = ("!" + BEYOND) if beyond else tag + "+further-arithmetic"
            reread(c, rec, cur, origin + " then " + fname, budget=b, tag=ftag)
            try:
                printed_text_check(c, rec, cur, expr_info(c, cur)[0], extra, origin + " then " + fname, b, tag=ftag)
            except Exception:
                pass
        last = origin
    rec.sample({"nearfrac_example": last, "pool": pool_kind})


EMBED = [("bare", "{}"), ("times-unit", "{}*m"), ("unit-times-paren", "kg*({})"), ("as-exponent", "m**({})"), ("in-sqrt", "sqrt({})"), ("denominator", "s/({})")]


def do_hostile(c, rec, payload):
    items, embeds, all_entries = payload
    for fam, text in items:
        for ename, tmpl in EMBED:
            if ename not in embeds:
                continue
            s = tmpl.format(text) if ename != "bare" else text
            if len(s) > 3000 and ename != "bare":
                continue
            f2 = f"hostile:{fam}" + ("" if ename == "bare" else "/" + ename)
            u, out = parse_guarded(c, rec, lambda: c.Unit(s), "Unit(str)", f2, s, limit=10.0)
            rec.count("tot.hostile")
            if out == "ok":
                reread(c, rec, u, "hostile:" + s[:150])
            if ename == "bare" and out in ("ok", "UnitParseError") and len(s) <= 3000:
                other_entries(c, rec, s, "hostile:" + fam, out, ENTRY_POINTS if all_entries else ENTRY_POINTS[:4])
    rec.sample({"hostile_example": items[0][1][:80]})


def _iso_job(c, s, fam):
    """runs in a fork-isolated grandchild: returns a Rec dump"""
    rec = core.Rec()
    u, out = parse_guarded(c, rec, lambda: c.Unit(s), "Unit(str)", "bomb:" + fam, s, limit=4.0)
    if out == "ok":
        try:
            if len(str(u)) < 5000:
                reread(c, rec, u, "bomb:" + s[:100])
        except Exception:
            pass
    d = rec.dump()
    d["outcome"] = out
    return d


def merge(rec, d):
    rec.evals += d["evals"]
    rec.cells.update(d["cells"])
    for k, v in d["viol"].items():
        if k in rec.viol:
            rec.viol[k][0] += v[0]
        else:
            rec.viol[k] = v
    for k, v in d["notes"].items():
        rec.note(k, v)
    for k, v in d["counters"].items():
        rec.count(k, v)
    rec.reached.update(d["reached"])


def run_isolated(c, rec, s, fam, limit=7.0):
    tag, val = sbx.isolated(lambda: _iso_job(c, s, fam), limit=limit)
    rec.count("iso.strings")
    if tag == "ok":
        merge(rec, val)
        rec.count("iso.completed")
        rec.reach("bomb-outcome:" + fam + ":" + val.get("outcome", "?"))
    elif tag == "hang":
        rec.count("tot.hang")
        rec.count("iso.killed-by-deadline")
        rec.note("hang:isolated:" + fam)
    else:
        rec.count("iso.died")
        rec.note("isolated-child-" + tag + ":" + fam + (":" + str(val)[:60] if val else ""))


def do_bombs(c, rec, payload):
    for fam, s in payload:
        run_isolated(c, rec, s, fam)
    rec.sample({"bomb_example": payload[0][1]})


def do_fuzz(c, rec, payload):
    seed, idx, n = payload
    r = core.rng(seed, "fuzz", idx)
    pool = name_pool(c, rec, r.sample(c.canon_names, 60) + ["%", "degC", "dB", "percent", "um", "ohm", "angstrom", "degree"])
    seeds = []
    for _ in range(40):
        t = G.gen_tree(r, pool, r.randint(1, 3))
        seeds.append(G.render(t, G.styles(r, 1)[1] if r.random() < 0.3 else G.CANON))
    # printed forms of arithmetic results are seeds too
    for _ in range(15):
        try:
            u = c.Unit(r.choice(pool)) * c.Unit(r.choice(pool)) ** r.choice([2, -1, Fr(1, 2), 0.5, -2]) / c.Unit(r.choice(pool))
            seeds.append(str(u))
            seeds.append(repr((u ** 1).simplify()))
        except Exception:
            pass
    seeds += ["°C", "Δ°C", "%", "µm", "Ω", "Å", "°", "sqrt(m)*kg**(1/3)/s", "1/s", "2.5*m", "1e-3*kg/m**3", "dimensionless", "(dimensionless)", ""]
    hostile = [t for _, t in c.hostile if len(t) < 80]
    done = 0
    while done < n:
        base = r.choice(seeds)
        k = r.random()
        if k < 0.55:
            s, cat = G.mutate_tokens(r, base)
            fam = "token-mutation:" + cat
            raw = None
        elif k < 0.70:
            s, cat = G.mutate_tokens(r, r.choice(hostile), 1)
            fam = "token-mutation-of-hostile:" + cat
            raw = None
        elif k < 0.95:
            raw = G.mutate_bytes(r, base, r.choice(seeds))
            s = raw.decode("utf-8", "replace")
            fam = "byte-mutation"
        else:
            a, b = r.choice(seeds), r.choice(hostile)
            i = r.randrange(len(a) + 1)
            s = a[:i] + b + a[i:]
            fam = "splice-hostile"
            raw = None
        done += 1
        if len(s) > 400:
            s = s[:400]
        if G.bomb_suspect(s):
            rec.count("fuzz.bomb-suspects-isolated")
            if r.random() < 0.25:          # forks are dear: a quarter of the suspects are run, isolated
                run_isolated(c, rec, s, "suspect:" + fam.split(":")[0], limit=7.0)
            continue
        u, out = parse_guarded(c, rec, lambda: c.Unit(s), "Unit(str)", fam, s)
        rec.count("tot.fuzz")
        if raw is not None:
            # the raw bytes through the bytes entry point (invalid UTF-8 included)
            valid = True
            try:
                raw.decode("utf-8")
            except UnicodeDecodeError:
                valid = False
            o = sbx.guarded(lambda: c.Unit(raw), 5.0)
            rec.count("tot.entry:Unit(bytes)")
            fb = "byte-mutation:" + ("valid-utf8" if valid else "invalid-utf8")
            if valid and out.startswith("other:"):
                pass       # same text, same escape, already reported for Unit(str)
            elif o.outcome == "exc" and not isinstance(o.exc, c.UPE):
                rec.violation(f"C20:totality:Unit(bytes):{type(o.exc).__name__}@{raise_site(o.exc)}", f"Unit({raw[:80]!r}) ({fb}) raised {type(o.exc).__name__}: {str(o.exc)[:160]}",
                              {"bytes": repr(raw[:300])})
            elif not o.hang:
                rec.ok(("tot", "Unit(bytes)", fb, o.outcome))
        if out == "ok":
            rec.count("fuzz.accepted")
            if done % 2 == 0:
                reread(c, rec, u, "fuzz:" + s[:150])
        if out in ("ok", "UnitParseError") and done % 3 == 0:
            other_entries(c, rec, s, fam.split(":")[0], out, [ENTRY_POINTS[(done // 3) % len(ENTRY_POINTS)]])
    rec.sample({"fuzz_example": s[:100]})


def do_custom_names(c, rec, payload):
    """names of a custom registry: identifiers round-trip; names that cannot be written as strings are recorded"""
    reg, extra = c.custom
    for name, scale, spec, pre in CUSTOM:
        u, out = parse_guarded(c, rec, lambda: c.Unit(name, registry=reg), "Unit(str,registry=)", "custom-name", name)
        if out != "ok":
            rec.violation(f"C20:grammar:custom-identifier-rejected", f"registry.add({name!r}) succeeded but Unit({name!r}, registry=) is rejected ({out})", {"text": name})
            continue
        reread(c, rec, u, "custom:" + name)
        printed_text_check(c, rec, u, expr_info(c, u)[0], extra, "custom:" + name)
        persist(c, rec, u / c.Unit("s", registry=reg), "custom:" + name + "/s", ["pickle", "unyt_array(data,Unit,registry=)", "deepcopy(array)", "Unit.copy"])
    D = c.unyt.dimensions
    for name in UNPARSEABLE_CUSTOM:
        reg2 = c.unyt.UnitRegistry()
        try:
            reg2.add(name, 2.0, D.time)
        except Exception:
            rec.note("custom-name-refused-by-registry")
            continue
        v, out = parse_guarded(c, rec, lambda: c.Unit(name, registry=reg2), "Unit(str,registry=)", "custom-name-not-writable", name)
        rec.note("custom-name-not-writable:" + out)


def worker(batch, rec):
    bid, (kind, payload) = batch
    c = make_ctx()
    try:
        import resource
        resource.setrlimit(resource.RLIMIT_AS, (6 << 30, 6 << 30))
    except Exception:
        pass
    c.tmp = tempfile.mkdtemp(prefix="c20-")
    c.all_names = [n for n in all_names() if n]
    from unyt._unit_lookup_table import default_unit_symbol_lut
    c.canon_names = sorted(k for k in default_unit_symbol_lut if k.isidentifier() or k == "%")
    c.reg2 = c.unyt.UnitRegistry()
    c.reg_same = c.unyt.UnitRegistry()
    c.custom = custom_registry(c)
    c.hostile = G.hostile_templates()
    if not sbx.call_tap_available():
        rec.note("sys.monitoring-tool-id-unavailable")
    # warm-up outside the observers: first-use lazy imports of sympy sub-modules are not the subject
    for w in ("m<s", "m|s", "~m", "m//s", "sqrt(m)", "2.5*m**0.5", "m==s"):
        try:
            c.Unit(w)
        except Exception:
            pass
    try:
        if kind == "atoms":
            do_atoms(c, rec, payload)
            rec.sample({"atoms": payload[:3]})
        elif kind == "grammar":
            do_grammar(c, rec, payload)
        elif kind == "arith":
            do_arith(c, rec, payload)
        elif kind == "hostile":
            do_hostile(c, rec, payload)
        elif kind == "bombs":
            do_bombs(c, rec, payload)
        elif kind == "fuzz":
            do_fuzz(c, rec, payload)
        elif kind == "custom":
            do_custom_names(c, rec, payload)
        elif kind == "nearfrac":
            do_nearfrac(c, rec, payload)
    finally:
        try:
            import shutil
            shutil.rmtree(c.tmp, ignore_errors=True)
        except Exception:
            pass


# ------------------------------------------------------------------------------------------------ batches
def batches(tier, seed):
    quick = tier == "quick"
    b = []
    nm = [n for n in all_names() if n]
    b += [("atoms/%d" % i, ("atoms", ch)) for i, ch in enumerate(chunks(nm, 8 if quick else 16))]
    ng, per_g = (16, 400) if quick else (64, 4000)
    for i in range(ng):
        pk = ["canon", "all", "canon", "all", "custom", "all"][i % 6]
        b.append(("grammar/%d" % i, ("grammar", (seed, i, per_g, 3 if quick else 4, pk))))
    na, per_a = (16, 300) if quick else (64, 2500)
    for i in range(na):
        pk = ["canon", "all", "offset", "custom", "coherent", "all", "canon", "coherent"][i % 8]
        b.append(("arith/%d" % i, ("arith", (seed, i, per_a, pk))))
    H = G.hostile_templates()
    embeds = ["bare", "times-unit", "as-exponent"] if quick else [e for e, _ in EMBED]
    for i, ch in enumerate(chunks(H, 16 if quick else 32)):
        b.append(("hostile/%d" % i, ("hostile", (ch, embeds, True))))
    B = G.bomb_templates()
    for i, ch in enumerate(chunks(B, 4)):
        b.append(("bombs/%d" % i, ("bombs", ch)))
    nf, per_f = (24, 1200) if quick else (128, 6000)
    for i in range(nf):
        b.append(("fuzz/%d" % i, ("fuzz", (seed, i, per_f))))
    b.append(("custom-names", ("custom", None)))
    nn, per_n = (8, 600) if quick else (32, 2000)
    for i in range(nn):
        pk = ["fixed", "all", "fixed", "custom"][i % 4]
        b.append(("nearfrac/%d" % i, ("nearfrac", (seed, i, per_n, pk))))
    return b


def extra(tier, seed, results):
    counters = {}
    reached = set()
    for bid, r in results:
        for k, v in r.get("counters", {}).items():
            counters[k] = counters.get(k, 0) + v
        reached.update(r.get("reached", []))
    sub = {"tot": sum(v for k, v in counters.items() if k in ("tot.fuzz", "tot.hostile", "gr") or k.startswith("tot.entry:")),
           "sbx": counters.get("sbx.own-exec", 0), "sbx.vocab-calls": counters.get("sbx.vocab-calls", 0),
           "rr.str": counters.get("rr.str", 0), "rr.repr": counters.get("rr.repr", 0), "sp": counters.get("sp", 0), "gr": counters.get("gr", 0),
           "txt": counters.get("txt", 0), "per": counters.get("per", 0), "arith-units": counters.get("arith-units", 0),
           "fuzz": counters.get("tot.fuzz", 0), "hostile": counters.get("tot.hostile", 0), "isolated": counters.get("iso.strings", 0),
           "isolated-completed": counters.get("iso.completed", 0), "hangs": counters.get("tot.hang", 0),
           "nf": counters.get("nf", 0), "nf.followup": counters.get("nf.followup", 0), "nf.attempts": counters.get("nf.attempts", 0)}
    from vf.gen import c20_nearfrac as NFG
    for k in NFG.KINDS:
        sub["nf.kind:" + k] = counters.get("nf.kind:" + k, 0)
    ok_batches = [bid for bid, r in results if r.get("status") == "ok"]
    zero = [k for k in ("tot", "sbx", "sbx.vocab-calls", "rr.str", "rr.repr", "sp", "gr", "txt", "per", "arith-units", "fuzz", "hostile", "nf", "nf.followup") if not sub[k]]
    zero += [k for k in sub if k.startswith("nf.kind:") and not sub[k]]       # every exponent form of the class must have produced judged powers
    if zero and ok_batches:
        raise core.Inconclusive("deciding-sub-monitor-saw-nothing:" + ",".join(zero))
    catalogue = (["entry:" + e for e in ENTRY_POINTS] + ["persist:" + p for p in PERSIST_ROUTES] + ["arith:" + a for a in ARITH_OPS] + ["nf-kind:" + k for k in NFG.KINDS]
                 + ["nf-form:" + f for f in NF_FORMS] + ["nf-follow:" + f for f in NF_FOLLOW])
    unreached = [x for x in catalogue if x not in reached]
    unreached.append("persist:HDF5 attributes (h5py is not installed: write_hdf5/from_hdf5 cannot run)")
    return {"sub_monitor_evaluations": sub, "unreached": unreached,
            "inner_exception_classes_reached": sorted(x.split(":", 1)[1] for x in reached if x.startswith("inner-exception:")),
            "bomb_outcomes": sorted(x.split(":", 1)[1] for x in reached if x.startswith("bomb-outcome:")),
            "entry_point_calls": {k.split(":", 1)[1]: v for k, v in counters.items() if k.startswith("tot.entry:")},
            "persist_route_calls": {k.split(":", 1)[1]: v for k, v in counters.items() if k.startswith("per.route:")}}
