"""C14 - every documented unit name resolves to exactly one, correctly scaled unit (exhaustive, finite)."""
import numpy as np
from vf import core
from vf.ref import defs, dims, names
from vf.gen import c14_edits
from vf.monitors import c14_stale
from .common import all_names, chunks, udim

RULE = ("exhaustive: every name in unyt's name table, every Unit attribute of unyt.unit_symbols and of the top-level namespace, "
        "resolved by string / attribute / custom-registry namespace and compared with canonical symbol x independent prefix factor "
        "(<=1 ulp), dimension and offset; every prefix spelling (23 symbols + 21 words) x every symbol and alias (prefix must be "
        "refused on non-prefixable units unless that exact string is itself listed); every string with more than one reading in the "
        "independent resolver must take the symbol/alias reading. distinct = distinct (route, name) pairs. "
        "Edited custom registries: for every string X such that <SI prefix>+X is a documented name not meaning prefix x X "
        "(all pairs enumerated from the name table x prefix table: t-ft/kt/nt, c-pc, a-Pa/ha, d-cd/yd, ... and the alias-level ones) "
        "every executable word of add-prefixable / add-again / add-not-prefixable / modify-same / modify-new / remove edits of X up to "
        "length 2 (quick) or 3 (thorough), judged after every step and only at the end, plus seeded random histories (two edited "
        "symbols, look-ups, namespace builds, deepcopy/pickle of the registry in between); one evaluation = one documented name "
        "not involving X read by string or from an add_symbols namespace of the edited registry and compared with its documented "
        "reading (value <=1 ulp, dimension, offset, printed symbol), or X / <prefix>+X compared with the history model; "
        "distinct = (route, relation, edited symbols, executed word). "
        "Resolution after edits: for every table symbol S x edit script (modify / add over it / add with another dimension / remove / "
        "remove+add / modify-resolve-modify / add as not prefixable; quick: modify, remove and two others in rotation) on a fresh "
        "registry, every documented spelling that denotes S (symbol, alias, prefixed, word-prefixed, title-case; plain, squared and "
        "in a product) resolved by string before the edit (warm) or only after it (cold) must denote factor x the value the edited "
        "table defines (<=2 ulp, dimension) or be refused when the table no longer defines it, judged by the sequential registry model")
EXHAUSTIVE = True
ASSUMPTIONS = ("the independent resolver vf/ref/names.py (symbol/alias > prefix split > title-case of a split) states the intended reading",
               "unyt's default_unit_name_alternatives is the list of documented alternative spellings",
               "edited registries: a documented name 'involves' the edited symbol X when it is X, is listed under X in unyt's name table or resolves to X "
               "(prefixed forms of a prefixable table symbol); only names that do not involve X must keep their reading",
               "edited registries: add_symbols() may raise as a whole while an edited *table* symbol is removed or a default-prefixable one is not prefixable "
               "(unit_symbols attributes that involve it cannot be built); otherwise it must not raise",
               "edited registries: <prefix>+X that is not a documented name is judged against the history model (prefix x last written value while X is "
               "prefixable, refused otherwise); 'd'+X for X starting with 'a' is only noted: unyt's documented split rule tries 'da' first and the "
               "property quantifies over unyt's names, not over a user's",
               "edited registries: a user's symbol spelled like a listed name (d, in, as ...) is shadowed by the parser for its bare name; the bare name is not judged",
               "edited registries: JSON round trips are not part of the histories (from_json re-adds removed default symbols by design; C11/C12 matter)",
               "edited registries: when the table value of a colliding name is exactly prefix x value of the edited symbol with the same dimension "
               "(user's a = are, table ha) a violation is keyed prefix-collision-equal-value (listed finding: derived entries recognised by value)",
               "resolution after edits: a spelling that also has a reading through another symbol is not required to be refused after remove(); "
               "spellings unyt refuses on the unedited registry are left to the string batches; add(prefixable=False) over a prefixable symbol "
               "must make its prefixed spellings unresolvable (same rule as the history model of the edited-registry part)")
MIN_EVALS = 50000
TIMEOUT = 600


def batches(tier, seed):
    nm = all_names()
    b = [("string/%d" % i, ("string", c)) for i, c in enumerate(chunks(nm, 8))]
    b += [("attrs", ("attrs", None)), ("custom-ns", ("custom", None))]
    b += [("prefix-refusal/%d" % i, ("refuse", (i, 8))) for i in range(8)]
    b += [("ambiguous", ("ambiguous", None))]
    b += [("double-prefix/%d" % i, ("double", (i, 8))) for i in range(8)]
    # edit histories on custom registries (enumerated part ignores the seed)
    enum = c14_edits.enumerated(tier)
    nb = 24 if tier == "thorough" else 8
    b += [("edits-enum/%d" % i, ("edits", enum[i::nb])) for i in range(nb)]
    nr = 6000 if tier == "thorough" else 600
    for i in range(nb):
        b.append(("edits-random/%d" % i, ("edits", c14_edits.random_histories(tier, core.rng(seed, "edits-random", i), nr // nb))))
    sc = c14_stale.cases(tier, seed)
    ns = 16 if tier == "thorough" else 8
    b += [("stale/%d" % i, ("stale", sc[i::ns])) for i in range(ns)]
    return b


def same_unit(unyt, u, factor, sym, rec, route, name):
    cu = unyt.Unit(sym)
    exp = cu.base_value * factor
    if udim(u) != udim(cu) or udim(u) != defs.T[sym].dim:
        rec.violation(f"C14:{route}:dimension", f"{route} {name!r}: dimension {dims.show(udim(u))} but {sym} has {dims.show(udim(cu))}", name)
        return False
    if abs(u.base_value - exp) > 2.3e-16 * abs(exp):
        rec.violation(f"C14:{route}:scale", f"{route} {name!r}: base_value {u.base_value!r} != {factor!r} x {sym} = {exp!r}", name)
        return False
    if float(u.base_offset) != float(cu.base_offset):
        rec.violation(f"C14:{route}:offset", f"{route} {name!r}: offset {u.base_offset} vs {cu.base_offset}", name)
        return False
    return True


def same_symbol(unyt, val, name, rec, route, registry=None):
    """the unit reached by attribute / namespace is the *same* unit as the one the string gives: same canonical symbol
    (expression, printed form, hash) and the quotient of the two cancels to 1 - not merely an equal scale"""
    if not name or not name.isidentifier():
        return True
    try:
        u = unyt.Unit(name, registry=registry) if registry is not None else unyt.Unit(name)
    except Exception:
        return True                      # unusable strings are judged by the string batch
    rec.count("same-symbol-evaluations")
    if val.expr != u.expr or str(val) != str(u):
        rec.violation(f"C14:{route}:symbol-differs-from-string", f"{route} {name!r} is the unit {str(val)!r} (expr {val.expr!r}) but Unit({name!r}) is {str(u)!r} (expr {u.expr!r})", name)
        return False
    if hash(val) != hash(u):
        rec.violation(f"C14:{route}:hash-differs-from-string", f"{route} {name!r}: hash differs from hash(Unit({name!r}))", name)
        return False
    try:
        q = val / u
        if q.expr != 1:
            rec.violation(f"C14:{route}:quotient-with-string-does-not-cancel", f"{route} {name!r} / Unit({name!r}) = {q!r}", name)
            return False
    except Exception:
        rec.note("quotient-refused:" + route)         # offset units refuse division
    return True


def worker(batch, rec):
    import unyt
    bid, (kind, payload) = batch
    if kind == "string":
        for n in payload:
            r = names.resolve(n)
            if r is None:
                rec.violation("C14:string:no-reference-reading", f"exposed name {n!r} unknown to the independent resolver", n)
                continue
            f, s, amb = r
            try:
                u = unyt.Unit(n)
            except Exception as e:
                if "°" in n and len(n) > 3:
                    rec.violation("C14:string:unusable:word-prefix+°C", f"exported name {n!r} cannot be used as a unit string: {type(e).__name__}", n)
                else:
                    rec.violation(f"C14:string:unusable:{s}", f"exposed name {n!r} raises {type(e).__name__}: {e}", n)
                continue
            if same_unit(unyt, u, f, s, rec, "string", n):
                # through an array constructor and a conversion target too
                q = unyt.unyt_quantity(1.0, n)
                if q.units != u or q.units.base_value != u.base_value:
                    rec.violation("C14:string:constructor-disagrees", f"unyt_quantity(1,{n!r}).units differs from Unit({n!r})", n)
                else:
                    rec.ok("string:" + n)
        rec.sample({"name": payload[0], "reading": names.resolve(payload[0])[:2]})
    elif kind == "attrs":
        import unyt.unit_symbols as us
        n_us = n_top = 0
        for name, val in vars(us).items():
            if name.startswith("_") or not isinstance(val, unyt.Unit):
                continue
            r = names.resolve(name)
            if r is None:
                rec.violation("C14:unit_symbols:no-reference-reading", f"unit_symbols.{name} unknown to resolver", name)
                continue
            if same_unit(unyt, val, r[0], r[1], rec, "unit_symbols", name) and same_symbol(unyt, val, name, rec, "unit_symbols"):
                rec.ok("unit_symbols:" + name); n_us += 1
        for name, val in vars(unyt).items():
            if name.startswith("_") or not isinstance(val, unyt.Unit):
                continue
            r = names.resolve(name)
            if r is None:
                rec.violation("C14:toplevel:no-reference-reading", f"unyt.{name} unknown to resolver", name)
                continue
            if same_unit(unyt, val, r[0], r[1], rec, "toplevel", name) and same_symbol(unyt, val, name, rec, "toplevel"):
                rec.ok("toplevel:" + name); n_top += 1
        # every name of the table must be exported by unit_symbols; top-level unless shadowed by a constant
        for n in all_names():
            if not n.isidentifier():
                continue
            if not hasattr(us, n):
                rec.violation("C14:unit_symbols:missing", f"name {n!r} is not an attribute of unyt.unit_symbols", n)
            v = getattr(unyt, n, None)
            if v is None:
                rec.violation("C14:toplevel:missing", f"name {n!r} is not an attribute of unyt", n)
            elif not isinstance(v, unyt.Unit):
                rec.note("toplevel-shadowed-by-constant:" + n)
        rec.count("unit_symbols_attrs", n_us); rec.count("toplevel_unit_attrs", n_top)
        rec.sample({"unit_symbols_attrs": n_us, "toplevel_unit_attrs": n_top})
    elif kind == "custom":
        reg = unyt.UnitRegistry()
        reg.add("zork", 3.5, unyt.dimensions.length, prefixable=True)
        ns = {}
        unyt.unit_systems.add_symbols(ns, reg)
        k = 0
        for name, val in ns.items():
            r = names.resolve(name)
            if name == "zork":
                if val.base_value != 3.5:
                    rec.violation("C14:custom-ns:user-symbol", "zork wrong in namespace", name)
                continue
            if r is None:
                rec.note("custom-ns-derived-name")
                continue
            if val.registry is not reg:
                rec.violation("C14:custom-ns:registry", f"namespace unit {name} bound to another registry", name)
                continue
            if same_unit(unyt, val, r[0], r[1], rec, "custom-ns", name) and same_symbol(unyt, val, name, rec, "custom-ns", registry=reg):
                rec.ok("custom-ns:" + name); k += 1
        for n in ("kzork", "Mzork"):
            u = unyt.Unit(n, registry=reg)
            if abs(u.base_value - 3.5 * defs.PREFIX[n[0]]) > 1e-9:
                rec.violation("C14:custom-ns:prefixed-user-symbol", f"{n} -> {u.base_value}", n)
            else:
                rec.ok("custom:" + n)
        rec.sample({"custom_namespace_units": k})
    elif kind == "refuse":
        i, n = payload
        A = names.alias_table()
        tab = names.build()
        spell = []
        for sym, de in defs.T.items():
            spell.append((sym, sym, de.prefixable))
            for a in A.get(sym, ()):
                spell.append((a, sym, de.prefixable))
        prefixes = list(defs.PREFIX) + list(defs.PREFIX_WORD)
        todo = [(p, s) for p in prefixes for s in spell][i::n]
        for p, (sp, sym, prefixable) in todo:
            name = p + sp
            if not sp or sp in ("_",):
                continue
            try:
                u = unyt.Unit(name)
                got = u
            except Exception as e:
                got = None
            r = names.resolve(name)
            if prefixable:
                # a prefix on a prefixable unit: if unyt accepts the string it must be the scaled unit (or a listed reading)
                if got is not None and r is not None:
                    if same_unit(unyt, got, r[0], r[1], rec, "prefixed", name):
                        rec.ok("prefixed:" + name)
                elif got is not None and r is None:
                    rec.violation("C14:prefixed:accepted-without-reading", f"{name!r} accepted", name)
                else:
                    rec.note("prefix-spelling-not-offered")   # e.g. symbol prefix + long alias (kmeter): not documented, not required
                continue
            # non-prefixable
            rank0 = [x for x in tab.get(name, ()) if x[0] <= 0.5] or [x for x in tab.get(name, ()) if x[2] != sym or x[3].split(":")[-1] not in ("prefix+sym", "prefix+alias", "word+sym", "word+alias")]
            legit = [x for x in tab.get(name, ()) if not (x[2] == sym and abs(x[1] - 1.0) > 0)]
            if got is None:
                rec.ok("refused:" + name)
            elif legit:
                f, s, _ = names.resolve(name)
                if same_unit(unyt, got, f, s, rec, "other-reading", name):
                    rec.ok("other-reading:" + name)
            else:
                rec.violation(f"C14:prefix-on-non-prefixable:{sym}", f"{name!r} = prefix {p!r} on non-prefixable {sp!r} accepted as {got!r} (base_value {got.base_value})", name)
        rec.sample({"prefix_refusal_cases": len(todo), "first": [todo[0][0], todo[0][1][0]]})
    elif kind == "ambiguous":
        tab = names.build()
        k = 0
        for name, readings in tab.items():
            vals = {(round(f, 30), s) for (rk, f, s, h) in readings}
            if len(vals) < 2:
                continue
            k += 1
            f, s, amb = names.resolve(name)
            best = min(x[0] for x in readings)
            if amb:
                rec.violation("C14:ambiguous:same-rank", f"{name!r} has two equally ranked readings {sorted(vals)}", name)
                continue
            try:
                u = unyt.Unit(name)
            except Exception as e:
                if best <= 0.5 and "°" not in name:
                    rec.violation("C14:ambiguous:listed-name-refused", f"{name!r} is listed but raises", name)
                else:
                    rec.note("ambiguous-unlisted-refused")
                continue
            if best > 0.5:
                rec.note("ambiguous-among-splits-only")
                continue
            if same_unit(unyt, u, f, s, rec, "ambiguous", name):
                rec.ok("ambiguous:" + name)
        rec.count("strings_with_multiple_readings", k)
        rec.sample({"strings_with_multiple_readings": k})
    elif kind == "edits":
        from vf.monitors import c14_edits as edit_monitor
        edit_monitor.run(payload, rec, unyt)
    elif kind == "stale":
        c14_stale.run(payload, rec, unyt)
    elif kind == "double":
        i, n = payload
        tab = names.build()
        pre = list(defs.PREFIX)
        syms = [s for s, de in defs.T.items() if de.prefixable]
        todo = [(p1, p2, s) for p1 in pre for p2 in pre for s in syms][i::n]
        reg = unyt.UnitRegistry()
        for p1, p2, s in todo:
            inner = p2 + s
            name = p1 + inner
            if name in tab:      # the string has a legitimate reading of its own (e.g. 'mmin' would not, 'dam' does)
                rec.count("double_prefix_skipped_listed")
                continue
            if inner in defs.T or (inner in tab and min(x[0] for x in tab[inner]) == 0):
                continue         # p2+s is itself a symbol/alias (e.g. 'min'): then p1 is a first prefix, judged elsewhere
            for label, kw in (("default", {}), ("custom", {"registry": reg})):
                try:
                    unyt.Unit(inner, **kw)      # history: the prefixed form has been looked up (and memoised) before
                except Exception:
                    break
                try:
                    u = unyt.Unit(name, **kw)
                except Exception:
                    rec.ok(f"double-refused:{label}:{name}")
                    continue
                rec.violation(f"C14:double-prefix-accepted:{label}", f"{name!r} = {p1!r}+{p2!r}+{s!r} accepted after {inner!r} was used (base_value {u.base_value})", name)
        rec.sample({"double_prefix_cases": len(todo), "example": "".join(todo[0])})


DECIDING = ("same-symbol-evaluations", "unit_symbols_attrs", "toplevel_unit_attrs", "strings_with_multiple_readings",
            "edit_histories:enumerated", "edit_histories:enumerated-equal-value", "edit_histories:random",
            "edits_string_prefix_collision", "edits_string_unrelated", "edits_namespace_prefix_collision", "edits_namespace_unrelated",
            "edits_edited_symbol", "edits_same_symbol", "edits_namespaces_built", "edits_equal_value_collisions") + c14_stale.COUNTERS


def extra(tier, seed, results):
    c = {}
    reached = set()
    for _, r in results:
        for k, v in r.get("counters", {}).items():
            c[k] = c.get(k, 0) + v
        reached.update(r.get("reached", []))
    zero = [k for k in DECIDING if not c.get(k)]
    zero += ["edit:" + n for n in c14_edits.EDIT_NAME.values() if not c.get("edit:" + n)]
    zero += ["step:" + n for n in c14_edits.OTHER if not c.get("step:" + n)]
    zero += ["stale_op:" + n for n in c14_stale.OPS if not c.get("stale_op:" + n)]
    pool = c14_edits.pool()
    cat = {"edited|%s|%s" % (e["level"], e["kind"]) for e in pool}
    cat |= {"edit:%s|%s|%s" % (n, e["kind"], e["level"]) for e in pool if e["level"] == "symbol" for op, n in c14_edits.EDIT_NAME.items()}
    cat |= {"stale|" + o for o in c14_stale.OPS}
    sym_pairs = sum(len(e["collide"]) for e in pool if e["level"] == "symbol")
    if zero:
        raise core.Inconclusive("sub-monitors-saw-nothing:" + ",".join(zero))
    return {"sub_monitor_counters": {k: c[k] for k in sorted(c)},
            "edited_registry_pool": {"symbol_level_symbols": sum(1 for e in pool if e["level"] == "symbol"), "symbol_level_pairs": sym_pairs,
                                     "alias_level_symbols": sum(1 for e in pool if e["level"] == "alias")},
            "catalogue_size": len(cat), "unreached": sorted(cat - reached)}
