"""C06 - NumPy functions compute the same numbers on quantities as on bare arrays.

Differential monitor: every call template of vf/gen/npcatalog.py is executed twice on the same generated data, once with
plain ndarrays (NumPy itself is the oracle) and once with unyt arrays; results (recursively through tuples/lists/dicts),
out= buffers and every operand after the call must agree in nesting, shape, dtype kind and exact values (NaN == NaN).
A tap on unyt_array.__array_function__ records which functions were really dispatched through unyt.

Two further workload dimensions (same oracle):
* one operand bare in ANY call form - every catalogue form (keyword / positional / custom, not only the base form) with at
  least two unit-carrying operands is re-run with one drawn operand handed over bare, spelled as ndarray, nested list or scalar;
* the two-operand decision-boundary family (vf/gen/c06_boundary.py) - 71 two-operand functions/methods/operators with data
  and rarely passed parameters AT the decision boundary of the function (isclose's asymmetric band, ties, values on bin edges,
  crossing clip bounds, exact multiples, half-way ranks, unequal lengths ...) x both operand orders x operand kind per position
  {quantity, bare ndarray, bare list, bare scalar}; NumPy alone is also asked whether swapping the operands / dropping the
  parameters changes its answer, and a decision class that was never order-sensitive makes the run INCONCLUSIVE;
* operand aliasing x special values (vf/gen/c06_alias.py) - every boundary template (all parameter sets) and every catalogue form
  with two compatible unit-carrying operands is run with both positions fed from ONE array: the second operand being an equal
  twin (control), a view a[...] or the very same object f(a, a), crossed with the data class finite (control) / one NaN / all NaN /
  +-inf / -0.0 / mixed; NumPy alone is asked whether the special values change its answer, and a relation or data class whose
  comparisons never met such a case makes the run INCONCLUSIVE.
"""
import inspect
import warnings
import numpy as np
from vf import core
from vf.gen import npcatalog as nc
from vf.gen import c06_boundary as cb
from vf.gen import c06_alias as ca
from .common import chunks

RULE = ("one evaluation = one call template (function or ndarray method/operator x call form: base, one optional parameter as "
        "keyword, all positional, all keyword, out=, out= bare buffer, one operand bare, custom forms) x shape class x dtype x "
        "data draw (incl. the memory layout of operands and out= buffers: C/F owners, strided, reversed, transposed views) x unit family, run on bare ndarrays and on unyt arrays carrying one unit per dimension slot, compared in "
        "nesting, shape, dtype kind, exact values, out= buffer and operands after the call; every form with two or more unit-carrying operands is run once more with "
        "one drawn operand bare (spelled ndarray / list / scalar); the decision-boundary family adds (two-operand template x parameter set at the decision boundary) x "
        "operand order {xy, yx} x operand kind pattern {Q,Q / Q,bare / bare,Q with bare spelled ndarray, list, scalar}; a refusal (unyt raises) is counted "
        "but is not a distinct cell; calls NumPy itself refuses are discarded. The aliasing dimension adds (boundary template | catalogue form with two compatible unit-carrying operands) x "
        "relation of the second operand to the first {equal twin, view a[...], same object} x data class {finite, nan, all-nan, inf, neg-zero, mixed}. "
        "distinct = (template id, shape class, dtype, family[, bare operand and spelling | operand order, operand kind pattern | alias, relation, data class])")
ASSUMPTIONS = (
    "NumPy applied to the stripped data (np.asarray of every unyt operand, fresh copies, out= replaced by a bare buffer) is the oracle",
    "all operands of one dimension slot carry the same unit (A->m, B->s, 1->dimensionless; further families: all dimensionless, A->K; thorough adds g/km, kg*m/s**2 and 1/s, degC, and 0-d operands as unyt_array instead of unyt_quantity), so no conversion factor is involved",
    "values are compared with NaN equal to NaN and -0.0 equal to 0.0; dtype must agree in kind, kinds being bool / integer (signed or unsigned) / float / complex as in the quantifier (exact dtype differences are notes)",
    "the statement demands the same dtype kind, not width: where a float narrower than float64 is involved (float32 data, or result widths differ) unyt may carry intermediate steps in a wider float; values are then compared to within 64 eps of the narrowest float involved times the largest magnitude among operands and results; float64/complex128/integer cases are compared exactly",
    "integer out= / in-place targets and integer operands combined with a bare (unit-less, hence differently-united) operand are promoted to float by unyt's documented no-integer-truncation policy (C17): i->f with equal values is a note, not a violation; only for templates with out=, mutators and one-operand-bare forms; there, a float result that equals NumPy's integer result modulo 2**bits (NumPy wrapped around, e.g. uint8 0 - 8 = 248 vs -8.0) is the same computation without the wrap-around and is a note as well; likewise a result in a WIDER integer type that equals NumPy's modulo 2**bits: unyt turns a bare Python number into a default-width array before the ufunc, so NumPy's weak-scalar rule (uint8 3 - 4 = 255) becomes int64 -1 - the width is C17's subject, the kind (integer) and the number modulo the wrap agree",
    "a difference that NumPy itself shows between a plain ndarray and a unit-less ndarray subclass (e.g. nanmin/nanmax skip the fmin.reduce fast path for subclasses) is NumPy's, not unyt's: excused when unyt agrees with NumPy run on a trivial subclass view, and noted",
    "np.array_equal/array_equiv with one bare operand answer False by design (a bare array is dimensionless, not metres): that form is not generated (also not by the any-form bare dimension; the boundary family drives them with two quantities only, in both orders)",
    "where an operand is handed over bare as a nested list or a Python scalar, the oracle is NumPy called with the same list / scalar (not with an ndarray of the generated dtype): what NumPy infers from Python objects is then the same on both sides; the receiver of an ndarray method or operator is never spelled as list/scalar (that would not be an ndarray method call)",
    "boundary family: 'the answer depends on the operand order / on the optional parameters' is measured on NumPy alone with the bare data (f(x, y) vs f(y, x), with vs without the parameters) and is used only as a workload-quality gate, never as a verdict; symmetric decision classes (== / !=, union1d, setxor1d) are exempt from the order gate",
    "aliasing dimension: NumPy is run with the same relation between its bare operands (same ndarray object twice / a[...] / an equal copy) as the unit-carrying run, so identity shortcuts NumPy itself takes are part of the oracle; 'the special values change the answer' is measured on NumPy alone (special data vs the finite data of the same case) and is used only as a workload-quality gate; -0.0 compares equal to 0.0, so the neg-zero class is reported but exempt from that gate; a failure is attributed by re-running the controls (equal twin with the same data class, same relation with finite data): the key names the relation and/or the data class only where the control does not fail the same way",
    "a tuple returned where NumPy returns a namedtuple/list of the same length is the same nesting (sequence-ness is compared, not the class); recorded as note",
    "strings (array2string/array_repr/array_str/str/repr/format) intentionally mention the unit: only 'is a string' is judged; bytes/text written to files are compared exactly",
    "functions unyt declares unsupported may raise (allowed by 'either raises'); when they return they are judged like any other",
    "empty_like returns uninitialised memory: only shape and dtype are judged",
    "a unyt refusal is allowed by the statement; functions that were refused on every valid call are listed as refused_only in the evidence, not judged",
    "ndarray has no __round__; unyt_quantity.__round__ has no NumPy counterpart and is not judged",
)
MIN_EVALS = 50000
TIMEOUT = 3600

FAMILIES_QUICK = [("plain", {"A": "m", "B": "s", "1": ""}), ("dimensionless", {"A": "", "B": "", "1": ""}), ("temperature", {"A": "K", "B": "s", "1": ""})]
FAMILIES_THOROUGH = FAMILIES_QUICK + [("plain2", {"A": "g", "B": "km", "1": ""}), ("compound", {"A": "kg*m/s**2", "B": "1/s", "1": ""}),
                                      ("offset", {"A": "degC", "B": "s", "1": ""}), ("plain-0d-array", {"A": "m", "B": "s", "1": ""})]


NO_BARE_FORM = {"numpy.array_equal", "numpy.array_equiv"}      # see ASSUMPTIONS: a bare operand answers False by design
LAYOUT_DRAW = ("C", "C", "C", "F", "strided", "reversed", "T")     # memory layout of every operand/out buffer, drawn per case


def batches(tier, seed):
    tids = [t.tid for t in nc.catalog()]
    n = -(-len(tids) // (16 if tier == "quick" else 48))
    out = [("templates/%d" % i, {"tids": c, "seed": seed, "tier": tier}) for i, c in enumerate(chunks(tids, n))]
    btids = [t.tid for t in cb.templates()]
    # interleave so that every batch holds a mix of cheap and expensive decision classes
    nb = 16 if tier == "quick" else 32
    out += [("boundary/%d" % i, {"tids": btids[i::nb], "seed": seed, "tier": tier, "boundary": True}) for i in range(nb) if btids[i::nb]]
    return out


# ------------------------------------------------------------------------------------------------ comparison
def _is_seq(x):
    return isinstance(x, (tuple, list))


def _numeric(x):
    return isinstance(x, (np.ndarray, np.generic, bool, int, float, complex))


_KCLASS = {"b": "b", "i": "i", "u": "i", "f": "f", "c": "c"}


def _eps_of(dt):
    if dt.kind == "c":
        return float(np.finfo(np.dtype("f%d" % (dt.itemsize // 2))).eps)
    if dt.kind == "f":
        return float(np.finfo(dt).eps)
    return 0.0


def compare(u, b, strict_text, notes, path="r", promo_ok=False, narrow=None):
    """narrow = (eps, scale) when a float narrower than float64 is involved in the case, else None (exact comparison)"""
    """None when equal, else (kind, path, detail)"""
    if _is_seq(b):
        if not _is_seq(u):
            return ("nesting", path, f"NumPy gives a {type(b).__name__} of {len(b)}, unyt gives {type(u).__name__}")
        if len(u) != len(b):
            return ("nesting", path, f"sequence length {len(u)} vs NumPy {len(b)}")
        if isinstance(u, list) != isinstance(b, list):
            notes.add("list-vs-tuple")
        for i, (x, y) in enumerate(zip(u, b)):
            d = compare(x, y, strict_text, notes, f"{path}[{i}]", promo_ok, narrow)
            if d:
                return d
        return None
    if isinstance(b, dict):
        if not isinstance(u, dict) or sorted(u) != sorted(b):
            return ("nesting", path, f"dict keys {sorted(u) if isinstance(u, dict) else type(u).__name__} vs {sorted(b)}")
        for k in b:
            d = compare(u[k], b[k], strict_text, notes, f"{path}.{k}", promo_ok, narrow)
            if d:
                return d
        return None
    if b is None:
        return None if u is None else ("nesting", path, f"NumPy returns None, unyt returns {type(u).__name__}")
    if isinstance(b, (str, bytes)):
        if not isinstance(u, type(b)):
            return ("nesting", path, f"NumPy returns {type(b).__name__}, unyt returns {type(u).__name__}")
        if strict_text and u != b:
            return ("values", path, f"text differs: {u[:80]!r} vs {b[:80]!r}")
        return None
    if isinstance(b, (np.dtype, type)):
        try:
            same = np.dtype(u) == np.dtype(b)
        except Exception:
            same = u is b
        return None if same else ("dtype-kind", path, f"{u!r} vs NumPy {b!r}")
    if _numeric(b):
        if not _numeric(u):
            return ("nesting", path, f"NumPy returns {type(b).__name__}, unyt returns {type(u).__name__}")
        ua = np.asarray(u)
        ba = np.asarray(b)
        if ua.shape != ba.shape:
            return ("shape", path, f"shape {ua.shape} vs NumPy {ba.shape}")
        if _KCLASS.get(ua.dtype.kind, ua.dtype.kind) != _KCLASS.get(ba.dtype.kind, ba.dtype.kind):
            if promo_ok and ba.dtype.kind in "iu" and ua.dtype.kind == "f":
                notes.add("integer-target-or-mixed-operand-promoted-to-float")
            else:
                return ("dtype-kind", path, f"dtype {ua.dtype} vs NumPy {ba.dtype}")
        if promo_ok and ba.dtype.kind in "iu" and ua.shape == ba.shape and (ua.dtype.kind == "f" or (ua.dtype.kind in "iu" and ua.dtype.itemsize > ba.dtype.itemsize)):
            # NumPy's integer arithmetic wraps around (uint8 0 - 8 = 248) where the promoted float computation does not
            # (-8.0): equal modulo 2**bits is the same computation without the wrap-around; C17 demands the promotion
            with np.errstate(all="ignore"):
                uf = np.asarray(ua, dtype="f8")
                wrapped = bool(np.all(np.isfinite(uf)) and np.all(uf == np.rint(uf)) and
                               not np.array_equal(uf, ba.astype("f8")) and
                               np.all(np.mod(uf - ba.astype("f8"), float(2 ** (8 * ba.dtype.itemsize))) == 0))
            if wrapped:
                notes.add("numpy-integer-wraparound-avoided-by-float-promotion" if ua.dtype.kind == "f" else "numpy-integer-wraparound-avoided-by-wider-integer")
                return None
            # NumPy defines integer x % 0 and x // 0 as 0; the promoted float computation gives nan / +-inf (IEEE) at exactly
            # those positions: same computation without the integer convention (quick seed-5 alarm on `int_quantity % 0`)
            if ua.dtype.kind == "f":
                with np.errstate(all="ignore"):
                    bad = ~np.isfinite(uf)
                    if bool(bad.any()) and bool(np.all(ba[bad] == 0)) and bool(np.array_equal(uf[~bad], ba.astype("f8")[~bad])):
                        notes.add("numpy-integer-division-by-zero-convention-vs-ieee-after-float-promotion")
                        return None
        if ua.dtype != ba.dtype:
            notes.add(f"dtype-width:{ua.dtype}!={ba.dtype}")
            if narrow is None and ua.dtype.kind in "fc" and ba.dtype.kind in "fc" and min(_eps_of(ua.dtype), _eps_of(ba.dtype)) < max(_eps_of(ua.dtype), _eps_of(ba.dtype)):
                narrow = (max(_eps_of(ua.dtype), _eps_of(ba.dtype)), 0.0)
        if ba.dtype.kind in "OSUV":
            eq = _obj_equal(ua.tolist(), ba.tolist())
        elif ba.dtype.kind in "mM":
            eq = bool(np.array_equal(ua, ba))
        else:
            eq = bool(np.array_equal(ua, ba, equal_nan=True))
            if not eq and narrow and ba.dtype.kind in "fc" and ua.dtype.kind in "fc":
                eps, scale = narrow
                with np.errstate(all="ignore"):
                    fin = np.isfinite(ba) & np.isfinite(ua)
                    same_special = np.array_equal(np.where(fin, 0, ua), np.where(fin, 0, ba), equal_nan=True)
                    mag = max(scale, float(np.max(np.abs(ba[fin]))) if fin.any() else 0.0, 1e-30)
                    eq = bool(same_special and np.all(np.abs(np.where(fin, ua, 0) - np.where(fin, ba, 0)) <= 64 * eps * mag))
                if eq:
                    notes.add("narrow-float:compared-within-64eps-of-narrowest-float")
        if not eq:
            return ("values", path, f"values {_short(ua)} vs NumPy {_short(ba)}")
        return None
    if type(u) is not type(b):
        return ("nesting", path, f"type {type(u).__name__} vs NumPy {type(b).__name__}")
    notes.add("uncompared-type:" + type(b).__name__)
    return None


def _obj_equal(x, y):
    """equality of the contents of object/string arrays, NaN equal to NaN (list equality falls back to identity for NaN)"""
    if isinstance(x, list) and isinstance(y, list):
        return len(x) == len(y) and all(_obj_equal(a, b) for a, b in zip(x, y))
    try:
        if bool(x == y):
            return True
        return bool(x != x) and bool(y != y)
    except Exception:
        return x is y


def _short(a):
    return (repr(a.tolist()) if a.size <= 16 else repr(a.reshape(-1)[:12].tolist()) + "...")[:220]


# ------------------------------------------------------------------------------------------------ worker
def _optional_names(t, call):
    """structural signature of the call form: names of the optional parameters that are passed"""
    names = set(call.kwargs)
    if t.kind == "function":
        try:
            sig = inspect.signature(t.target)
            b = sig.bind_partial(*call.args, **call.kwargs)
            names = set()
            for n in b.arguments:
                prm = sig.parameters[n]
                if prm.kind == prm.VAR_KEYWORD:
                    names |= set(b.arguments[n])
                elif prm.default is not inspect.Parameter.empty:
                    names.add(n)
        except (TypeError, ValueError):
            pass
    elif t.form == "pos" or "positional" in t.form or t.form.startswith("pos-"):
        names = names | {"+%dpos" % max(0, len(call.args) - 2)}
    s = ",".join(sorted(names))
    if "mixed-bare" in t.tags:
        s += "~" + t.form
    if t.kind != "function" and t.func_name in ("ndarray.__getitem__", "ndarray.__setitem__", "ndarray.flat", "ndarray.real", "ndarray.imag"):
        s = t.form
    return s


def _judge(rec, t, realize, rb, bl, wraps, seen, strict_text, promo, narrow, keyfn, cellfn, layout, case, tally=None, sample=None):
    """one case (NumPy's observed result rb and operands-after-call bl are given) run with unit-carrying operands in every unit
    family and judged against NumPy.  realize(wrap) -> (args, kwargs, leaves); keyfn(family_specific, fam, where, kind) -> key;
    cellfn(fam) -> coverage cell; tally(name) counts per-dimension sub-monitor evaluations.  Returns {fam: "ok"|"refused"|(where, kind, key)}"""
    out = {}
    plain_failed = None
    for fam, wrap in wraps.items():
        ua, uk, ul = realize(wrap)
        n0 = seen.get(t.target, 0) if t.kind == "function" else 0
        try:
            ru = t.observe(ua, uk, t.invoke(ua, uk))
        except Exception as e:
            rec.ok(None)
            rec.count("refused")
            rec.count("refused:" + ("unsupported" if "unsupported" in t.tags else type(e).__name__))
            rec.reach("ref:" + t.func_name)
            if tally:
                tally("refused")
            out[fam] = "refused"
            continue
        if t.kind == "function":
            if seen.get(t.target, 0) > n0:
                rec.count("dispatched-through-__array_function__")
                rec.reach("dsp:" + t.func_name)
            else:
                rec.count("not-dispatched")
        notes = set()
        d = compare(ru, rb, strict_text, notes, promo_ok=promo, narrow=narrow)
        where = "result"
        if d is None:
            for (p, q, ou), (_, _, ob) in zip(ul, bl):
                is_out = q.role == "out"
                rec.count("out-buffer-compared" if is_out else "operand-after-call-compared")
                d = compare(_asarr(ou), _asarr(ob), True, notes, p, promo, narrow)
                if d:
                    where = "out-buffer" if is_out else "operand-after-call"
                    break
        rec.count("compared:" + t.kind)
        rec.count("compared:layout-" + layout)
        if "mutator" in t.tags:
            rec.count("compared:mutator-templates")
        if tally:
            tally("compared")
        for nt in notes:
            rec.note(nt)
        rec.reach("cmp:" + t.func_name)
        if d is not None:
            # second reference: NumPy on a unit-less ndarray subclass. NumPy itself takes other code paths for
            # subclasses (e.g. nanmin/nanmax skip the fmin.reduce fast path); such a difference is not unyt's.
            try:
                sa, sk, sl = realize(lambda data, dim, q: data.view(_PlainSub))
                rs = t.observe(sa, sk, t.invoke(sa, sk))
                if compare(ru, rs, strict_text, set(), promo_ok=promo, narrow=narrow) is None and all(
                        compare(_asarr(ou), _asarr(os_), True, set(), p, promo, narrow) is None for (p, q, ou), (_, _, os_) in zip(ul, sl)):
                    rec.note("numpy-subclass-path-differs:" + t.func_name)
                    rec.count("excused:numpy-subclass-path")
                    d = None
            except Exception:
                pass
        if d is None:
            rec.ok(cellfn(fam))
            if fam == "plain" and sample is not None:
                rec.sample(sample, limit=2)
            out[fam] = "ok"
            continue
        kind, p, detail = d
        fail = (where, kind)
        if fam == "plain":
            plain_failed = fail
        key = keyfn(not (fam.startswith("plain") or plain_failed == fail), fam, where, kind)
        out[fam] = (where, kind, key)
        rec.violation(key, f"{case['template']} [{case['shape']},{case['dtype']},{fam}{case.get('variant', '')}] {where} at {p}: {detail}",
                      dict(case, family=fam, where=where, path=p, detail=detail))
    return out


def _asarr(o):
    try:
        return np.asarray(o)
    except ValueError:          # a list-spelled operand that the call made ragged
        return np.asarray(o, dtype=object)


def _spelled(wrap, target_q, spelling):
    """unit assignment that hands one chosen placeholder over bare, spelled as ndarray / nested list / Python scalar"""
    def w(data, dim, q):
        if q is target_q:
            return data if spelling == "nd" else data.tolist() if spelling == "list" else data.item()
        return wrap(data, dim, q)
    return w


def _narrow_of(dt, bl):
    if np.dtype(dt).kind in "fc" and _eps_of(np.dtype(dt)) > 1e-10:
        mags = []
        for _, q, _ in bl:
            if q.data.size and q.data.dtype.kind in "fciu":
                m = np.abs(q.data)
                m = m[np.isfinite(m)]               # operands may hold NaN / inf (aliasing x special values dimension)
                if m.size:
                    mags.append(float(np.max(m)))
        return (_eps_of(np.dtype(dt)), max(mags + [1.0]))
    return None


# ------------------------------------------------------------------------------------------------ aliasing x special values
def _first_diff(ru, rb, ul, bl, strict_text, promo, narrow):
    """(where, kind) of the first disagreement between a unit-carrying run and NumPy's, None when they agree"""
    d = compare(ru, rb, strict_text, set(), promo_ok=promo, narrow=narrow)
    if d:
        return ("result", d[0])
    for (p, q, ou), (_, _, ob) in zip(ul, bl):
        d = compare(_asarr(ou), _asarr(ob), True, set(), p, promo, narrow)
        if d:
            return ("out-buffer" if q.role == "out" else "operand-after-call", d[0])
    return None


def _alias_runs(rec, t, make_call, combos, layout, wraps, seen, strict_text, promo, dt, opt, main, case, cell, prefix):
    """the dimension operand aliasing x special values for one case.  make_call(relation, special) -> Call with both operand
    positions fed from one array (raises Skip where the class does not exist); combos: the (relation, special) pairs to run;
    main: {fam: result of the all-distinct-operands run of the same case} (same failure -> same key); prefix: counter prefix"""
    numpy_finite = {}

    def numpy_run(relation, special):
        call = make_call(relation, special)
        ba, bk, bl = call.realize(nc.bare_wrap, layout)
        return call, bl, t.observe(ba, bk, t.invoke(ba, bk))

    def probe(fam, relation, special):
        """control run for attributing a failure: "numpy-refuses" | "refused" | None (agrees) | (where, kind)"""
        try:
            call, bl, rb = numpy_run(relation, special)
        except Exception:
            return "numpy-refuses"
        try:
            ua, uk, ul = call.realize(wraps[fam], layout)
            ru = t.observe(ua, uk, t.invoke(ua, uk))
        except Exception:
            return "refused"
        rec.count(prefix + ":control-runs-for-attribution")
        return _first_diff(ru, rb, ul, bl, strict_text, promo, _narrow_of(dt, bl))

    for relation, special in combos:
        try:
            call, bl, rb = numpy_run(relation, special)
        except nc.Skip:
            continue
        except Exception:
            rec.count("discarded:numpy-refuses")
            rec.count(prefix + ":discarded:numpy-refuses")
            continue
        # does the data class change NumPy's own answer? (NumPy alone; workload-quality gate, never a verdict)
        sensitive = False
        if special != ca.CONTROL_SPECIAL:
            if relation not in numpy_finite:
                try:
                    numpy_finite[relation] = (numpy_run(relation, ca.CONTROL_SPECIAL)[2],)
                except Exception:
                    numpy_finite[relation] = None
            if numpy_finite[relation] is not None:
                rec.count(prefix + ":special-sensitivity-probed")
                sensitive = compare(rb, numpy_finite[relation][0], True, set()) is not None

        def tally(name, relation=relation, special=special, sensitive=sensitive):
            rec.count(f"{prefix}:{name}")
            rec.count(f"{prefix}:{name}:rel-{relation}")
            rec.count(f"{prefix}:{name}:data-{special}")
            rec.count(f"{prefix}:{name}:{relation}+{special}")
            if name == "compared" and relation == "same-object":
                rec.reach("alias-cmp:" + t.func_name)
            if sensitive:
                rec.count(f"{prefix}:{name}-special-sensitive")
                rec.count(f"{prefix}:{name}-special-sensitive:rel-{relation}")
                rec.count(f"{prefix}:{name}-special-sensitive:data-{special}")

        def keyfn(famspec, fam, where, kind, relation=relation, special=special):
            m = (main or {}).get(fam)
            if isinstance(m, tuple) and m[:2] == (where, kind):
                return m[2]                      # the run with independent operands fails the same way: same mechanism, same key
            sig = (where, kind)
            qual = []
            if relation != ca.CONTROL_RELATION and probe(fam, ca.CONTROL_RELATION, special) != sig:
                qual.append("operands-" + relation)          # an equal twin does not fail this way: the relation is the mechanism
            if special != ca.CONTROL_SPECIAL and probe(fam, relation, ca.CONTROL_SPECIAL) != sig:
                qual.append("data-" + special)               # finite data do not fail this way: the data class is the mechanism
            base = f"C06:{t.func_name}:{where}-{kind}:{fam}" if famspec else f"C06:{t.func_name}({opt}):{where}-{kind}"
            return base + ":" + ("+".join(qual) if qual else "equal-operands")
        _judge(rec, t, lambda wrap, call=call: call.realize(wrap, layout), rb, bl, wraps, seen, strict_text, promo, _narrow_of(dt, bl), keyfn,
               lambda fam, relation=relation, special=special: cell(fam) + ("alias", relation, special), layout,
               dict(case, args=call.args, kwargs=call.kwargs, variant=f",operands:{relation},data:{special}"), tally=tally)


def worker(batch, rec):
    import unyt
    from unyt import unyt_array
    bid, payload = batch
    tier, seed = payload["tier"], payload["seed"]
    warnings.simplefilter("ignore")
    np.seterr(all="ignore")
    quick = tier == "quick"
    families = FAMILIES_QUICK if quick else FAMILIES_THOROUGH
    wraps = {name: nc.unit_wrapper(unyt, assign, zero_d="array" if name.endswith("0d-array") else "quantity") for name, assign in families}

    seen = {}
    orig = unyt_array.__array_function__

    def tap(self, func, types, args, kwargs):
        seen[func] = seen.get(func, 0) + 1
        return orig(self, func, types, args, kwargs)
    unyt_array.__array_function__ = tap
    try:
        if payload.get("boundary"):
            _boundary(payload, rec, quick, seed, wraps, seen)
        else:
            _catalogue(payload, rec, quick, seed, wraps, seen)
    finally:
        unyt_array.__array_function__ = orig
    rec.count("array_function_dispatches", sum(seen.values()))


def _catalogue(payload, rec, quick, seed, wraps, seen):
    bt = nc.by_tid()
    dtypes = nc.DTYPES_QUICK + ("f4",) if quick else nc.DTYPES_THOROUGH + ("c8",)
    draws = [("int", 0), ("frac", 1), ("gen", 2)] if quick else [(("int", "frac", "gen")[i % 3], i) for i in range(24)]
    for tid in payload["tids"]:
        t = bt[tid]
        strict_text = "file" in t.tags
        for shape in t.shapes:
            for dt in dtypes:
                for flavor, rep in draws:
                    if flavor != "int" and np.dtype(dt).kind not in "fc":
                        continue
                    g = nc.Gen(core.rng(seed, tid, shape, dt, rep), dt, shape, flavor)
                    try:
                        call = t.build(g)
                    except nc.Skip:
                        continue
                    except Exception as e:       # a catalogue bug must not take the batch down; it is made visible instead
                        rec.count("discarded:builder-error")
                        rec.note(f"builder-error:{tid}:{type(e).__name__}")
                        continue
                    layout = g.rng.choice(LAYOUT_DRAW)
                    ba, bk, bl = call.realize(nc.bare_wrap, layout)
                    try:
                        rb = t.observe(ba, bk, t.invoke(ba, bk))
                    except Exception:
                        rec.count("discarded:numpy-refuses")
                        continue
                    rec.reach("valid:" + t.func_name)
                    if not any(not q.bare for _, q, _ in bl):
                        rec.count("discarded:no-unit-operand")
                        continue
                    narrow = _narrow_of(dt, bl)
                    promo = bool(t.tags & {"out", "mutator", "mixed-bare"})
                    opt = _optional_names(t, call)
                    case = {"template": tid, "shape": shape, "dtype": dt, "args": call.args, "kwargs": call.kwargs}
                    main = _judge(rec, t, lambda wrap: call.realize(wrap, layout), rb, bl, wraps, seen, strict_text, promo, narrow,
                           lambda famspec, fam, where, kind: (f"C06:{t.func_name}:{where}-{kind}:{fam}" if famspec else f"C06:{t.func_name}({opt}):{where}-{kind}"),
                           lambda fam: (tid, shape, dt, fam), layout, case,
                           sample={"template": tid, "shape": shape, "dtype": dt, "numpy": rb if _is_small(rb) else str(type(rb))})

                    # ---- dimension "operand aliasing x special values" for any form with two compatible unit-carrying operands
                    if "mixed-bare" not in t.tags:
                        prs = ca.pairs(call)
                        if prs:
                            qa, qb = prs[g.rng.randrange(len(prs))]
                            where = ca.picks(g.rng, qa.data.size)
                            ok_specials = [s_ for s_ in ca.SPECIALS if s_ == ca.CONTROL_SPECIAL or (qa.data.dtype.kind in "fc" and qa.data.size)]
                            combos = g.rng.sample([c for c in ca.COMBOS if c[1] in ok_specials], 3)
                            _alias_runs(rec, t, lambda relation, special, qa=qa, qb=qb, where=where: ca.aliased(call, qa, qb, ca.inject(qa.data, special, where), relation),
                                        combos, layout, wraps, seen, strict_text, promo, dt, opt, main, case, lambda fam: (tid, shape, dt, fam), "anyform-alias")

                    # ---- dimension "one operand bare in ANY call form": the catalogue's own bare#k forms exist for the base form
                    # only and spell the bare operand as an ndarray; here every form (keyword / positional / custom) with at least
                    # two unit-carrying operands is re-run with one drawn operand bare, spelled as ndarray, nested list or scalar
                    if "mixed-bare" in t.tags or t.func_name in NO_BARE_FORM:
                        continue
                    cand = [(i, q) for i, (_, q, _) in enumerate(bl) if not q.bare and q.role != "out"]
                    if len(cand) < 2:
                        continue
                    k, tq = cand[g.rng.randrange(len(cand))]
                    spelling = g.rng.choice(("nd", "scalar", "scalar") if tq.data.ndim == 0 else ("nd", "list", "list"))
                    if t.kind != "function" and k == cand[0][0]:
                        spelling = "nd"          # the receiver of an ndarray method/operator has to be an ndarray
                    try:
                        ba2, bk2, bl2 = call.realize(_spelled(nc.bare_wrap, tq, spelling), layout)
                        rb2 = t.observe(ba2, bk2, t.invoke(ba2, bk2))
                    except Exception:
                        rec.count("anyform-bare:discarded:numpy-refuses")
                        continue

                    def tally(name, spelling=spelling):
                        rec.count("anyform-bare:" + name)
                        rec.count(f"anyform-bare:{name}:{spelling}")
                    case2 = dict(case, variant=f",bare#{k}:{spelling}")

                    def key2(famspec, fam, where, kind):
                        m = main.get(fam)
                        if isinstance(m, tuple) and m[:2] == (where, kind):
                            return m[2]         # the all-quantity run of this case fails the same way: same mechanism, same key
                        if famspec and m == "refused":
                            # only this unit family fails and the all-quantity form is refused there: nothing attributes the failure to
                            # the bare operand, so the mechanism is the family (as for the catalogue's own forms, e.g. gradient on degC)
                            return f"C06:{t.func_name}:{where}-{kind}:{fam}"
                        return (f"C06:{t.func_name}:{where}-{kind}:{fam}:bare#{k}:{spelling}" if famspec
                                else f"C06:{t.func_name}({opt}~bare#{k}:{spelling}):{where}-{kind}")
                    _judge(rec, t, lambda wrap: call.realize(_spelled(wrap, tq, spelling), layout), rb2, bl2, wraps, seen, strict_text, True, narrow, key2,
                           lambda fam: (tid, shape, dt, fam, f"bare#{k}:{spelling}"), layout, case2, tally=tally)


_OPCLASS = {"Q": "Q", "nd": "bare-ndarray", "list": "bare-list", "scalar": "bare-scalar"}


def _boundary(payload, rec, quick, seed, wraps, seen):
    """the two-operand decision-boundary family (vf/gen/c06_boundary.py): data and parameters at the decision boundary of the
    function x both operand orders x operand kind per position"""
    bt = cb.by_tid()
    dtypes = nc.DTYPES_QUICK if quick else nc.DTYPES_THOROUGH
    draws = [("int", 0), ("gen", 1)] if quick else [(("int", "frac", "gen")[i % 3], i) for i in range(9)]
    for tid in payload["tids"]:
        t = bt[tid]
        for shape in t.shapes:
            for dt in dtypes:
                for flavor, rep in draws:
                    if flavor != "int" and np.dtype(dt).kind not in "fc":
                        continue
                    g = cb.BGen(core.rng(seed, tid, shape, dt, rep), dt, shape, flavor)
                    try:
                        bc = t.build(g)
                    except nc.Skip:
                        continue
                    except Exception as e:
                        rec.count("discarded:builder-error")
                        rec.note(f"builder-error:{tid}:{type(e).__name__}")
                        continue
                    layout = g.rng.choice(LAYOUT_DRAW)
                    numpy_qq = {}
                    qq_main = {}
                    for order in cb.ORDERS:
                        qq_fail = {}
                        for kinds in cb.KINDS:
                            try:
                                call = bc.variant(order, kinds)
                                ba, bk, bl = call.realize(nc.bare_wrap, layout)
                                rb = t.observe(ba, bk, t.invoke(ba, bk))
                            except nc.Skip:
                                continue
                            except Exception:
                                rec.count("discarded:numpy-refuses")
                                rec.count("boundary:discarded:numpy-refuses")
                                continue
                            rec.reach("valid:" + t.func_name)
                            if kinds == ("Q", "Q"):
                                numpy_qq[order] = rb
                                if order == "xy" and cb.public_kwargs(bc.kwargs):
                                    # does the answer depend on the optional parameters? (NumPy alone, on the bare data)
                                    try:
                                        c0 = bc.variant(order, kinds, params=False)
                                        a0, k0, _ = c0.realize(nc.bare_wrap, layout)
                                        r0 = t.observe(a0, k0, t.invoke(a0, k0))
                                        rec.count("boundary:parameter-sensitivity-probed")
                                        if compare(r0, rb, True, set()) is not None:
                                            rec.count("boundary:parameter-sensitive")
                                            rec.count("boundary:parameter-sensitive:" + t.cls)
                                    except Exception:
                                        pass
                            pat = ",".join(_OPCLASS[k] for k in kinds)
                            posn = "two-quantities" if kinds == ("Q", "Q") else "bare-first" if kinds[0] != "Q" else "bare-second"
                            spell = [k for k in kinds if k != "Q"]

                            def tally(name, posn=posn, spell=spell, order=order, cls=t.cls):
                                rec.count(f"boundary:{name}")
                                rec.count(f"boundary:{name}:{posn}")
                                rec.count(f"boundary:{name}:order-{order}")
                                rec.count(f"boundary:{name}:class-{cls}")
                                if spell:
                                    rec.count(f"boundary:{name}:spelled-{spell[0]}")
                            narrow = _narrow_of(dt, bl)
                            promo = kinds != ("Q", "Q")
                            opt = _optional_names(t, call)
                            case = {"template": tid, "shape": shape, "dtype": dt, "args": call.args, "kwargs": call.kwargs, "order": order, "operands": pat,
                                    "variant": f",{order},{pat}"}

                            def keyfn(famspec, fam, where, kind, kinds=kinds, pat=pat, opt=opt, qq_fail=qq_fail):
                                m = qq_fail.get(fam)
                                if kinds != ("Q", "Q") and isinstance(m, tuple) and m[:2] == (where, kind):
                                    return m[2]              # two quantities in the same order fail the same way: same mechanism, same key
                                base = f"C06:{t.func_name}:{where}-{kind}:{fam}" if famspec else f"C06:{t.func_name}({opt}):{where}-{kind}"
                                if kinds != ("Q", "Q") and not (famspec and m == "refused"):
                                    base += ":" + pat        # fails only with this operand pattern: the mechanism is the bare operand
                                return base
                            res = _judge(rec, t, lambda wrap: call.realize(wrap, layout), rb, bl, wraps, seen, False, promo, narrow, keyfn,
                                         lambda fam: (tid, shape, dt, fam, order, pat), layout, case, tally=tally)
                            if kinds == ("Q", "Q"):
                                qq_fail = dict(res)
                                if order == "xy":
                                    qq_main = dict(res)
                    # ---- dimension "operand aliasing x special values": both positions fed from x, every relation x every data class
                    if (("Q", "Q") in t.entry.kinds):
                        where = ca.picks(g.rng, bc.x.size)
                        opt_a = None
                        try:
                            opt_a = _optional_names(t, ca.boundary_call(bc, bc.x, ca.CONTROL_RELATION))
                        except Exception:
                            pass
                        if opt_a is not None:
                            _alias_runs(rec, t, lambda relation, special, where=where: ca.boundary_call(bc, ca.inject(bc.x, special, where), relation),
                                        ca.COMBOS, layout, wraps, seen, False, False, dt, opt_a, qq_main, {"template": tid, "shape": shape, "dtype": dt},
                                        lambda fam: (tid, shape, dt, fam), "alias")
                    if len(numpy_qq) == 2:
                        rec.count("boundary:order-sensitivity-probed")
                        rec.count("boundary:order-sensitivity-probed:" + t.cls)
                        if compare(numpy_qq["xy"], numpy_qq["yx"], True, set()) is not None:
                            rec.count("boundary:order-sensitive")
                            rec.count("boundary:order-sensitive:" + t.cls)
                            rec.reach("osens:" + tid)


class _PlainSub(np.ndarray):
    """ndarray subclass without units and without __array_function__/__array_ufunc__ overrides"""


def _is_small(r):
    try:
        return np.asarray(r).size <= 12 and np.asarray(r).dtype.kind in "biufc"
    except Exception:
        return False


# ------------------------------------------------------------------------------------------------ evidence
def extra(tier, seed, results):
    reached = set()
    counters = {}
    for _, r in results:
        reached.update(r.get("reached", []))
        for k, v in r.get("counters", {}).items():
            counters[k] = counters.get(k, 0) + v
    funcs = sorted(nc.by_function())
    cmp_ = {f for f in funcs if "cmp:" + f in reached}
    valid = {f for f in funcs if "valid:" + f in reached}
    refused = {f for f in funcs if "ref:" + f in reached}
    wrappable = nc.wrappable()
    disp = {f for f in funcs if "dsp:" + f in reached}
    deciding = {"result comparisons of array functions": counters.get("compared:function", 0),
                "result comparisons of ndarray methods": counters.get("compared:method", 0),
                "result comparisons of operators/protocols": counters.get("compared:op", 0),
                "out= buffer comparisons": counters.get("out-buffer-compared", 0),
                "operand-after-call comparisons": counters.get("operand-after-call-compared", 0),
                "mutator template comparisons": counters.get("compared:mutator-templates", 0),
                "calls seen by the __array_function__ tap": counters.get("dispatched-through-__array_function__", 0),
                # dimension: one operand bare in any call form (keyword/positional/custom), spelled ndarray / list / scalar
                "any-form one-operand-bare comparisons": counters.get("anyform-bare:compared", 0),
                "any-form one-operand-bare comparisons, bare operand spelled as list": counters.get("anyform-bare:compared:list", 0),
                # dimension: two-operand decision-boundary family (operand order x operand kind per position x sensitive parameters)
                "boundary: two-quantity comparisons": counters.get("boundary:compared:two-quantities", 0),
                "boundary: bare-first comparisons": counters.get("boundary:compared:bare-first", 0),
                "boundary: bare-second comparisons": counters.get("boundary:compared:bare-second", 0),
                "boundary: comparisons in swapped operand order": counters.get("boundary:compared:order-yx", 0),
                "boundary: bare operand spelled as ndarray": counters.get("boundary:compared:spelled-nd", 0),
                "boundary: bare operand spelled as list": counters.get("boundary:compared:spelled-list", 0),
                "boundary: bare operand spelled as scalar": counters.get("boundary:compared:spelled-scalar", 0),
                "boundary: cases whose NumPy answer changes when the operands are swapped": counters.get("boundary:order-sensitive", 0),
                "boundary: cases whose NumPy answer changes when the optional parameters are left out": counters.get("boundary:parameter-sensitive", 0)}
    # dimension: operand aliasing x special values ("alias": boundary templates, all combinations; "anyform-alias": catalogue forms)
    for pfx, label in (("alias", "aliasing (boundary templates)"), ("anyform-alias", "aliasing (any catalogue form)")):
        deciding[f"{label}: comparisons"] = counters.get(pfx + ":compared", 0)
        for r in ca.RELATIONS:
            deciding[f"{label}: second operand is {r}"] = counters.get(f"{pfx}:compared:rel-{r}", 0)
            deciding[f"{label}: second operand is {r}, special values change NumPy's answer"] = counters.get(f"{pfx}:compared-special-sensitive:rel-{r}", 0)
        for s_ in ca.SPECIALS:
            deciding[f"{label}: data class {s_}"] = counters.get(f"{pfx}:compared:data-{s_}", 0)
            if s_ not in (ca.CONTROL_SPECIAL, "neg-zero"):
                deciding[f"{label}: data class {s_} changes NumPy's answer"] = counters.get(f"{pfx}:compared-special-sensitive:data-{s_}", 0)
    for r, s_ in ca.COMBOS:
        deciding[f"aliasing (boundary templates): {r} x {s_}"] = counters.get(f"alias:compared:{r}+{s_}", 0)
    alias_grid = {pfx: {r: {s_: {"compared": counters.get(f"{pfx}:compared:{r}+{s_}", 0), "refused": counters.get(f"{pfx}:refused:{r}+{s_}", 0)} for s_ in ca.SPECIALS}
                        for r in ca.RELATIONS} for pfx in ("alias", "anyform-alias")}
    alias_funcs = sorted({k.split(":", 1)[1] for k in reached if k.startswith("alias-cmp:")})
    classes = {c: {"compared": counters.get("boundary:compared:class-" + c, 0), "refused": counters.get("boundary:refused:class-" + c, 0),
                   "order_probed": counters.get("boundary:order-sensitivity-probed:" + c, 0), "order_sensitive": counters.get("boundary:order-sensitive:" + c, 0),
                   "parameter_sensitive": counters.get("boundary:parameter-sensitive:" + c, 0), "must_be_order_sensitive": asym} for c, asym in cb.CLASSES.items()}
    btids = [t.tid for t in cb.templates()]
    bfuncs = sorted({t.func_name for t in cb.templates()})
    ok_batches = [r for _, r in results if r.get("status") == "ok"]
    if ok_batches and len(ok_batches) == len(results):
        for name, v in deciding.items():
            if v == 0:
                raise core.Inconclusive(f"sub-monitor-saw-nothing:{name}")
        for c, v in classes.items():
            if v["compared"] == 0:
                raise core.Inconclusive(f"sub-monitor-saw-nothing:boundary decision class {c}")
            if v["must_be_order_sensitive"] and v["order_sensitive"] == 0:
                raise core.Inconclusive(f"boundary decision class {c}: no case whose answer depends on the operand order (data not at the decision boundary)")
        if len(cmp_) < 0.6 * len(funcs):
            raise core.Inconclusive(f"only {len(cmp_)} of {len(funcs)} catalogued functions produced a comparable result")
    return {
        "sub_monitors": deciding,
        "aliasing_x_special_values": {"relations": list(ca.RELATIONS), "data_classes": list(ca.SPECIALS), "grid": alias_grid,
                                      "neg_zero_changes_numpys_answer": {pfx: counters.get(f"{pfx}:compared-special-sensitive:data-neg-zero", 0) for pfx in ("alias", "anyform-alias")},
                                      "control_runs_for_attribution": {pfx: counters.get(f"{pfx}:control-runs-for-attribution", 0) for pfx in ("alias", "anyform-alias")},
                                      "numpy_refused": {pfx: counters.get(f"{pfx}:discarded:numpy-refuses", 0) for pfx in ("alias", "anyform-alias")},
                                      "functions_and_methods_compared_with_the_same_object_twice": len(alias_funcs), "names": alias_funcs},
        "boundary_family": {"templates": len(btids), "functions_and_methods": len(bfuncs), "decision_classes": classes,
                            "asymmetric_templates_never_order_sensitive": sorted(t.tid for t in cb.templates() if cb.CLASSES[t.cls] and "osens:" + t.tid not in reached),
                            "functions_never_compared": sorted(f for f in bfuncs if "cmp:" + f not in reached)},
        "catalogue": {"templates": len(nc.catalog()), "functions_and_methods": len(funcs), "wrappable_numpy_functions": len(wrappable),
                      "functions_compared": len(cmp_), "wrappable_dispatched_through_unyt": len(disp & set(wrappable))},
        "unreached": {"wrappable_without_template": nc.without_template(),
                      "never_valid_on_numpy": sorted(set(funcs) - valid),
                      "refused_only": sorted((valid & refused) - cmp_),
                      "valid_but_never_compared_nor_refused": sorted(valid - refused - cmp_),
                      "wrappable_not_seen_by_tap": sorted((set(wrappable) & valid) - disp - ((valid & refused) - cmp_)),
                      "parameters_never_passed": nc.unexercised_params()},
    }
