"""C01 - incommensurable quantities are never silently combined.

Oracle: every operand is built from a unit *string*; its reference dimension vector comes from the independent
unit-expression evaluator (vf/ref/uexpr.py over vf/ref/defs.py).  A call whose operands have different reference
dimension vectors must raise and leave every operand as it was, except for the exceptions written into the statement.
The decision never calls same_dimensions_as / get_conversion_factor / _validate_units_consistency (the code it judges).
"""
import operator as _op
import numpy as np
from vf import core
from vf.ref import defs, dims, names, uexpr
from vf.gen import c01_degenerate as DG
from .common import chunks, udim

RULE = ("one evaluation = one real call of a commensurability-requiring operation (a ufunc of the add/compare/min-max/"
        "hypot/remainder/arctan2/nextafter/heaviside/divmod kind in call, operator, reflected, in-place, out=, outer, "
        "reduce(initial=), out=+where=, at form; a merging array function unyt implements, through every call door NumPy offers for it - for clipping: "
        "np.clip, its out= / in-place forms, the ndarray method positional / keyword / out= / in place / one-sided, and the clip ufunc object with and "
        "without out=; for reduce(initial=): the ufunc method, ndarray.max/min/sum and np.max/min/amax/sum; __setitem__; a conversion route) on "
        "operands whose reference dimension vectors differ, judged must-raise + operands-unchanged (== / != : all-False / "
        "all-True or raise), and only counted when the same template on all-dimensionless operands returns (otherwise the "
        "refusal is vacuous and only noted).  distinct = (operation/form, kind+shape of each operand, dtype) cells of the "
        "kind matrix (operand kinds include every spelling of a sequence of quantities: flat list, tuple, nested list, list of tuples; of A's unit, "
        "of another dimension, mixed, dimensionless) plus (operation/form, unit of A, unit of B) cells of the dimension-pair sweep (default-registry units, offset scales, "
        "random compound units, and user symbols of custom registries whose dimension differs between registries or was redefined, judged "
        "after the identically spelled commensurable operation ran; and pairs of the SAME spelling whose Unit objects were taken on either side "
        "of an edit of their registry that changed the symbol's dimension, or from two registries defining the symbol differently: (kind of edit, "
        "unit form, derivation of the old operand, order) cells of the snapshot-unit sweep; and the operand-SIZE sweep: every binary ufunc form, every "
        "template of a merging function / __setitem__ and every array conversion route re-run with an EMPTY (shapes (0,), (0,3), (2,0), (0,0)) or ONE-element "
        "((1,), (1,1), (1,3), (2,1)) operand in each operand position - X alone, every operand, every operand but X: (operation/form, kind+degenerate shape, "
        "plan) cells); commensurable controls, "
        "documented exceptions and observed-only calls are counted separately and are not evaluations")
ASSUMPTIONS = (
    "trusted base: vf/ref/defs.py dimension vectors + vf/ref/uexpr.py evaluator for every unit string used; the passive tap reads "
    "dimensions off unit labels by base-symbol name (correctness of labels is C02's subject)",
    "'raises' = any Exception escapes the call (DESIGN 1.10); the class is counted, not judged; a refusal only counts when the same "
    "template with every unit replaced by a dimensionless one returns (guards against refusals caused by the template itself)",
    "catalogue of commensurability-requiring ufuncs is written here, not read from unyt_array._ufunc_registry: add, subtract, maximum, "
    "minimum, fmax, fmin, hypot, remainder(=mod), fmod, arctan2, nextafter, heaviside, divmod (remainder family), less..greater_equal, "
    "equal, not_equal; nextafter/heaviside are included because DESIGN C01-W lists them",
    "== / != on operands of different dimension: raise or all-False / all-True accepted; the SHAPE of the constant answer is not "
    "judged (np.equal(array m, scalar s) answers a scalar False) - noted as eq-shape-not-broadcast",
    "== / != / ordering with a dimensionless quantity, percent or bare operand: answered numerically by the code, neither in nor out "
    "of the stated exceptions (DESIGN 4.1): noted, not judged",
    "a bare all-zero number/array/list is never judged, in any operation (statement: may be added or compared; DESIGN 4.9 for "
    "hypot/mod/... ; for merging functions a bare zero carries no dimension): noted.  A zero-filled *quantity* is judged",
    "bare non-zero NUMBER in assignment-like positions (a[i]=5.0, insert/put/place/putmask/fill_diagonal values, clip bounds, "
    "select default, searchsorted value, pad/diff/ediff1d/interp keyword fill values, histogram range, ufunc initial=) takes the target's unit by "
    "the library's idiom (DESIGN 4.12): noted.  A dimensionless quantity or bare non-zero ARRAY in the same position is judged; a "
    "bare non-zero number as a ufunc operand (q + 2.5) is judged",
    "np.copyto(dst, src) without where= overwrites all of dst and relabels it with src's unit: that is replacement, not combination; "
    "accepted when dst afterwards carries src's dimension; with where= it is judged",
    "a ufunc out= buffer of another dimension is an output, not an operand (fully overwritten and relabelled), unless where= keeps part of "
    "its old values: out=+where= with a buffer of another dimension is judged",
    "conversions between the five documented CGS<->MKS electromagnetic pairs (charge, current, potential, resistance, magnetic field) "
    "are a documented cross-dimension route (.to('statC') from C) that __setitem__, list coercion and clip use internally: every operation on such a "
    "pair is noted, not judged",
    "ndarray methods unyt does not override (fill, put, searchsorted, flat[...]=) and NumPy functions unyt has no implementation for "
    "(append, setxor1d, digitize, r_, full_like) are outside the quantifier: outcome noted as observed:<name>, not judged",
    "isclose/allclose belong to C19; logical_and/or/xor, copysign, logaddexp are not commensurability-requiring: observed only",
    "user-defined symbols of a UnitRegistry have the dimension their definer passed to registry.add (reference vector written next to the "
    "unyt.dimensions name in REG_DIMS); string targets such as .to('m') are resolved by unyt in the source's registry, so the cross-registry "
    "scenario (tick of registry A against tick of registry B) is driven through Unit objects only",
    "a Unit object is a snapshot: a quantity labelled before an edit of its registry (modify by a quantity of another dimension, remove+add, add over "
    "the existing symbol; at the same or another scale) keeps the dimension its symbol had when the label was taken, also in compound units and in "
    "operands derived from it (arithmetic, views); its reference vector is what the definer passed at that time.  Such a pair, and one symbol read in "
    "two registries, is judged exactly like a pair of differently spelled units.  A string target (.to('blip')) is read by unyt in the source's "
    "registry at call time, so after an in-place edit it denotes the new definition: string routes are driven old->new in one registry only, "
    "Unit-object and quantity targets in every order",
    "pickle / deepcopy of a pre-edit quantity re-read the spelling in the copied registry contents (the copy carries the NEW dimension): that is the "
    "serialisation property's subject and is not driven as a snapshot operand here",
    "pairs of quantities spelled alike get the operand class '<class>/same-spelling' in their mechanism keys (driver: contexts built that way; passive tap: "
    "equal unit expressions with different dimension labels), because a dimension test replaced by a comparison of spellings fails only there",
    "a tuple, a nested list and a list of tuples of quantities are spellings of 'list of quantities' (the quantifier's operand kind): they are judged "
    "like the flat list and share its operand classes quantity-list / dimensionless-quantity-list in the mechanism keys; binary ufuncs given a NESTED "
    "sequence are keyed ufunc(nested-quantity-sequence) without ufunc name/form (the sequence coercion in front of every ufunc is one mechanism)",
    "call doors: the ndarray method a.clip(lo, hi) and the clip ufunc object are doors to the same merge as np.clip and are judged like it (DESIGN C01-W "
    "'clip (ufunc and method)'); one-sided a.clip(lo) / a.clip(max=hi) end in maximum / minimum and are judged as clip doors; a door that refuses "
    "all-dimensionless operands as well (on this tree: the two-sided method and the ufunc object, RuntimeError 'clip ufunc with 3 inputs'; ufunc.at) is "
    "driven but vacuous: listed in call_doors_wholly_vacuous, never 'held' evidence; the run is INCONCLUSIVE if a door was not driven at all, if no "
    "clip door / no reduce(initial=) door decided anything, or if a spelling was judged 0 times",
    "ndarray.max/min/sum(initial=X) and np.max/min/amax/sum(a, initial=X) are doors to ufunc.reduce(initial=) (inside the quantifier) and are judged; a bare "
    "non-zero number as initial= takes the data's unit (DESIGN 4.12): noted",
    "the passive tap also judges every 3-input dispatch of the clip ufunc: dimensions are read off unyt operands and off (nested) list/tuple operands "
    "holding unyt objects; bare operands carry no dimension there",
    "operand sizes: a quantity array keeps its dimension when it holds no value (size 0) or a single one; 'nothing to merge' is not one of the listed "
    "exceptions, so an empty / one-element operand of another dimension is judged must-raise exactly like a regular one - but only where the same "
    "template with the same shapes returns on all-dimensionless operands (shape combinations NumPy itself refuses are vacuous: counted per plan in "
    "degenerate_size_monitor, never evidence).  An empty BARE array / list is vacuously all-zero and carries no dimension: not judged (bare-zero); an "
    "empty sequence is not a 'list of quantities'.  Degenerate sizes do not get mechanism keys of their own: a dimension test that is skipped for empty "
    "operands shows under the operation's ordinary key, and where that key is already a listed finding the test is absent for every size",
    "mechanism keys carry an operand class (dimensional / dimensionless-quantity (scale 1) / scaled-dimensionless-quantity (percent...) / bare-number / "
    "bare-array / quantity-list / dimensionless-quantity-list); handlers that forward a keyword operand to NumPy without looking at it "
    "(pad, diff, ediff1d, interp left/right, histogram bins/range) use one class 'quantity' for every kind of quantity; divmod, "
    "ufunc.reduce(initial=), ufunc(out=,where=) and the zero-filled-quantity branch are keyed without ufunc name/form because their mechanism "
    "does not depend on it",
)
MIN_EVALS = 20000
TIMEOUT = 1500

ZERO = dims.ZERO
_RES = names.resolver()
_DC = {}


def refdim(u):
    if u not in _DC:
        _DC[u] = uexpr.evaluate(u, _RES)[1]
    return _DC[u]


_EM = [("I T", "M1/2 L3/2 T-1"), ("M T-2 I-1", "M1/2 L-1/2 T-1"), ("I", "M1/2 L3/2 T-2"),
       ("M L2 T-3 I-1", "M1/2 L1/2 T-1"), ("M L2 T-3 I-2", "L-1 T")]
EM_PAIRS = {frozenset((dims.D(a), dims.D(b))) for a, b in _EM}

# ------------------------------------------------------------------ catalogue (independent of unyt's rule table)
ARITH = ["add", "subtract", "maximum", "minimum", "fmax", "fmin", "hypot", "remainder", "fmod", "arctan2", "nextafter",
         "heaviside", "divmod"]
ORDER = ["less", "less_equal", "greater", "greater_equal"]
EQ = ["equal", "not_equal"]
FAMILY = {**{n: "arith" for n in ARITH}, **{n: "order" for n in ORDER}, **{n: "eq" for n in EQ}}
OBSERVED_UFUNCS = ["logical_and", "logical_or", "logical_xor", "copysign", "logaddexp", "logaddexp2"]
# two-operand registry ufuncs that do not require commensurable operands (not driven; listed so that `unreached` is meaningful)
NOT_REQUIRING = {"multiply", "divide", "true_divide", "floor_divide", "power", "matmul", "vecdot", "bitwise_and", "bitwise_or",
                 "bitwise_xor", "left_shift", "right_shift", "ldexp", "float_power", "gcd", "lcm", "matvec", "vecmat"}
OPS = {"add": _op.add, "subtract": _op.sub, "remainder": _op.mod, "less": _op.lt, "less_equal": _op.le, "greater": _op.gt,
       "greater_equal": _op.ge, "equal": _op.eq, "not_equal": _op.ne, "divmod": divmod}
IOPS = {"add": _op.iadd, "subtract": _op.isub, "remainder": _op.imod}
BIN_FORMS = ["call", "operator", "out-q", "out-bare", "out-int", "inplace-ufunc", "inplace-op", "outer"]
FORMCLASS = {"call": "call", "operator": "call", "out-q": "out", "out-bare": "out", "out-int": "out", "inplace-ufunc": "out",
             "inplace-op": "out", "outer": "outer", "reduce-initial": "reduce(initial=)", "out+where": "out+where",
             "at": "at"}
REDUCE_UFUNCS = ["add", "maximum", "minimum", "fmax", "fmin", "hypot"]
AT_KINDS = [("diff", "0"), ("diff", "1"), ("dimless", "0"), ("percent", "0"), ("zeroq", "0"), ("barray", "1"), ("qlist-diff", "1"), ("qtuple-diff", "1"),
            ("qlist-dl", "1"), ("same", "0")]
WHERE_UFUNCS = ["add", "maximum", "hypot"]


def tap_formclass(method, has_out):
    if method == "outer":
        return "outer"
    return "out" if has_out else "call"


def ufunc_keybase(name, fc):
    """divmod has no dimension test in any form: one key base for all its forms"""
    return "divmod" if name == "divmod" else f"{name}/{fc}"


def opclass_of_dims(d0, d1, u0=None, u1=None):
    """operand class as the passive tap can see it (both operands are unyt objects)"""
    for d, u in ((d0, u0), (d1, u1)):
        if d == ZERO:
            try:
                scaled = u is not None and float(u.base_value) != 1.0
            except Exception:
                scaled = False
            return "scaled-dimensionless-quantity" if scaled else "dimensionless-quantity"
    try:
        if u0 is not None and u1 is not None and u0.expr == u1.expr:
            return "dimensional" + SAMESPELL
    except Exception:
        pass
    return "dimensional"


SAMESPELL = "/same-spelling"


def samespell_class(ctx, cls):
    """operand class of a pair of quantities whose units are spelled alike and nevertheless differ in dimension (snapshot units of an edited
    registry, one symbol in two registries): the dimension test cannot be replaced by a comparison of spellings for them"""
    return cls + SAMESPELL if ctx.samespell and cls in ("dimensional", "quantity-list") else cls


def opclass(c1, c2):
    s = {c1, c2}
    for tag, nm in (("ba", "bare-array"), ("bn", "bare-number"), ("b0", "bare-zero"), ("ql", "quantity-list"), ("qld", "dimensionless-quantity-list"),
                    ("dlp", "scaled-dimensionless-quantity"), ("dl", "dimensionless-quantity")):
        if tag in s:
            return nm
    return "dimensional"


# ------------------------------------------------------------------ unit universe
_COMPOUND = [("m/s**2", "ft/min**2"), ("g/cm**3", "lb/ft**3"), ("1/m", "1/inch"), ("kg*m/s", "g*cm/s"), ("J/K", "erg/R"),
             ("N*m/rad", "dyn*cm/degree"), ("m**3/(kg*s**2)", "cm**3/(g*s**2)"), ("W/m**2", "erg/(s*cm**2)"),
             ("m**0.5", "cm**0.5"), ("1/s**2", "1/hr**2"), ("K/m", "R/ft"), ("A/m**2", "mA/cm**2")]
_QUICK_PRIMARY = ["g", "m", "s", "K", "rad", "A", "cd", "J", "mph", "statC", "Pa", "Hz"]


def universe(tier):
    """list of (unit string, other unit string of the same dimension); one entry per distinct dimension"""
    g = {}
    for s, de in defs.T.items():
        if de.dim == ZERO or de.offset:
            continue
        g.setdefault(de.dim, []).append(s)
    out = []
    for d, syms in g.items():
        p = syms[0]
        alt = syms[1] if len(syms) > 1 else ("k" + p if defs.T[p].prefixable else p)
        out.append((p, alt))
    if tier == "quick":
        out = [e for e in out if e[0] in _QUICK_PRIMARY]
        assert len(out) == len(_QUICK_PRIMARY)
        return out
    seen = {refdim(p) for p, _ in out}
    for p, a in _COMPOUND:
        if refdim(p) not in seen:
            seen.add(refdim(p))
            out.append((p, a))
    return out


OFFSET_UNITS = [("degC", "degF"), ("degF", "K"), ("lat", "lon"), ("delta_degC", "delta_degF"), ("mdegC", "degC")]


def ordered_pairs(us):
    return [(a, b) for a in us for b in us if a[0] != b[0]]


def _ctx_tuple(a, b):
    return (a[0], a[1], b[0])


_ATOMS = ["m", "cm", "km", "g", "kg", "s", "ms", "hr", "K", "rad", "degree", "A", "cd", "J", "erg", "N", "dyn", "Pa", "W", "Hz", "V",
          "C", "T", "G", "statC", "eV", "Msun", "pc", "AU", "yr", "lb", "ft", "mile", "psi", "sr", "lm", "Ω", "F", "H", "Wb", "L",
          "Np", "mol", "percent", "Jy", "rpm", "mph"]


def random_unit(r):
    n = r.choice([1, 1, 2, 2, 3])
    parts = []
    for _ in range(n):
        a = r.choice(_ATOMS)
        e = r.choice([1, 1, 1, 2, -1, -2, 3, "0.5", "(1/2)", "(-3/2)"])
        parts.append(a if e == 1 else f"{a}**{e}")
    s = parts[0]
    for p in parts[1:]:
        s += r.choice(["*", "/"]) + p
    return s


def random_ctxs(r, n):
    out = []
    tries = 0
    while len(out) < n and tries < 50 * n:
        tries += 1
        a, b = random_unit(r), random_unit(r)
        try:
            da, db = refdim(a), refdim(b)
        except Exception:
            continue
        if da == ZERO or db == ZERO or da == db:
            continue
        # an alternative spelling of A's dimension: scale it by a dimensionless-free rewrite (prefix on the first atom is risky); use A itself
        out.append((a, a, b))
    return out


# ------------------------------------------------------------------ batches
def batches(tier, seed):
    us = universe(tier)
    pairs = ordered_pairs(us)
    b = []
    uf_all = ARITH + ORDER + EQ
    if tier == "quick":
        # kind matrix: 12 contexts, rotating through the ordered dimension pairs
        step = max(1, len(pairs) // 12)
        ctxs = [_ctx_tuple(*pairs[(i * step + 5 * i) % len(pairs)]) for i in range(12)]
        for i, ufc in enumerate(chunks(uf_all, 10)):
            for j, cc in enumerate(chunks(ctxs, 4)):
                b.append((f"ufmatrix/{i}.{j}", ("ufmatrix", {"ufuncs": ufc, "ctxs": cc, "dtypes": ["f8"], "tier": tier})))
        b.append(("ufmatrix/dtypes", ("ufmatrix", {"ufuncs": ["add", "subtract", "maximum", "remainder", "less", "equal", "not_equal", "divmod"],
                                                   "ctxs": ctxs[:2], "dtypes": ["i8", "f4", "c16"], "tier": tier})))
        for i, pc in enumerate(chunks(pairs, 6)):
            b.append((f"ufdims/{i}", ("ufdims", {"pairs": [_ctx_tuple(*p) for p in pc], "tier": tier})))
        for i, cc in enumerate(chunks(ctxs, 6)):
            b.append((f"arrayfn/{i}", ("arrayfn", {"ctxs": cc, "dtypes": ["f8"] if i else ["f8", "i8"], "tier": tier})))
        for i, pc in enumerate(chunks(pairs, 4)):
            b.append((f"convert/{i}", ("convert", {"pairs": [_ctx_tuple(*p) for p in pc], "tier": tier})))
        for i, ufc in enumerate(chunks(uf_all, 5)):
            b.append((f"ufspell/{i}", ("ufmatrix", {"ufuncs": ufc, "ctxs": ctxs[4:8], "dtypes": ["f8"], "tier": tier, "kinds": SPELL_UKINDS + SPELL_KINDS,
                                                    "kpairs": SPELL_KPAIRS, "shape_pairs": SHAPE_PAIRS_T, "unary": False})))
        b.append(("offsets", ("offsets", {"pairs": OFFSET_UNITS, "others": ["m", "s", "J"], "tier": tier})))
        rd = ["length", "time", "mass", "energy", "dimensionless"]
        cases = [(x, y, sc) for sc in ("two-registries", "redefined", "cross") for x in rd for y in rd if x != y and not (sc == "cross" and "dimensionless" in (x, y))]
        for i, cc in enumerate(chunks(cases, 4)):
            b.append((f"registry/{i}", ("registry", {"cases": cc})))
        nrand = 4
    else:
        step = max(1, len(pairs) // 96)
        ctxs = [_ctx_tuple(*pairs[(i * step + 7 * i) % len(pairs)]) for i in range(96)]
        for i, ufc in enumerate(chunks(uf_all, 10)):
            for j, cc in enumerate(chunks(ctxs, 16)):
                b.append((f"ufmatrix/{i}.{j}", ("ufmatrix", {"ufuncs": ufc, "ctxs": cc, "dtypes": ["f8"], "tier": tier})))
        for i, ufc in enumerate(chunks(uf_all, 5)):
            b.append((f"ufmatrix/dtypes.{i}", ("ufmatrix", {"ufuncs": ufc, "ctxs": ctxs[:6], "dtypes": ["i8", "f4", "c16", "i4", "u2"], "tier": tier})))
        for i, pc in enumerate(chunks(pairs, 48)):
            b.append((f"ufdims/{i}", ("ufdims", {"pairs": [_ctx_tuple(*p) for p in pc], "tier": tier})))
        for i, cc in enumerate(chunks(ctxs, 24)):
            b.append((f"arrayfn/{i}", ("arrayfn", {"ctxs": cc, "dtypes": ["f8", "i8", "f4"] if i % 2 == 0 else ["f8", "c16"], "tier": tier})))
        for i, pc in enumerate(chunks(pairs, 24)):
            b.append((f"convert/{i}", ("convert", {"pairs": [_ctx_tuple(*p) for p in pc], "tier": tier})))
        for i, ufc in enumerate(chunks(uf_all, 2)):
            for j, cc in enumerate(chunks(ctxs[:32], 16)):
                b.append((f"ufspell/{i}.{j}", ("ufmatrix", {"ufuncs": ufc, "ctxs": cc, "dtypes": ["f8"] if j else ["f8", "i8"], "tier": tier,
                                                            "kinds": SPELL_UKINDS + SPELL_KINDS, "kpairs": SPELL_KPAIRS, "shape_pairs": SHAPE_PAIRS_T,
                                                            "unary": False})))
        b.append(("offsets", ("offsets", {"pairs": OFFSET_UNITS, "others": [u[0] for u in us[:12]], "tier": tier})))
        rd = list(REG_DIMS)
        cases = [(x, y, sc) for sc in ("two-registries", "redefined", "cross") for x in rd for y in rd if x != y and not (sc == "cross" and "dimensionless" in (x, y))]
        for i, cc in enumerate(chunks(cases, 24)):
            b.append((f"registry/{i}", ("registry", {"cases": cc})))
        nrand = 64
    for i in range(nrand):
        b.append((f"random/{i}", ("random", {"seed": seed, "tier": tier})))
    b += degenerate_batches(tier, ctxs, uf_all)
    # enumerated (edit x unit form x operand derivation x both orders); the two dimensions and the scales are drawn per batch from the seed
    for i, cc in enumerate(chunks(stale_batches(tier), 12 if tier == "quick" else 48)):
        b.append((f"stale/{i}", ("stale", {"cases": cc, "seed": seed, "tier": tier})))
    return b


# ------------------------------------------------------------------ operands
VALS = {"x": {"f": [1.5, 2.5, 4.0], "i": [1, 2, 4], "c": [1.5 + 1j, 2.5, 4.0 - 2j]},
        "y": {"f": [1.5, 0.5, 4.0], "i": [1, 5, 4], "c": [1.5 + 1j, 0.5, 4.0 - 2j]},
        "z": {"f": [8.0, 9.5, 11.0], "i": [8, 9, 11], "c": [8.0, 9.5j, 11.0]}}
# "0" scalar, "1" (3,), "2" (2,3) are the regular shapes of the kind matrix; the degenerate codes (empty: e (0,), e3 (0,3), 2e (2,0), ee (0,0);
# one-element: o (1,), oo (1,1), o3 (1,3), 2o (2,1)) are the operand-SIZE dimension of the workload (vf/gen/c01_degenerate.py)
SHAPES = dict(DG.ALL_SHAPES)
REGULAR_SHAPES = tuple(DG.REGULAR)


def kindch(dt):
    k = np.dtype(dt).kind
    return "i" if k in "iu" else ("c" if k == "c" else "f")


def vals(role, shp, dt):
    base = VALS[role][kindch(dt)]
    a = np.array(base, dtype=dt)
    if shp == "0":
        return np.array(base[0], dtype=dt)
    if shp == "1":
        return a
    if shp == "2":
        return np.stack([a, a + np.array(1, dtype=dt)])
    return DG.resize(base, SHAPES[shp], dt)


QKINDS = ("same", "samedim", "diff", "dimless", "percent")
KINDS9 = ["same", "samedim", "diff", "dimless", "percent", "bscalar", "barray", "zero", "qlist"]
EXTRA_KINDS = ["zeroq", "barray-z", "qlist-diff", "qlist-mixed", "qlist-dl"]
# operand SPELLINGS of a sequence of quantities other than a flat list: tuple (1-d) and nested list / list of tuples (2-d)
SPELL_KINDS = ["qtuple", "qtuple-diff", "qtuple-dl", "qnest", "qnest-diff", "qnest-dl", "qnest-mixed"]
_SEQ = {"qlist": ("1", list, ("same",) * 3), "qlist-diff": ("1", list, ("diff",) * 3), "qlist-mixed": ("1", list, ("same", "diff", "same")),
        "qlist-dl": ("1", list, ("dimless",) * 3), "qtuple": ("1", tuple, ("same",) * 3), "qtuple-diff": ("1", tuple, ("diff",) * 3),
        "qtuple-dl": ("1", tuple, ("dimless",) * 3), "qnest": ("2", list, ("same",) * 3), "qnest-diff": ("2", list, ("diff",) * 3),
        "qnest-dl": ("2", tuple, ("dimless",) * 3), "qnest-mixed": ("2", tuple, ("same", "same", "diff"))}


NEST_KINDS = [k for k, v in _SEQ.items() if v[0] == "2"]


def seq_kinds(kind, shp):
    """kinds of the members (per row) of a sequence-of-quantities operand of shape code shp, None if the kind has no such shape.  Besides its
    regular shape a sequence kind exists with ONE member per row (1-d: shape o; nested: o3 = one row, 2o / oo = one member per row) as long as
    the truncation keeps its mixture of kinds; an EMPTY sequence holds no quantity, carries no dimension and is not a sequence of quantities"""
    sshp, _, ks = _SEQ[kind]
    if shp == sshp:
        return ks
    if sshp == "1" and shp == "o":
        used = ks[:1]
    elif sshp == "2" and shp in ("o3", "2o", "oo"):
        used = ks[:SHAPES[shp][1]]
    else:
        return None
    return used if set(used) == set(ks) else None
SPELL_UKINDS = ["same", "samedim", "diff", "dimless", "percent", "zeroq"]
SPELL_KPAIRS = [[u, k] for u in SPELL_UKINDS for k in SPELL_KINDS] + [[k, u] for u in SPELL_UKINDS for k in SPELL_KINDS]


class Ctx:
    """units of one context: A (unit of the primary operand), A2 (other unit of A's dimension), B (another dimension)"""

    def __init__(self, unyt, uA, uA2, uB):
        self.unyt = unyt
        self.u = {"same": uA, "samedim": uA2, "diff": uB, "dimless": "dimensionless", "percent": "%"}
        self.U = {k: unyt.Unit(v) for k, v in self.u.items()}
        self.d = {k: refdim(v) for k, v in self.u.items()}
        # operand class of a quantity in that unit: dimensional, dimensionless (scale 1) or scaled dimensionless (percent, mol, ...)
        self.c = {k: ("q" if self.d[k] != ZERO else ("dl" if uexpr.evaluate(v, _RES)[0] == 1.0 else "dlp")) for k, v in self.u.items()}
        self.tag = f"{uA}|{uB}"
        # A and B are one of the documented CGS<->MKS electromagnetic pairs: .to() converts between them (used inside __setitem__, list coercion...)
        self.em = frozenset((self.d["same"], self.d["diff"])) in EM_PAIRS

    @classmethod
    def custom(cls, unyt, U, u, d, tag):
        """context over prebuilt Unit objects (custom registries); d = reference dimension vectors given by whoever defined the units"""
        self = cls.__new__(cls)
        self.unyt = unyt
        self.u = dict(u, dimless="dimensionless", percent="%")
        self.U = dict(U, dimless=unyt.Unit("dimensionless"), percent=unyt.Unit("%"))
        self.d = dict(d, dimless=ZERO, percent=ZERO)
        self.c = {k: ("q" if self.d[k] != ZERO else "dl") for k in self.u}
        self.c["percent"] = "dlp"
        self.tag = tag
        self.em = frozenset((self.d["same"], self.d["diff"])) in EM_PAIRS
        return self

    samespell = False   # A and B are the same spelling (one user symbol whose definition differs between the two Unit objects)
    def celltag(self):
        """snapshot-unit contexts are their own coverage cells (history of the pair), the others share the kind-matrix cells"""
        return (self.cellkey,) if self.samespell else ()

    cellkey = None

    mkq = None   # optional {kind: fn(values) -> quantity}: operands of that kind come out of a life history instead of a constructor call

    def q(self, kind, v):
        un = self.unyt
        if self.mkq is not None and kind in self.mkq:
            return self.mkq[kind](v)
        if np.ndim(v) == 0:
            return un.unyt_quantity(v, self.U[kind])
        return un.unyt_array(v, self.U[kind])


def as_ctx(unyt, c):
    return c if isinstance(c, Ctx) else Ctx(unyt, *c)


def twin_of(unyt):
    return Ctx(unyt, "dimensionless", "%", "dimensionless")


def mk(ctx, kind, shp, role, dt):
    """-> (object, reference dimension vector | None when inherently mixed, operand class) or None when the kind has no such shape"""
    if kind in QKINDS:
        d = ctx.d[kind]
        return ctx.q(kind, vals(role, shp, dt)), d, ctx.c[kind]
    if kind == "zeroq":
        d = ctx.d["diff"]
        return ctx.q("diff", np.zeros_like(vals(role, shp, dt))), d, ctx.c["diff"]
    if kind == "bscalar":
        if shp != "0":
            return None
        v = vals(role, "0", dt)
        k = kindch(dt)
        # python number for the default dtypes, NumPy scalar otherwise
        if dt == "f8":
            o = float(v) + 1.0
        elif dt == "i8":
            o = int(v) + 2
        elif k == "c":
            o = complex(v)
        else:
            o = v[()] + v.dtype.type(1)
        return o, ZERO, "bn"
    if kind == "barray":
        if shp == "0" or shp in DG.EMPTY:       # an empty bare array is vacuously all-zero: kind "zero"
            return None
        return vals(role, shp, dt), ZERO, "ba"
    if kind == "barray-z":
        if shp != "1" and shp != "2":
            return None
        v = vals(role, shp, dt).copy()
        v[..., 0] = 0
        v[..., 2] = 0
        return v, ZERO, "ba"
    if kind == "zero":
        if shp == "0":
            return (0 if role == "x" else 0.0), ZERO, "b0"
        if shp == "1":
            return (np.zeros(3, dtype=dt) if role == "x" else [0, 0.0, 0]), ZERO, "b0"
        return np.zeros(SHAPES[shp], dtype=dt), ZERO, "b0"
    if kind in _SEQ:
        typ = _SEQ[kind][1]
        ks = seq_kinds(kind, shp)
        if ks is None:
            return None
        v = vals(role, shp, dt)
        if v.ndim == 1:
            o = typ(ctx.q(k, np.array(x)) for x, k in zip(v, ks))
        else:       # nested list (rows are lists) or list of tuples
            o = [typ(ctx.q(k, np.array(x)) for x, k in zip(row, ks)) for row in v]
        ds = {ctx.d[k] for k in ks}
        d = ds.pop() if len(ds) == 1 else None
        return o, d, ("qld" if d == ZERO else "ql")
    raise KeyError(kind)


def kinfo(ctx, kind, shp):
    """(reference dimension | None, operand class, is a unyt object) of mk(ctx, kind, shp, ...) without building it; None if no such shape"""
    if kind in QKINDS:
        d = ctx.d[kind]
        return d, ctx.c[kind], True
    if kind == "zeroq":
        d = ctx.d["diff"]
        return d, ctx.c["diff"], True
    if kind == "bscalar":
        return (ZERO, "bn", False) if shp == "0" else None
    if kind == "barray":
        return (ZERO, "ba", False) if (shp != "0" and shp not in DG.EMPTY) else None
    if kind == "barray-z":
        return (ZERO, "ba", False) if shp in ("1", "2") else None
    if kind == "zero":
        return ZERO, "b0", False
    ks = seq_kinds(kind, shp)
    if ks is None:
        return None
    ds = {ctx.d[k] for k in ks}
    d = ds.pop() if len(ds) == 1 else None
    return d, ("qld" if d == ZERO else "ql"), False


def is_unyt(o, un):
    return isinstance(o, un.unyt_array)


_UD = {}


def _udesc(u):
    """printable identity of a Unit object (Unit objects are immutable; cached per object, the object is kept alive by the cache)"""
    c = _UD.get(id(u))
    if c is None or c[0] is not u:
        c = (u, (str(u.expr), float(u.base_value), float(u.base_offset or 0.0), str(u.dimensions)))
        if len(_UD) > 5000:
            _UD.clear()
        _UD[id(u)] = c
    return c[1]


def vsnap(o):
    """(value part, dtype part) of an operand; the value part ignores the dtype"""
    if isinstance(o, np.ndarray):
        u = getattr(o, "units", None)
        a = np.asarray(o)
        if a.dtype.kind in "biuf":
            vb = a.astype("f8").tobytes()
        elif a.dtype.kind == "c":
            vb = a.astype("c16").tobytes()
        else:
            vb = repr(a.tolist())
        ud = None if u is None else _udesc(u)
        return (a.shape, vb, ud), str(a.dtype)
    if isinstance(o, (list, tuple)):
        s = [vsnap(e) for e in o]
        return tuple(x[0] for x in s), tuple(x[1] for x in s)
    return (repr(o),), type(o).__name__


def show(o):
    try:
        if isinstance(o, (list, tuple)):
            return "[" + ", ".join(show(e) for e in o) + "]"
        if isinstance(o, np.ndarray) and hasattr(o, "units"):
            return f"{np.asarray(o).tolist()!r} {o.units}"
        if isinstance(o, np.ndarray):
            return f"array({o.tolist()!r})"
        return repr(o)
    except Exception:
        return "<unprintable>"


# ------------------------------------------------------------------ the judge
class Judge:
    def __init__(self, rec, unyt):
        self.rec = rec
        self.unyt = unyt
        self.twin = twin_of(unyt)
        self.twin_cache = {}
        self.scopes = ()     # names of the history sub-monitors the current cases belong to (each judged case is counted under each)
        self.tags = ()       # door / operand-spelling sub-monitors the current case belongs to (judged and vacuous cases are counted under each)

    def run(self, thunk):
        try:
            return thunk(), None
        except Exception as e:   # "raises" = any Exception (DESIGN 1.10)
            return None, e

    def alive(self, key, build):
        """does the template return on all-dimensionless operands?  build(ctx) -> (thunk, operands)"""
        if key not in self.twin_cache:
            try:
                th, _ = build(self.twin)
                r, e = self.run(th)
                self.twin_cache[key] = (e is None, None if e is None else type(e).__name__)
            except Exception as e:
                self.twin_cache[key] = (False, "build:" + type(e).__name__)
        return self.twin_cache[key][0]

    def case(self, sub, op, form, mode, build, ctx, cell, cls, twin_key, callstr, eq_want=None, after_ok=None, free_reason=None, keyop=None, keybase=None):
        """sub: sub-monitor name; mode: control | free | must-raise | eq | observe"""
        rec = self.rec
        fc = FORMCLASS.get(form, form)
        kb = keybase or f"{keyop or op}/{fc}"
        try:
            thunk, operands = build(ctx)
        except Exception as e:
            rec.note(f"build-failed:{op}/{form}:{type(e).__name__}")
            return
        if ctx.em and mode in ("must-raise", "eq") and cls in ("dimensional", "quantity-list"):
            mode, free_reason = "free", "documented-EM-conversion"
        cls = samespell_class(ctx, cls)
        if mode in ("must-raise", "eq") and not self.alive(twin_key, build):
            rec.note(f"vacuous:{op}/{form}:{self.twin_cache[twin_key][1]}")
            rec.count("vacuous-skipped")
            for t_ in self.tags:
                rec.count("vacuous-tag:" + t_)
            return
        before = [vsnap(o) for o in operands]
        r, e = self.run(thunk)
        if mode == "control":
            if e is None:
                rec.count(f"control-returned:{sub}")
            else:
                rec.note(f"control-raised:{op}/{form}:{type(e).__name__}")
            return
        if mode == "observe":
            rec.note(f"observed:{op}:{cls}:{'returned' if e is None else 'raised'}")
            return
        if mode == "free":
            rec.note(f"not-judged:{free_reason}:{'returned' if e is None else 'raised'}")
            rec.count(f"free:{sub}")
            return
        rec.count(f"judged:{sub}")
        for sc in self.scopes:
            rec.count("judged-scope:" + sc)
        for t_ in self.tags:
            rec.count("judged-tag:" + t_)
        if e is not None:
            rec.count(f"exc:{type(e).__name__}")
            after = [vsnap(o) for o in operands]
            changed = [i for i, (b_, a_) in enumerate(zip(before, after)) if b_[0] != a_[0]]
            if changed:
                i = changed[0]
                rec.reach(f"{op}/{form}")
                rec.violation(f"C01:{kb}:operand-changed:{cls}",
                              f"{callstr} [{ctx.tag}] raised {type(e).__name__} but operand #{i} changed: now {show(operands[i])}",
                              {"op": op, "form": form, "ctx": ctx.tag, "cell": cell})
                return
            if any(b_[1] != a_[1] for b_, a_ in zip(before, after)):
                rec.note(f"dtype-relabel-on-failed-call:{op}/{form}")
            rec.ok((op, form) + tuple(cell))
            rec.reach(f"{op}/{form}")
            return
        # returned
        if mode == "eq":
            want = eq_want
            a = np.asarray(r)
            good = a.dtype.kind in "biufc" and not bool(np.any(a.astype(bool) != want))
            if good:
                rec.count("eq-constant-answer")
                for sc in self.scopes:
                    rec.count("eq-constant-scope:" + sc)
                rec.ok((op, form) + tuple(cell))
                rec.reach(f"{op}/{form}")
            else:
                rec.reach(f"{op}/{form}")
                rec.violation(f"C01:{kb}:{'not-all-true' if want else 'not-all-false'}:{cls}",
                              f"{callstr} [{ctx.tag}] on {', '.join(show(o) for o in operands[:2])} answered {show(r)}; operands of different "
                              f"dimension must compare all-{'True' if want else 'False'}", {"op": op, "form": form, "ctx": ctx.tag, "cell": cell})
            return a.shape
        if after_ok is not None and after_ok(operands, r):
            rec.ok((op, form) + tuple(cell))
            rec.reach(f"{op}/{form}")
            rec.count("replacement-accepted")
            return
        rec.reach(f"{op}/{form}")
        rec.violation(f"C01:{kb}:returned:{cls}",
                      f"{callstr} [{ctx.tag}] on {', '.join(show(o) for o in operands[:3])} returned {show(r)} instead of raising",
                      {"op": op, "form": form, "ctx": ctx.tag, "cell": cell})


def pair_mode(fam, o1, o2):
    """o = (refdim|None, class, ...).  -> (mode, free_reason)"""
    (d1, c1), (d2, c2) = o1[:2], o2[:2]
    mixed = d1 is None or d2 is None or d1 != d2
    if not mixed:
        return "control", None
    bare0 = "b0" in (c1, c2)
    dimless = (d1 == ZERO or d2 == ZERO)
    if bare0:
        return "free", f"bare-zero:{fam}"
    if fam == "order" and dimless:
        return "free", "order-with-dimensionless-operand"
    if fam == "eq":
        if dimless:
            return "free", "eq-with-dimensionless-or-bare-operand"
        return "eq", None
    return "must-raise", None


# ------------------------------------------------------------------ binary ufunc driver
def bshape(x, y):
    return np.broadcast_shapes(np.shape(x), np.shape(y))


def ufunc_builder(un, name, form, k1, s1, k2, s2, dt):
    """-> build(ctx) -> (thunk, operands) or None when the form does not apply to these kinds/shapes"""
    uf = getattr(np, name)
    fam = FAMILY[name]
    if form == "operator" and name not in OPS:
        return None
    if form == "inplace-op" and name not in IOPS:
        return None
    if form == "out-int" and (kindch(dt) != "i" or fam != "arith"):
        return None
    if form in ("inplace-ufunc", "inplace-op") and fam != "arith":
        return None

    def build(ctx):
        ox = mk(ctx, k1, s1, "x", dt)
        oy = mk(ctx, k2, s2, "y", dt)
        x, y = ox[0], oy[0]
        shp = bshape(x, y)
        nout = 2 if name == "divmod" else 1
        if form == "call":
            return (lambda: uf(x, y)), [x, y]
        if form == "operator":
            f = OPS[name]
            return (lambda: f(x, y)), [x, y]
        if form == "outer":
            return (lambda: uf.outer(x, y)), [x, y]
        if form in ("out-q", "out-bare", "out-int"):
            def buf():
                if form == "out-bare":
                    return np.zeros(shp, dtype=bool if fam in ("order", "eq") else ("c16" if kindch(dt) == "c" else "f8"))
                if form == "out-int":
                    return ctx.unyt.unyt_array(np.zeros(shp, dtype="i8"), ctx.U["same"])
                return ctx.unyt.unyt_array(np.zeros(shp, dtype="c16" if kindch(dt) == "c" else "f8"), ctx.U["same"])
            bufs = tuple(buf() for _ in range(nout))
            return (lambda: uf(x, y, out=bufs if nout > 1 else bufs[0])), [x, y] + list(bufs)
        if form == "inplace-ufunc":
            if not isinstance(x, np.ndarray) or np.shape(x) != shp or name == "divmod":
                raise _NA()
            return (lambda: uf(x, y, out=x)), [x, y]
        if form == "inplace-op":
            if not isinstance(x, np.ndarray) or np.shape(x) != shp:
                raise _NA()
            f = IOPS[name]
            return (lambda: f(x, y)), [x, y]
        raise _NA()
    return build


class _NA(Exception):
    pass


def kinds_for(tier):
    return KINDS9 + EXTRA_KINDS


SHAPE_PAIRS_Q = [("1", "1"), ("0", "0"), ("1", "0"), ("0", "1"), ("2", "1"), ("1", "2")]
SHAPE_PAIRS_T = SHAPE_PAIRS_Q + [("2", "2"), ("2", "0"), ("0", "2")]


def drive_ufmatrix(J, payload):
    un, rec = J.unyt, J.rec
    tier = payload["tier"]
    ctxs = [as_ctx(un, c) for c in payload["ctxs"]]
    kinds = payload.get("kinds") or kinds_for(tier)
    shape_pairs = SHAPE_PAIRS_Q if tier == "quick" else SHAPE_PAIRS_T
    shape_pairs = [tuple(x) for x in payload.get("shape_pairs", shape_pairs)]
    kpairs = payload.get("kpairs")      # optional restriction of the ordered operand-kind pairs
    kpairs = None if kpairs is None else {tuple(x) for x in kpairs}
    probe = ctxs[0]
    bshapes = {(a, b): np.broadcast_shapes(SHAPES[a], SHAPES[b]) for a in SHAPES for b in SHAPES if DG.broadcastable(a, b)}
    for name in payload["ufuncs"]:
        fam = FAMILY[name]
        for dt in payload["dtypes"]:
            for (s1, s2) in shape_pairs:
                for k1 in kinds:
                    i1 = kinfo(probe, k1, s1)
                    if i1 is None:
                        continue
                    for k2 in kinds:
                        i2 = kinfo(probe, k2, s2)
                        if i2 is None:
                            continue
                        if not (i1[2] or i2[2]):
                            continue     # no unyt object among the operands: the call never reaches unyt
                        if kpairs is not None and (k1, k2) not in kpairs:
                            continue
                        # a zero-filled quantity meeting an operand that is not a unyt object takes the zero-exception branch (one mechanism)
                        zq = (k1 == "zeroq" and not i2[2]) or (k2 == "zeroq" and not i1[2])
                        keybase = "divmod" if name == "divmod" else ("ufunc(zero-filled-quantity,non-unyt-operand)" if zq else None)
                        if keybase is None and (k1 in NEST_KINDS or k2 in NEST_KINDS):
                            # binary ufuncs coerce a sequence operand by looking at its top-level elements only (one mechanism for every ufunc / form)
                            keybase = "ufunc(nested-quantity-sequence)"
                        for form in BIN_FORMS:
                            b = ufunc_builder(un, name, form, k1, s1, k2, s2, dt)
                            if b is None:
                                continue
                            try:
                                b(J.twin)
                            except _NA:
                                continue
                            except Exception:
                                pass
                            tk = (name, form, k1, s1, k2, s2, dt)
                            cell = (k1 + s1, k2 + s2, dt)
                            callstr = f"np.{name} <{form}>({k1}{SHAPES[s1]}, {k2}{SHAPES[s2]}, {dt})"
                            J.tags = tuple("spelling:" + k for k in (k1, k2) if k in SPELL_KINDS)
                            if DG.pair_class(s1, s2) is not None:
                                # operand-SIZE dimension: an empty / one-element operand in either position
                                J.tags += ("degenerate:ufunc:" + DG.pair_class(s1, s2),)
                                J.tags += tuple(f"degenerate:ufunc:{DG.shape_class(s_)}-{pos}" for pos, s_ in (("first", s1), ("second", s2))
                                                if DG.shape_class(s_))
                            for ctx in ctxs:
                                a1 = kinfo(ctx, k1, s1)
                                a2 = kinfo(ctx, k2, s2)
                                mode, why = pair_mode(fam, a1, a2)
                                shp = J.case("ufunc", name, form, mode, b, ctx, cell + ctx.celltag(), opclass(a1[1], a2[1]), tk, callstr,
                                             eq_want=(name == "not_equal"), free_reason=why, keybase=keybase)
                                if mode == "eq" and shp is not None and tuple(shp) != tuple(bshapes[(s1, s2)]):
                                    rec.note(f"eq-shape-not-broadcast:{name}")
                            J.tags = ()
        # single-operand forms: reduce / accumulate controls, reduce(initial=) and out=+where=
        if payload.get("unary", True):
            drive_unary_forms(J, name, ctxs, payload["dtypes"])


def drive_unary_forms(J, name, ctxs, dtypes):
    un, rec = J.unyt, J.rec
    uf = getattr(np, name)
    fam = FAMILY[name]
    if name == "divmod":
        return
    for dt in dtypes:
        for ctx in ctxs[:2]:
            for meth in ("reduce", "accumulate"):
                for s in ("1", "2"):
                    def build(c, meth=meth, s=s):
                        p = mk(c, "same", s, "x", dt)[0]
                        return (lambda: getattr(uf, meth)(p)), [p]
                    J.case("ufunc", name, meth, "control", build, ctx, (), "", None, f"np.{name}.{meth}(P)")

            # ufunc.at always needs three inputs
            for (k, s) in AT_KINDS:
                def build_at(c, k=k, s=s):
                    p = mk(c, "same", "1", "x", dt)[0]
                    y = mk(c, k, s, "y", dt)[0]
                    return (lambda: uf.at(p, [0, 2] if s == "0" else [0, 2, 1], y)), [p, y]
                if fam == "arith":
                    a1, a2 = kinfo(ctx, "same", "1"), kinfo(ctx, k, s)
                    mode, why = pair_mode(fam, a1, a2)
                    J.tags = ("door:ufunc.at",)
                    J.case("ufunc", name, "at", mode, build_at, ctx, ("same1", k + s, dt), opclass(a1[1], a2[1]), (name, "at", k, s, dt),
                           f"np.{name}.at(P, idx, X={k}{SHAPES[s]})", free_reason=why)
                    J.tags = ()
    if name in REDUCE_UFUNCS:
        for dt in dtypes:
            for k in ("same", "samedim", "diff", "dimless", "percent", "zeroq", "bscalar", "zero"):
                for s in ("1", "2"):
                    def build(c, k=k, s=s):
                        p = mk(c, "same", s, "x", dt)[0]
                        x = mk(c, k, "0", "y", dt)[0]
                        return (lambda: uf.reduce(p, initial=x)), [p, x]
                    for ctx in ctxs:
                        a1 = kinfo(ctx, "same", s)
                        a2 = kinfo(ctx, k, "0")
                        mode, why = pair_mode(fam, a1, a2)
                        if a2[1] == "bn" and mode == "must-raise":
                            mode, why = "free", "bare-number-takes-target-unit"
                        J.case("ufunc", name, "reduce-initial", mode, build, ctx, ("same" + s, k + "0", dt), opclass(a1[1], a2[1]),
                               (name, "reduce-initial", k, s, dt), f"np.{name}.reduce(P{SHAPES[s]}, initial={k})", free_reason=why,
                               keybase="ufunc.reduce(initial=)")
    if name in WHERE_UFUNCS:
        for dt in dtypes:
            for k in ("same", "samedim", "diff", "dimless", "percent", "zeroq", "barray"):
                for s in ("1", "2"):
                    def build(c, k=k, s=s):
                        p = mk(c, "same", s, "x", dt)[0]
                        p2 = mk(c, "same", s, "z", dt)[0]
                        buf = mk(c, k, s, "y", "f8")[0]
                        mask = np.array([True, False, True])
                        return (lambda: uf(p, p2, out=buf, where=mask)), [p, p2, buf]
                    for ctx in ctxs:
                        a1 = kinfo(ctx, "same", s)
                        a2 = kinfo(ctx, k, s)
                        mode, why = pair_mode("arith", a1, a2)
                        if a2[1] == "ba" and mode == "must-raise":
                            mode, why = "free", "bare-out-buffer-keeps-its-own-numbers"
                        J.case("ufunc", name, "out+where", mode, build, ctx, ("same" + s, "buf:" + k + s, dt), opclass(a1[1], a2[1]),
                               (name, "out+where", k, s, dt), f"np.{name}(P, P2, out=buffer[{k}], where=mask)", free_reason=why,
                               keybase="ufunc(out=,where=)")


def drive_ufdims(J, payload):
    un = J.unyt
    tier = payload["tier"]
    forms = ["call", "operator"] if tier == "quick" else ["call", "operator", "out-q", "inplace-op", "outer"]
    shapes = [("1", "1"), ("0", "0")] if tier == "quick" else [("1", "1"), ("0", "0"), ("2", "1"), ("1", "0")]
    forms = payload.get("forms", forms)
    for spec in payload["pairs"]:
        ctx = as_ctx(un, spec)
        uA, uA2, uB = ctx.u["same"], ctx.u["samedim"], ctx.u["diff"]
        if isinstance(spec, Ctx):
            uA, uA2, uB = ctx.tag + ":A", ctx.tag + ":A2", ctx.tag + ":B"
        for name in ARITH + ORDER + EQ:
            fam = FAMILY[name]
            for (s1, s2) in shapes:
                for (k1, k2) in (("same", "diff"), ("samedim", "diff")):
                    for form in forms:
                        b = ufunc_builder(un, name, form, k1, s1, k2, s2, "f8")
                        if b is None:
                            continue
                        try:
                            b(J.twin)
                        except _NA:
                            continue
                        except Exception:
                            pass
                        a1 = kinfo(ctx, k1, s1)
                        a2 = kinfo(ctx, k2, s2)
                        mode, why = pair_mode(fam, a1, a2)
                        J.case("ufunc", name, form, mode, b, ctx, ("dims", uA if k1 == "same" else uA2, uB, s1 + s2), opclass(a1[1], a2[1]),
                               (name, form, k1, s1, k2, s2, "f8"), f"np.{name} <{form}>({k1}{SHAPES[s1]}, {k2}{SHAPES[s2]})",
                               eq_want=(name == "not_equal"), free_reason=why, keybase=("divmod" if name == "divmod" else None))
        # observed-only ufuncs on one shape
        for name in OBSERVED_UFUNCS:
            uf = getattr(np, name)

            def build(c, uf=uf):
                x = mk(c, "same", "1", "x", "f8")[0]
                y = mk(c, "diff", "1", "y", "f8")[0]
                return (lambda: uf(x, y)), [x, y]
            J.case("ufunc", "ufunc." + name, "call", "observe", build, ctx, (), "dimensional", None, name)


# ------------------------------------------------------------------ array functions, setitem, constructors
class Env:
    pass


def make_env(ctx, kind, xshp, dt, plan=None):
    """fresh operands for one template call; returns None when the kind has no realisation of that shape.
    plan (vf/gen/c01_degenerate.py) resizes X alone, every operand, or every operand but X to 0 / 1 elements"""
    n = 3
    if plan is not None:
        xshp, n = DG.env_shapes(plan, xshp)
    ox = mk(ctx, kind, xshp, "y", dt)
    if ox is None:
        return None
    e = Env()
    un = ctx.unyt
    e.un = un
    e.ctx = ctx
    e.X, e.dX, e.cX = ox
    oz = mk(ctx, kind, xshp, "z", dt)
    e.X2 = oz[0]
    s1, s2 = ("1", "2") if n == 3 else (("e", "2e") if n == 0 else ("o", "2o"))
    e.P = mk(ctx, "same", s1, "x", dt)[0]
    e.P2 = mk(ctx, "same", s1, "z", dt)[0]
    e.Pq = mk(ctx, "same", "0", "x", dt)[0]
    e.hi = mk(ctx, "same", "0", "z", dt)[0]
    e.M = mk(ctx, "same", s2, "x", dt)[0]
    e.S = ctx.q("same", np.arange(1, n * n + 1, dtype=dt).reshape(n, n))
    fdt = "c16" if kindch(dt) == "c" else "f8"
    e.buf3 = ctx.q("same", np.zeros(n, dtype=fdt))
    e.buf6 = ctx.q("same", np.zeros(2 * n, dtype=fdt))
    e.buf23 = ctx.q("same", np.zeros((2, n), dtype=fdt))
    e.mask = np.array([True, False, True][:n])
    e.mask2 = np.array([[True, False, True][:n], [False, True, False][:n]])
    e.all3 = np.array([True, True, True][:n])
    e.idx01 = np.array([0, 1, 0][:n], dtype=int)
    e.idx012 = np.array([0, 1, 2][:n], dtype=int)
    e.UA = ctx.U["same"]
    e.uA = ctx.u["same"]
    return e


def env_operands(e):
    return [e.P, e.X, e.P2, e.M, e.S, e.Pq, e.hi, e.buf3, e.buf6, e.buf23, e.X2]


def _ret_P(fn):
    def g(e):
        fn(e)
        return e.P
    return g


try:
    from numpy._core.umath import clip as CLIP_UFUNC
except ImportError:     # NumPy 1.x
    from numpy.core.umath import clip as CLIP_UFUNC
# (door, mechanism-key operation, two-sided?, f(a, lo, hi, buf))
CLIP_DOORS = [
    ("fn", "clip", True, lambda a, lo, hi, b: np.clip(a, lo, hi)),
    ("fn-out", "clip/out", True, lambda a, lo, hi, b: np.clip(a, lo, hi, out=b)),
    ("fn-inplace", "clip/out", True, lambda a, lo, hi, b: np.clip(a, lo, hi, out=a)),
    ("method", "clip/method", True, lambda a, lo, hi, b: a.clip(lo, hi)),
    ("method-kw", "clip/method", True, lambda a, lo, hi, b: a.clip(min=lo, max=hi)),
    ("method-out", "clip/method-out", True, lambda a, lo, hi, b: a.clip(lo, hi, out=b)),
    ("method-inplace", "clip/method-out", True, lambda a, lo, hi, b: a.clip(lo, hi, out=a)),
    ("ufunc", "clip/ufunc", True, lambda a, lo, hi, b: CLIP_UFUNC(a, lo, hi)),
    ("ufunc-out", "clip/ufunc-out", True, lambda a, lo, hi, b: CLIP_UFUNC(a, lo, hi, out=b)),
    ("ufunc-inplace", "clip/ufunc-out", True, lambda a, lo, hi, b: CLIP_UFUNC(a, lo, hi, out=a)),
    ("method-min-only", "clip/method-one-sided", False, lambda a, lo, hi, b: a.clip(lo)),
    ("method-min-only-kw", "clip/method-one-sided", False, lambda a, lo, hi, b: a.clip(min=lo)),
    ("method-max-only", "clip/method-one-sided", False, lambda a, lo, hi, b: a.clip(max=lo)),
    ("method-min-only-out", "clip/method-one-sided-out", False, lambda a, lo, hi, b: a.clip(lo, out=b)),
    ("method-max-only-inplace", "clip/method-one-sided-out", False, lambda a, lo, hi, b: a.clip(None, lo, out=a)),
]
CLIP_POS = [("X,hi", lambda e: (e.X, e.hi)), ("lo,X", lambda e: (e.Pq, e.X2)), ("X,X", lambda e: (e.X, e.X2))]
REDUCE_DOORS = [
    ("method.max", lambda e: e.P.max(initial=e.X)), ("method.min", lambda e: e.P.min(initial=e.X)), ("method.sum", lambda e: e.P.sum(initial=e.X)),
    ("method.max(2d,axis)", lambda e: e.M.max(axis=0, initial=e.X)), ("method.min(where=)", lambda e: e.P.min(initial=e.X, where=e.mask)),
    ("function.max", lambda e: np.max(e.P, initial=e.X)), ("function.min", lambda e: np.min(e.P, initial=e.X)),
    ("function.amax", lambda e: np.amax(e.P, initial=e.X)), ("function.sum", lambda e: np.sum(e.P, initial=e.X)),
    ("function.sum(2d,axis)", lambda e: np.sum(e.M, axis=1, initial=e.X)),
]


def _clip_call(f, sel, xs):
    def g(e):
        a = e.M if xs == "2" else e.P
        lo, hi = sel(e)
        r = f(a, lo, hi, e.buf23 if xs == "2" else e.buf3)
        return r
    return g


def _templates():
    T = []

    def t(name, xshp, fn, *flags, key=None):
        T.append((name, xshp, fn, frozenset(flags), key or name.split("/")[0]))
    t("concatenate/[P,X]", "1", lambda e: np.concatenate([e.P, e.X]))
    t("concatenate/[X,P]", "1", lambda e: np.concatenate([e.X, e.P]))
    t("concatenate/(P,X)", "1", lambda e: np.concatenate((e.P, e.X)))
    t("concatenate/[P,P2,X]", "1", lambda e: np.concatenate([e.P, e.P2, e.X]))
    t("concatenate/[P,X,P2]", "1", lambda e: np.concatenate([e.P, e.X, e.P2]))
    t("concatenate/out=", "1", lambda e: np.concatenate([e.P, e.X], out=e.buf6), key="concatenate/out")
    t("concatenate/axis=1", "2", lambda e: np.concatenate([e.M, e.X], axis=1))
    for nm in ("stack", "vstack", "hstack", "dstack", "column_stack"):
        f = getattr(np, nm)
        t(f"{nm}/[P,X]", "1", lambda e, f=f: f([e.P, e.X]))
        t(f"{nm}/[X,P]", "1", lambda e, f=f: f([e.X, e.P]))
        t(f"{nm}/[P,P2,X]", "1", lambda e, f=f: f([e.P, e.P2, e.X]))
        t(f"{nm}/(P,X)", "1", lambda e, f=f: f((e.P, e.X)))
    t("stack/out=", "1", lambda e: np.stack([e.P, e.X], out=e.buf23), key="stack/out")
    t("stack/2d", "2", lambda e: np.stack([e.M, e.X], axis=1))
    t("vstack/[M,X]", "1", lambda e: np.vstack([e.M, e.X]))
    t("block/[P,X]", "1", lambda e: np.block([e.P, e.X]))
    t("block/[[P],[X]]", "1", lambda e: np.block([[e.P], [e.X]]))
    t("block/[[M],[X]]", "1", lambda e: np.block([[e.M], [e.X]]))
    t("block/[P,P2,X]", "1", lambda e: np.block([e.P, e.P2, e.X]))
    t("where/(c,P,X)", "1", lambda e: np.where(e.mask, e.P, e.X))
    t("where/(c,X,P)", "1", lambda e: np.where(e.mask, e.X, e.P))
    t("where/(c,P,X0)", "0", lambda e: np.where(e.mask, e.P, e.X))
    t("where/(c,X0,P)", "0", lambda e: np.where(e.mask, e.X, e.P))
    t("where/(c2,M,X)", "1", lambda e: np.where(e.mask2, e.M, e.X))
    t("where/(c2,M,X2d)", "2", lambda e: np.where(e.mask2, e.M, e.X))
    t("select/[P,X]", "1", lambda e: np.select([e.mask, ~e.mask], [e.P, e.X]))
    t("select/[X,P]", "1", lambda e: np.select([e.mask, ~e.mask], [e.X, e.P]))
    t("select/[P,P2,X]", "1", lambda e: np.select([e.mask, ~e.mask, e.all3], [e.P, e.P2, e.X]))
    t("select/default=X0", "0", lambda e: np.select([e.mask], [e.P], default=e.X), "num_ok", key="select/default")
    t("select/default=X0,kw-pos", "0", lambda e: np.select([e.mask], [e.P], e.X), "num_ok", key="select/default")
    t("choose/[P,X]", "1", lambda e: np.choose(e.idx01, [e.P, e.X]))
    t("choose/[X,P]", "1", lambda e: np.choose(e.idx01, [e.X, e.P]))
    t("choose/[P,P2,X]", "1", lambda e: np.choose(e.idx012, [e.P, e.P2, e.X]))
    t("choose/out=", "1", lambda e: np.choose(e.idx01, [e.P, e.X], out=e.buf3), key="choose/out")
    t("insert/X0", "0", lambda e: np.insert(e.P, 1, e.X), "num_ok")
    t("insert/X", "1", lambda e: np.insert(e.P, [0, 1, 2], e.X))
    t("put/X0", "0", _ret_P(lambda e: np.put(e.P, [0, 2], e.X)), "num_ok")
    t("put/X", "1", _ret_P(lambda e: np.put(e.P, [0, 1, 2], e.X)))
    t("place/X", "1", _ret_P(lambda e: np.place(e.P, e.mask, e.X)))
    t("putmask/X", "1", _ret_P(lambda e: np.putmask(e.P, e.mask, e.X)))
    t("putmask/X0", "0", _ret_P(lambda e: np.putmask(e.P, e.mask, e.X)), "num_ok")
    t("put_along_axis/X", "1", _ret_P(lambda e: np.put_along_axis(e.P, np.array([2, 0, 1]), e.X, 0)))
    t("put_along_axis/X0", "0", _ret_P(lambda e: np.put_along_axis(e.P, np.array([2, 0]), e.X, 0)), "num_ok")
    t("fill_diagonal/X0", "0", lambda e: (np.fill_diagonal(e.S, e.X), e.S)[1], "num_ok")
    t("fill_diagonal/X", "1", lambda e: (np.fill_diagonal(e.S, e.X), e.S)[1])
    t("copyto/full", "1", _ret_P(lambda e: np.copyto(e.P, e.X)), "overwrite")
    t("copyto/full-X0", "0", _ret_P(lambda e: np.copyto(e.P, e.X)), "overwrite", "num_ok")
    t("copyto/where=", "1", _ret_P(lambda e: np.copyto(e.P, e.X, where=e.mask)), key="copyto/where")
    t("copyto/where=,X0", "0", _ret_P(lambda e: np.copyto(e.P, e.X, where=e.mask)), "num_ok", key="copyto/where")
    t("copyto/2d,where=", "1", lambda e: (np.copyto(e.M, e.X, where=e.mask2), e.M)[1], key="copyto/where")
    t("isin/(P,X)", "1", lambda e: np.isin(e.P, e.X))
    t("isin/(X,P)", "1", lambda e: np.isin(e.X, e.P))
    t("isin/(P,X0)", "0", lambda e: np.isin(e.P, e.X))
    if hasattr(np, "in1d"):
        t("in1d/(P,X)", "1", lambda e: np.in1d(e.P, e.X))
    t("searchsorted/(P,X0)", "0", lambda e: np.searchsorted(e.P, e.X), "num_ok")
    t("searchsorted/(P,X)", "1", lambda e: np.searchsorted(e.P, e.X))
    t("searchsorted/(P,X,side=right)", "1", lambda e: np.searchsorted(e.P, e.X, side="right"))
    for nm in ("intersect1d", "union1d", "setdiff1d"):
        f = getattr(np, nm)
        t(f"{nm}/(P,X)", "1", lambda e, f=f: f(e.P, e.X))
        t(f"{nm}/(X,P)", "1", lambda e, f=f: f(e.X, e.P))
    t("intersect1d/return_indices", "1", lambda e: np.intersect1d(e.P, e.X, return_indices=True))
    t("linspace/(Pq,X0)", "0", lambda e: np.linspace(e.Pq, e.X, 4))
    t("linspace/(X0,Pq)", "0", lambda e: np.linspace(e.X, e.Pq, 4))
    t("linspace/(P,X)", "1", lambda e: np.linspace(e.P, e.X, 4))
    t("linspace/retstep", "0", lambda e: np.linspace(e.Pq, e.X, 4, retstep=True))
    t("geomspace/(Pq,X0)", "0", lambda e: np.geomspace(e.Pq, e.X, 4))
    t("geomspace/(X0,Pq)", "0", lambda e: np.geomspace(e.X, e.Pq, 4))
    t("interp/(X0,xp=P,fp)", "0", lambda e: np.interp(e.X, e.P, e.P2))
    t("interp/(X,xp=P,fp)", "1", lambda e: np.interp(e.X, e.P, e.P2))
    t("interp/(Pq,xp=X,fp)", "1", lambda e: np.interp(e.Pq, e.X, e.P2), key="interp/xp")
    t("interp/(P,xp=X,fp=bare)", "1", lambda e: np.interp(e.P, e.X, np.array([1.0, 2.0, 3.0])), key="interp/xp")
    t("interp/left=X0", "0", lambda e: np.interp(e.Pq, e.P, e.P2, left=e.X), "num_ok", "kwfill", key="interp/left|right")
    t("interp/right=X0", "0", lambda e: np.interp(e.hi, e.P, e.P2, right=e.X), "num_ok", "kwfill", key="interp/left|right")
    t("clip/(P,X0,hi)", "0", lambda e: np.clip(e.P, e.X, e.hi), "num_ok")
    t("clip/(P,lo,X0)", "0", lambda e: np.clip(e.P, e.Pq, e.X2), "num_ok")
    t("clip/(P,X0,X0)", "0", lambda e: np.clip(e.P, e.X, e.X2), "num_ok")
    t("clip/(P,1.0,X0)", "0", lambda e: np.clip(e.P, 1.0, e.X2), "num_ok")
    t("clip/(P,X0,9.0)", "0", lambda e: np.clip(e.P, e.X, 9.0), "num_ok")
    t("clip/(P,X,hi)", "1", lambda e: np.clip(e.P, e.X, e.hi))
    t("clip/(P,X0,None)", "0", lambda e: np.clip(e.P, e.X, None), "num_ok")
    t("clip/(P,None,X0)", "0", lambda e: np.clip(e.P, None, e.X2), "num_ok")
    t("clip/out=", "0", lambda e: np.clip(e.P, e.X, e.hi, out=e.buf3), "num_ok", key="clip/out")
    t("clip/a_min=,a_max=", "0", lambda e: np.clip(e.P, a_min=e.X, a_max=e.hi), "num_ok", key="clip/kw")
    t("clip/min=,max=", "0", lambda e: np.clip(e.P, min=e.X, max=e.hi), "num_ok", key="clip/kw")
    t("clip/method", "0", lambda e: e.P.clip(e.X, e.hi), "num_ok", key="clip/method")
    t("clip/ufunc", "0", lambda e: np._core.umath.clip(e.P, e.X, e.hi), "num_ok", key="clip/ufunc")
    # ---- every call door of clipping (function, out=, ndarray method positional / keyword / out= / in place, the clip ufunc object, one-sided
    # method forms that end in maximum / minimum) x position of the foreign bound x scalar / 1-d / 2-d bounds (the kind loop supplies the spelling)
    for (door, key, two, f) in CLIP_DOORS:
        for (pos, sel) in (CLIP_POS if two else CLIP_POS[:1]):
            for xs in ("0", "1", "2"):
                if xs == "2" and pos != "X,hi":
                    continue
                t(f"clip/{door}/({'M' if xs == '2' else 'P'},{pos}){xs}", xs, _clip_call(f, sel, xs), *((("num_ok",) if xs == "0" else ()) + ("door:clip:" + door,)),
                  key=key)
    # ---- ufunc.reduce(initial=) through its other doors: the ndarray method and the NumPy function that forward to it
    for (door, f) in REDUCE_DOORS:
        t(f"reduce-initial/{door}", "0", f, "num_ok", "door:reduce-initial:" + door.split("(")[0], key="reduce(initial=)/" + door.split(".")[0])
    t("pad/constant_values=X0", "0", lambda e: np.pad(e.P, 1, constant_values=e.X), "num_ok", "kwfill", key="pad/fill-values")
    t("pad/constant_values=(X0,X0)", "0", lambda e: np.pad(e.P, 1, constant_values=(e.X, e.X2)), "num_ok", "kwfill", key="pad/fill-values")
    t("pad/end_values=X0", "0", lambda e: np.pad(e.P, 1, mode="linear_ramp", end_values=e.X), "num_ok", "kwfill", key="pad/fill-values")
    t("diff/prepend=X0", "0", lambda e: np.diff(e.P, prepend=e.X), "num_ok", "kwfill", key="diff/prepend|append")
    t("diff/append=X", "1", lambda e: np.diff(e.P, append=e.X), "kwfill", key="diff/prepend|append")
    t("ediff1d/to_end=X0", "0", lambda e: np.ediff1d(e.P, to_end=e.X), "num_ok", "kwfill", key="ediff1d/to_begin|to_end")
    t("ediff1d/to_begin=X", "1", lambda e: np.ediff1d(e.P, to_begin=e.X), "kwfill", key="ediff1d/to_begin|to_end")
    t("histogram/bins=X", "1", lambda e: np.histogram(e.P, bins=e.X2), "kwfill", key="histogram*/bins")
    t("histogram/range=(X0,X0)", "0", lambda e: np.histogram(e.P, bins=3, range=(e.X, e.X2)), "num_ok", key="histogram/range")
    t("histogram_bin_edges/range=(X0,X0)", "0", lambda e: np.histogram_bin_edges(e.P, bins=3, range=(e.X, e.X2)), "num_ok", "kwfill", key="histogram_bin_edges/range")
    t("histogram_bin_edges/bins=X", "1", lambda e: np.histogram_bin_edges(e.P, bins=e.X2), "kwfill", key="histogram*/bins")
    t("histogram2d/bins=[X,X]", "1", lambda e: np.histogram2d(e.P, e.P2, bins=[e.X2, e.X2]), "kwfill", key="histogram*/bins")
    t("histogramdd/bins=[X,X]", "1", lambda e: np.histogramdd([e.P, e.P2], bins=[e.X2, e.X2]), "kwfill", key="histogram*/bins")
    t("array_equal/(P,X)", "1", lambda e: np.array_equal(e.P, e.X), "eqlike")
    t("array_equal/(X,P)", "1", lambda e: np.array_equal(e.X, e.P), "eqlike")
    t("array_equiv/(P,X)", "1", lambda e: np.array_equiv(e.P, e.X), "eqlike")
    t("array_equiv/(P,X0)", "0", lambda e: np.array_equiv(e.P, e.X), "eqlike")
    t("isclose/(P,X)", "1", lambda e: np.isclose(e.P, e.X), "observe")
    t("allclose/(P,X)", "1", lambda e: np.allclose(e.P, e.X), "observe")
    # unyt's own (deprecated) merging helpers and constructors
    for nm in ("uconcatenate", "uvstack", "uhstack", "ustack", "uunion1d", "uintersect1d"):
        t(f"unyt.{nm}/[P,X]", "1", lambda e, nm=nm: getattr(e.un.array, nm)(*([[e.P, e.X]] if nm in ("uconcatenate", "uvstack", "uhstack", "ustack") else [e.P, e.X])))
    t("unyt_array([Pq,X0])", "0", lambda e: e.un.unyt_array([e.Pq, e.X]), key="unyt_array-from-list")
    t("unyt_array([X0,Pq])", "0", lambda e: e.un.unyt_array([e.X, e.Pq]), key="unyt_array-from-list")
    t("unyt_array([Pq,X0],uA)", "0", lambda e: e.un.unyt_array([e.Pq, e.X], e.uA), key="unyt_array-from-list")
    t("unyt_array([Pq,hi,X0])", "0", lambda e: e.un.unyt_array([e.Pq, e.hi, e.X]), key="unyt_array-from-list")
    t("unyt_array((Pq,X0))", "0", lambda e: e.un.unyt_array((e.Pq, e.X)), key="unyt_array-from-list")
    # __setitem__
    t("setitem/int", "0", _ret_P(lambda e: e.P.__setitem__(1, e.X)), "num_ok")
    t("setitem/neg-int", "0", _ret_P(lambda e: _op.setitem(e.P, -1, e.X)), "num_ok")
    t("setitem/slice=X0", "0", _ret_P(lambda e: _op.setitem(e.P, slice(0, 2), e.X)), "num_ok")
    t("setitem/slice=X", "1", _ret_P(lambda e: _op.setitem(e.P, slice(None), e.X)))
    t("setitem/ellipsis=X", "1", _ret_P(lambda e: _op.setitem(e.P, Ellipsis, e.X)))
    t("setitem/mask=X0", "0", _ret_P(lambda e: _op.setitem(e.P, e.mask, e.X)), "num_ok")
    t("setitem/mask=X", "1", _ret_P(lambda e: _op.setitem(e.P, e.all3, e.X)))
    t("setitem/fancy=X", "1", _ret_P(lambda e: _op.setitem(e.P, [2, 0, 1], e.X)))
    t("setitem/fancy=X0", "0", _ret_P(lambda e: _op.setitem(e.P, [0, 2], e.X)), "num_ok")
    t("setitem/2d-row=X", "1", lambda e: (_op.setitem(e.M, 0, e.X), e.M)[1])
    t("setitem/2d-elem=X0", "0", lambda e: (_op.setitem(e.M, (1, 2), e.X), e.M)[1], "num_ok")
    t("setitem/2d=X2d", "2", lambda e: (_op.setitem(e.M, (slice(None), slice(None)), e.X), e.M)[1])
    t("setitem/0d=X0", "0", lambda e: (_op.setitem(e.Pq, (), e.X), e.Pq)[1], "num_ok")
    # outside the quantifier: NumPy functions without a unyt implementation, ndarray methods unyt does not override
    t("observe.append", "1", lambda e: np.append(e.P, e.X), "observe")
    t("observe.setxor1d", "1", lambda e: np.setxor1d(e.P, e.X), "observe")
    t("observe.digitize", "1", lambda e: np.digitize(e.P, e.X), "observe")
    t("observe.r_", "1", lambda e: np.r_[e.P, e.X], "observe")
    t("observe.method.fill", "0", _ret_P(lambda e: e.P.fill(e.X)), "observe")
    t("observe.method.put", "0", _ret_P(lambda e: e.P.put([0], e.X)), "observe")
    t("observe.method.searchsorted", "0", lambda e: e.P.searchsorted(e.X), "observe")
    t("observe.flat-setitem", "0", _ret_P(lambda e: e.P.flat.__setitem__(0, e.X)), "observe")
    t("observe.full_like", "0", lambda e: np.full_like(e.P, e.X), "observe")
    t("observe.take(out=)", "1", lambda e: np.take(e.P, [0, 1, 2], out=e.X), "observe")
    return T


TEMPLATES = _templates()
# which NumPy function a template drives (for the `unreached handled functions` listing)
def template_function(name):
    return name.split("/")[0]


# handled functions that do not merge or compare values of several arrays (single-array, multiplicative, formatting, linalg, fft)
NOT_MERGING = {"apply_over_axes", "around", "array2string", "array_repr", "convolve", "correlate", "cross", "cumprod", "cumulative_prod",
               "dot", "einsum", "inner", "kron", "logspace", "nanpercentile", "nanquantile", "outer", "percentile", "prod", "ptp", "quantile",
               "savetxt", "sinc", "sort_complex", "take", "tensordot", "trace", "trapezoid", "trapz", "tril", "triu", "unwrap", "var", "vdot",
               "asfarray", "isclose", "allclose"}

AF_KINDS = ["same", "samedim", "diff", "dimless", "percent", "zeroq", "bscalar", "barray", "barray-z", "zero", "qlist", "qlist-diff",
            "qlist-mixed", "qlist-dl"] + SPELL_KINDS


def af_mode(dX, cX, dA, flags):
    if "observe" in flags:
        return "observe", None
    if dX is None:
        return ("eq" if "eqlike" in flags else "must-raise"), None
    if cX == "b0":
        return "free", "bare-zero:merge"
    if dX == dA:
        return "control", None
    if cX == "bn" and "num_ok" in flags:
        return "free", "bare-number-takes-target-unit"
    if "eqlike" in flags:
        return "eq", None
    return "must-raise", None


def drive_arrayfn(J, payload, only=None):
    un, rec = J.unyt, J.rec
    ctxs = [as_ctx(un, c) for c in payload["ctxs"]]
    plans = [None if p_ is None else tuple(p_) for p_ in payload.get("plans", [None])]
    for (name, xshp0, fn, flags, keyop) in TEMPLATES:
        if only is not None and name not in only:
            continue
        sub = "setitem" if name.startswith("setitem/") else "arrayfn"
        for dt, plan in ((dt_, p_) for dt_ in payload["dtypes"] for p_ in plans):
            # operand-SIZE dimension: under a plan X (or every operand, or every operand but X) has 0 / 1 elements
            xshp = xshp0 if plan is None else DG.env_shapes(plan, xshp0)[0]
            if plan is not None and plan[0] == "all" and xshp0 == "0":
                continue        # X stays a scalar: that is the P plan
            ptag = () if plan is None else (DG.plan_tag(plan),)
            for kind in payload.get("kinds", AF_KINDS):
                if kinfo(J.twin, kind, xshp) is None:
                    continue

                def build(c, kind=kind, plan=plan):
                    e = make_env(c, kind, xshp0, dt, plan)
                    return (lambda: fn(e)), env_operands(e)
                for ctx in ctxs:
                    dX, cX, _ = kinfo(ctx, kind, xshp)
                    mode, why = af_mode(dX, cX, ctx.d["same"], flags)
                    cls = opclass("q", cX)
                    if "kwfill" in flags:
                        # handlers that forward a keyword operand to NumPy without looking at it: one key for every kind of quantity
                        cls = {"ba": "bare-array", "bn": "bare-number", "b0": "bare-zero"}.get(cX, "quantity")
                    after_ok = None
                    if "overwrite" in flags and mode == "must-raise" and cX in ("q", "dl", "dlp", "ql", "qld") and dX is not None:
                        after_ok = (lambda ops, r, dX=dX: hasattr(ops[0], "units") and udim(ops[0].units) == dX)
                    J.tags = tuple(f for f in flags if f.startswith("door:")) + (("spelling:" + kind,) if kind in SPELL_KINDS else ())
                    if plan is not None:
                        J.tags = (f"degenerate:{sub}:{DG.plan_class(plan)}",)
                    J.case(sub, name, "call", mode, build, ctx, (kind + xshp, dt) + ptag + ctx.celltag(), cls, (name, kind, dt) + ptag,
                           f"{name} with X={kind}{SHAPES[xshp]} ({dt}){' ' + ptag[0] if ptag else ''}", eq_want=False, after_ok=after_ok,
                           free_reason=why, keyop=keyop)
                    J.tags = ()


# ------------------------------------------------------------------ conversions
ROUTES = ["to(str)", "to(Unit)", "in_units", "to_value", "convert_to_units", "q.to", "q.in_units", "q.to_value", "q.convert_to_units",
          "view.convert_to_units", "Unit.get_conversion_factor", "to(quantity)", "Unit+Unit", "Unit-Unit"]


def conv_builder(route, dt, shp="1"):
    def build(c):
        un = c.unyt
        a = mk(c, "same", shp, "x", dt)[0]
        q = mk(c, "same", "0", "x", dt)[0]
        tgt = c.u["diff"]
        TU = c.U["diff"]
        if route == "to(str)":
            return (lambda: a.to(tgt)), [a]
        if route == "to(Unit)":
            return (lambda: a.to(TU)), [a]
        if route == "in_units":
            return (lambda: a.in_units(tgt)), [a]
        if route == "to_value":
            return (lambda: a.to_value(tgt)), [a]
        if route == "convert_to_units":
            return (lambda: (a.convert_to_units(tgt), a)[1]), [a]
        if route == "q.to":
            return (lambda: q.to(tgt)), [q]
        if route == "q.in_units":
            return (lambda: q.in_units(TU)), [q]
        if route == "q.to_value":
            return (lambda: q.to_value(tgt)), [q]
        if route == "q.convert_to_units":
            return (lambda: (q.convert_to_units(tgt), q)[1]), [q]
        if route == "view.convert_to_units":
            base = mk(c, "same", "2", "x", dt)[0]
            v = base[0]
            return (lambda: (v.convert_to_units(tgt), v)[1]), [v, base]
        if route == "Unit.get_conversion_factor":
            return (lambda: c.U["same"].get_conversion_factor(TU)), []
        if route == "to(quantity)":
            tq = un.unyt_quantity(1.0, TU)
            return (lambda: a.to(tq)), [a, tq]
        if route == "Unit+Unit":
            return (lambda: c.U["same"] + TU), []
        if route == "Unit-Unit":
            return (lambda: c.U["same"] - TU), []
        raise KeyError(route)
    return build


ARRAY_ROUTES = ["to(str)", "to(Unit)", "in_units", "to_value", "convert_to_units", "to(quantity)"]     # routes whose source is the array `a`


def convert_ctx(J, ctx, dts, routes=None, shp="1"):
    """all conversion routes from ctx's unit A to its unit B; shp = shape code of the converted array (degenerate sizes: array routes only)"""
    stag = () if shp == "1" else (shp,)
    rec = J.rec
    a, b = ctx.u["same"], ctx.u["diff"]
    dA, dB = ctx.d["same"], ctx.d["diff"]
    cls = samespell_class(ctx, opclass(ctx.c["same"], ctx.c["diff"]))
    for dt in dts:
        for route in (routes or ROUTES):
            b_ = conv_builder(route, dt, shp)
            if route.startswith("Unit") and route[4] in "+-":
                # Unit + Unit / Unit - Unit always raise (statement anchor): no returning twin exists; counted directly
                th, ops = b_(ctx)
                r, e = J.run(th)
                rec.count("judged:unitop")
                if e is None:
                    rec.violation(f"C01:{route}/call:returned:{cls}", f"Unit('{a}') {route[4]} Unit('{b}') returned {r!r}", {"ctx": ctx.tag})
                else:
                    rec.ok((route, "call", "dims", ctx.tag))
                    rec.reach(route + "/call")
                continue
            if dA == dB:
                mode, why = "control", None
            elif frozenset((dA, dB)) in EM_PAIRS:
                mode, why = "free", "documented-EM-conversion"
            else:
                mode, why = "must-raise", None
            J.case("convert", route, "call", mode, b_, ctx, ("dims", ctx.tag, dt) + stag, cls, (route, dt) + stag,
                   f"{route}: {a} -> {b} ({dt}{', source array of shape ' + str(SHAPES[shp]) if stag else ''})", free_reason=why)


def drive_convert(J, payload):
    un = J.unyt
    dts = ["f8", "i8"] if payload["tier"] == "quick" else ["f8", "f4", "i8", "i4", "c16"]
    specials = [("same", "dimless"), ("same", "percent"), ("dimless", "diff"), ("percent", "diff")]
    for (uA, uA2, uB) in payload["pairs"]:
        for (a, b) in ((uA, uB), (uA2, uB)):
            convert_ctx(J, Ctx(un, a, a, b), dts)
        # dimensionless targets / sources (one dtype)
        ctx0 = Ctx(un, uA, uA2, uB)
        for (ka, kb) in specials:
            convert_ctx(J, Ctx(un, ctx0.u[ka], ctx0.u[ka], ctx0.u[kb]), ["f8"], ROUTES[:10])


# custom registries: the dimension of a user-defined symbol is what its definer said (name of the unyt.dimensions object -> own vector)
REG_DIMS = {"length": ("L", "m"), "time": ("T", "s"), "mass": ("M", "g"), "energy": ("M L2 T-2", "J"), "temperature": ("K", "K"),
            "velocity": ("L T-1", "mph"), "pressure": ("M L-1 T-2", "Pa"), "angle": ("A", "rad"), "frequency": ("T-1", "Hz"),
            "current_mks": ("I", "A"), "area": ("L2", "ha"), "dimensionless": ("", "dimensionless")}
REG_TEMPLATES = {"concatenate/[P,X]", "concatenate/[X,P]", "where/(c,P,X)", "stack/[P,P2,X]", "setitem/int", "setitem/slice=X", "setitem/mask=X0",
                 "setitem/fancy=X", "setitem/2d-row=X", "clip/(P,X0,hi)", "copyto/where=", "linspace/(Pq,X0)", "searchsorted/(P,X)", "union1d/(P,X)",
                 "isin/(P,X)", "insert/X0", "put/X", "unyt_array([Pq,X0])", "unyt_array([Pq,X0],uA)", "interp/(X,xp=P,fp)", "array_equal/(P,X)",
                 "select/[P,X]", "choose/[P,X]", "fill_diagonal/X0", "putmask/X", "place/X"}


def registry_contexts(unyt, X, Y, scenario):
    """-> (warm ctx, judged ctx): the same spellings (user symbol -> SI unit of X) are commensurable in the first and not in the second.
    two-registries: the symbol is an X in registry A and a Y in registry B; redefined: one registry, symbol removed and re-added as a Y;
    cross: user symbol of registry A against the same symbol of registry B."""
    from unyt.unit_registry import UnitRegistry
    import unyt.dimensions as ud
    dX, siX = REG_DIMS[X]
    dY, siY = REG_DIMS[Y]
    DX, DY = dims.D(dX), dims.D(dY)
    if scenario == "redefined":
        reg = UnitRegistry()
        reg.add("blip", 2.0, getattr(ud, X))
        ua_ = unyt.Unit("blip", registry=reg)
        warm = Ctx.custom(unyt, {"same": ua_, "samedim": unyt.Unit(siX, registry=reg), "diff": unyt.Unit(siX)},
                          {"same": "blip", "samedim": siX, "diff": siX}, {"same": DX, "samedim": DX, "diff": DX}, f"blip[{X}]|{siX}")

        def judged():
            reg.remove("blip")
            reg.add("blip", 2.0, getattr(ud, Y))
            ub_ = unyt.Unit("blip", registry=reg)
            return Ctx.custom(unyt, {"same": ub_, "samedim": unyt.Unit(siY, registry=reg), "diff": unyt.Unit(siX)},
                              {"same": "blip", "samedim": siY, "diff": siX}, {"same": DY, "samedim": DY, "diff": DX}, f"blip[{X}->{Y}]|{siX}")
        return warm, judged
    regA, regB = UnitRegistry(), UnitRegistry()
    regA.add("tick", 2.0, getattr(ud, X))
    regB.add("tick", 2.0, getattr(ud, Y))
    ta, tb = unyt.Unit("tick", registry=regA), unyt.Unit("tick", registry=regB)
    warm = Ctx.custom(unyt, {"same": ta, "samedim": unyt.Unit(siX, registry=regA), "diff": unyt.Unit(siX)},
                      {"same": "tick", "samedim": siX, "diff": siX}, {"same": DX, "samedim": DX, "diff": DX}, f"tick[{X}]|{siX}")
    if scenario == "cross":
        return warm, (lambda: Ctx.custom(unyt, {"same": ta, "samedim": unyt.Unit(siX, registry=regA), "diff": tb},
                                         {"same": "tick", "samedim": siX, "diff": "tick"}, {"same": DX, "samedim": DX, "diff": DY},
                                         f"tick[{X}]|tick[{Y}]"))
    return warm, (lambda: Ctx.custom(unyt, {"same": tb, "samedim": unyt.Unit(siY, registry=regB), "diff": unyt.Unit(siX)},
                                     {"same": "tick", "samedim": siY, "diff": siX}, {"same": DY, "samedim": DY, "diff": DX},
                                     f"tick[{Y}]|{siX} after tick[{X}]"))


def drive_registry(J, payload):
    """units whose dimension is not fixed by their spelling (user symbols of custom registries), after a history in which the
    identically spelled operation was legitimate"""
    un = J.unyt
    for (X, Y, scenario) in payload["cases"]:
        warm, judged = registry_contexts(un, X, Y, scenario)
        for ctx in (warm, judged):
            if callable(ctx):
                ctx = ctx()
            if scenario != "cross":
                convert_ctx(J, ctx, ["f8", "i8"])    # string targets are only meaningful when B is a default-registry unit
            drive_ufdims(J, {"pairs": [ctx], "tier": "quick", "forms": ["call", "operator", "out-q", "inplace-op", "outer"]})
            drive_arrayfn(J, {"ctxs": [ctx], "dtypes": ["f8"]}, only=REG_TEMPLATES)
    J.rec.sample({"registry-cases": payload["cases"][:4]})


# ------------------------------------------------------------------ unit objects that outlive an edit of their registry
# A Unit object is a snapshot: it keeps the scale and dimension its symbol had when it was built.  Operands of the SAME spelling in the SAME
# registry object built on either side of an edit that changed the symbol's dimension (or in two registries that define the symbol
# differently) are operands of different dimension like any other pair.
STALE_SYM = "blip"
STALE_SI = {"length": "m", "time": "s", "mass": "kg", "energy": "J", "temperature": "K", "velocity": "m/s", "pressure": "Pa", "angle": "rad",
            "frequency": "Hz", "current_mks": "A", "area": "m**2"}     # the unit of scale 1 of each dimension (modify(quantity) re-bases to mks)
assert all(uexpr.evaluate(v, _RES)[0] == 1.0 and uexpr.evaluate(v, _RES)[1] == dims.D(REG_DIMS[k][0]) for k, v in STALE_SI.items())
STALE_EDITS = ["modify-q", "modify-q-value", "remove-add", "remove-add-value", "re-add", "two-registries", "two-registries-value"]
STALE_FORMS = {"sym": ("{s}", lambda d: d), "sym/s": ("{s}/s", lambda d: dims.div(d, dims.D("T"))), "sym**2": ("{s}**2", lambda d: dims.power(d, 2)),
               "g*sym": ("g*{s}", lambda d: dims.mul(dims.D("M"), d)), "1/sym": ("1/{s}", lambda d: dims.power(d, -1)),
               "sqrt(sym)*K": ("{s}**0.5*K", lambda d: dims.mul(dims.power(d, "1/2"), dims.D("K")))}
STALE_FORMS_Q = ["sym", "sym/s", "sym**2", "g*sym"]
STALE_DERIVE = ["constructed", "arithmetic", "view"]
STALE_ORDERS = ["old-new", "new-old"]
STALE_VALUES = [1.0, 2.0, 0.5, 1000.0, 3.0856775814913674e16]
STALE_KPAIRS = [("same", "diff"), ("diff", "same"), ("same", "zeroq"), ("zeroq", "same"), ("same", "qlist-diff"), ("qlist-diff", "same"),
                ("same", "qlist-mixed"), ("qlist-mixed", "same"), ("diff", "qlist"), ("qlist", "diff"), ("same", "same")]
STALE_UFUNCS_Q = ["add", "maximum", "remainder", "arctan2", "less", "equal", "not_equal"]    # quick tier: list / zero-filled operands of the pair
STALE_AF_KINDS = ["same", "diff", "zeroq", "qlist-diff", "qlist-mixed"]
STALE_TEMPLATES_Q = REG_TEMPLATES - {"unyt_array([Pq,X0],uA)"} | {
    "concatenate/[P,P2,X]", "concatenate/out=", "vstack/[P,X]", "hstack/[X,P]", "dstack/[P,X]", "column_stack/[P,X]", "stack/[P,X]", "block/[P,X]",
    "where/(c,X,P)", "where/(c,P,X0)", "select/default=X0", "select/[P,P2,X]", "clip/(P,X,hi)", "clip/(P,lo,X0)", "clip/method", "clip/ufunc",
    "intersect1d/(P,X)", "setdiff1d/(X,P)", "unyt_array([X0,Pq])", "unyt_array([Pq,hi,X0])", "array_equal/(X,P)", "array_equiv/(P,X)",
    "put_along_axis/X", "copyto/full", "setitem/ellipsis=X", "setitem/2d=X2d", "setitem/0d=X0", "geomspace/(Pq,X0)", "interp/(Pq,xp=X,fp)",
    "unyt.uconcatenate/[P,X]", "unyt.uunion1d/[P,X]", "searchsorted/(P,X0)", "isin/(X,P)", "insert/X", "linspace/(P,X)"}
assert STALE_TEMPLATES_Q <= {t[0] for t in TEMPLATES}
OBJ_ROUTES = ["to(Unit)", "q.in_units", "Unit.get_conversion_factor", "to(quantity)", "Unit+Unit", "Unit-Unit"]


def stale_batches(tier):
    forms = STALE_FORMS_Q if tier == "quick" else list(STALE_FORMS)
    reps = 1 if tier == "quick" else 6
    return [(e, f, dv, rep) for e in STALE_EDITS for f in forms for dv in STALE_DERIVE for rep in range(reps)]


def _stale_derive(un, how, pre_one, U):
    """-> fn(values) -> quantity carrying the snapshot unit, by one of three ordinary routes"""
    if how == "constructed":       # built now from the Unit object that was taken before the edit
        return lambda v: (un.unyt_quantity if np.ndim(v) == 0 else un.unyt_array)(v, U)
    if how == "arithmetic":        # arithmetic on a quantity that was built (from the string) before the edit
        return lambda v: np.asarray(v) * pre_one
    if how == "view":              # an item / row view of an array labelled before the edit
        return lambda v: un.unyt_array(np.stack([np.asarray(v), np.asarray(v)]), U)[0]
    raise KeyError(how)


def drive_stale(J, bid, payload):
    un, rec = J.unyt, J.rec
    from unyt.unit_registry import UnitRegistry
    import unyt.dimensions as ud
    r = core.rng(payload["seed"], bid)
    tier = payload["tier"]
    names_ = sorted(STALE_SI) if tier != "quick" else ["length", "time", "mass", "energy", "temperature", "velocity"]
    templates = STALE_TEMPLATES_Q if tier == "quick" else {t[0] for t in TEMPLATES if "observe" not in t[3]} - {"unyt_array([Pq,X0],uA)"}
    shape_pairs = [("1", "1"), ("0", "0"), ("1", "0")] if tier == "quick" else [("1", "1"), ("0", "0"), ("1", "0"), ("0", "1"), ("2", "1")]
    for (edit, form, derive, rep) in payload["cases"]:
        fstr, fdim = STALE_FORMS[form]
        while True:
            X, Y = r.sample(names_, 2)
            DX, DY = fdim(dims.D(REG_DIMS[X][0])), fdim(dims.D(REG_DIMS[Y][0]))
            if ZERO not in (DX, DY) and DX != DY and frozenset((DX, DY)) not in EM_PAIRS:
                break
        v0 = r.choice(STALE_VALUES)
        v1 = r.choice([v for v in STALE_VALUES if v != v0]) if edit.endswith("-value") else v0
        fs = fstr.format(s=STALE_SYM)
        siX, siY = fstr.format(s="(" + STALE_SI[X] + ")"), fstr.format(s="(" + STALE_SI[Y] + ")")
        reg = UnitRegistry()
        reg.add(STALE_SYM, v0, getattr(ud, X))
        old_one = un.unyt_quantity(1.0, fs, registry=reg)       # labelled by string while the symbol is an X
        U_old = old_one.units
        mk_old = _stale_derive(un, derive, old_one, U_old)
        tag0 = f"{fs}[{X}>{Y}]{edit}/{derive}"
        J.scopes = ()
        warm = Ctx.custom(un, {"same": U_old, "samedim": un.Unit(siX, registry=reg), "diff": un.Unit(siX, registry=reg)},
                          {"same": fs, "samedim": siX, "diff": siX}, {"same": DX, "samedim": DX, "diff": DX}, tag0 + "/before")
        warm.mkq = {"same": mk_old}
        drive_ufdims(J, {"pairs": [warm], "tier": "quick", "forms": ["call", "operator"]})     # controls: the spelling is commensurable with X units
        regB = reg
        if edit.startswith("modify-q"):
            reg.modify(STALE_SYM, un.unyt_quantity(v1, STALE_SI[Y]))
        elif edit.startswith("remove-add"):
            reg.remove(STALE_SYM)
            reg.add(STALE_SYM, v1, getattr(ud, Y))
        elif edit == "re-add":
            reg.add(STALE_SYM, v1, getattr(ud, Y))
        else:
            regB = UnitRegistry()
            regB.add(STALE_SYM, v1, getattr(ud, Y))
        new_one = un.unyt_quantity(1.0, fs, registry=regB)      # the same string, now a Y
        U_new = new_one.units
        rec.count("stale-cases")
        if U_old.registry is U_new.registry:
            rec.count("stale-pairs-sharing-one-registry-object")
        for order in STALE_ORDERS:
            if order == "old-new":
                ctx = Ctx.custom(un, {"same": U_old, "samedim": un.Unit(siX, registry=reg), "diff": U_new},
                                 {"same": fs, "samedim": siX, "diff": fs}, {"same": DX, "samedim": DX, "diff": DY}, tag0 + "/old|new")
                ctx.samespell = True
                ctx.cellkey = f"snapshot:{edit}|{form}|{derive}|{order}"
                ctx.mkq = {"same": mk_old}
                # a string target is read in the source's registry: after an in-place edit it means the new definition
                routes = ROUTES if regB is reg else OBJ_ROUTES
            else:
                ctx = Ctx.custom(un, {"same": U_new, "samedim": un.Unit(siY, registry=regB), "diff": U_old},
                                 {"same": fs, "samedim": siY, "diff": fs}, {"same": DY, "samedim": DY, "diff": DX}, tag0 + "/new|old")
                ctx.samespell = True
                ctx.cellkey = f"snapshot:{edit}|{form}|{derive}|{order}"
                ctx.mkq = {"diff": mk_old}
                routes = OBJ_ROUTES
            J.scopes = ("stale", "stale/edit:" + edit, "stale/unit:" + form, "stale/operand:" + derive, "stale/order:" + order)
            convert_ctx(J, ctx, ["f8"], routes)
            drive_ufmatrix(J, {"ufuncs": ARITH + ORDER + EQ, "ctxs": [ctx], "dtypes": ["f8"], "tier": "quick", "kpairs": STALE_KPAIRS[:2],
                               "shape_pairs": shape_pairs})
            ufs = STALE_UFUNCS_Q if tier == "quick" else ARITH + ORDER + EQ
            drive_ufmatrix(J, {"ufuncs": ufs, "ctxs": [ctx], "dtypes": ["f8"], "tier": "quick", "kpairs": STALE_KPAIRS[2:],
                               "shape_pairs": shape_pairs[:2] + [("0", "1")], "unary": False})
            drive_arrayfn(J, {"ctxs": [ctx], "dtypes": ["f8"], "kinds": STALE_AF_KINDS}, only=templates)
            J.scopes = ()
    rec.sample({"stale-cases": [list(c) for c in payload["cases"][:3]]})


# ------------------------------------------------------------------ degenerate operand sizes
# An operand of another dimension keeps its dimension when it holds no value (size 0) or a single one.  Every binary ufunc form, every template
# of a merging array function / __setitem__ and every array conversion route is re-run with an empty / one-element operand in each operand
# position (vf/gen/c01_degenerate.py: shape codes and plans); judged exactly like the regular sizes, i.e. only where the same call with the
# same shapes on all-dimensionless operands returns.
DEG_UKINDS = ["same", "samedim", "diff", "dimless", "percent", "zeroq", "zero", "qlist-diff", "qtuple-diff", "qlist-dl", "qnest-diff"]
DEG_KPAIRS = ([["same", k] for k in DEG_UKINDS] + [[k, "same"] for k in DEG_UKINDS[1:]]
              + [["samedim", "diff"], ["diff", "samedim"], ["dimless", "diff"], ["diff", "percent"], ["diff", "qlist"], ["qlist", "diff"]])
DEG_AF_KINDS = ["same", "diff", "dimless", "percent", "zero", "qlist-diff", "qtuple-diff", "qnest-diff"]
DEG_SUBS = {"ufunc": ["empty", "one", "empty-first", "empty-second", "one-first", "one-second"],
            "arrayfn": list(DG.PLAN_CLASSES),
            # an empty value cannot be assigned into a non-empty target (NumPy refuses it for bare arrays too), so X-empty is vacuous for __setitem__
            "setitem": [c for c in DG.PLAN_CLASSES if c != "X-empty"],
            "convert": ["empty", "one"]}


def degenerate_batches(tier, ctxs, uf_all):
    b = []
    quick = tier == "quick"
    nctx = 2 if quick else 3      # the thorough tier stays within ~3x the quick size of this sweep (more contexts, more shape pairs, a second dtype)
    rot = lambda i: [ctxs[(nctx * i + j) % len(ctxs)] for j in range(nctx)]
    sp = [list(p) for p in DG.ufunc_shape_pairs(tier)]
    for i, ufc in enumerate(chunks(uf_all, 4 if quick else len(uf_all))):
        b.append((f"degenerate/ufunc.{i}", ("degenerate", {"part": "ufunc", "ufuncs": ufc, "ctxs": rot(i), "dtypes": ["f8"], "tier": tier, "kinds": DEG_UKINDS, "kpairs": DEG_KPAIRS, "shape_pairs": sp, "unary": False})))
    names_ = [t[0] for t in TEMPLATES if "observe" not in t[3]]
    nsl = 6 if quick else 16
    for i in range(nsl):
        b.append((f"degenerate/arrayfn.{i}", ("degenerate", {"part": "arrayfn", "only": names_[i::nsl], "ctxs": rot(i + 3), "kinds": DEG_AF_KINDS,
                                                              "dtypes": ["f8"] if (quick or i % 4) else ["f8", "i8"],
                                                              "plans": [list(p) for p in DG.plans(tier)]})))
    b.append(("degenerate/convert", ("degenerate", {"part": "convert", "ctxs": rot(1) + rot(4), "dtypes": ["f8", "i8"] if quick else ["f8", "i8", "c16"]})))
    return b


def drive_degenerate(J, payload):
    un = J.unyt
    part = payload["part"]
    if part == "ufunc":
        drive_ufmatrix(J, payload)
    elif part == "arrayfn":
        drive_arrayfn(J, payload, only=set(payload["only"]))
    else:
        for c in payload["ctxs"]:
            uA, uA2, uB = c
            for (a, b_) in ((uA, uB), (uA2, uB), (uA, "dimensionless"), (uA, "%"), ("dimensionless", uB)):
                ctx = Ctx(un, a, a, b_)
                for shp in DG.DSHAPES:
                    J.tags = ("degenerate:convert:" + DG.shape_class(shp),)
                    convert_ctx(J, ctx, payload["dtypes"], ARRAY_ROUTES, shp)
                    J.tags = ()
    J.rec.sample({"degenerate": part, "contexts": payload["ctxs"][:2], "shape_codes": {k: list(v) for k, v in DG.DSHAPES.items()}})


def drive_offsets(J, payload):
    """offset scales (degC, degF, lat, lon) take special branches before the dimension test: drive them against other dimensions"""
    un = J.unyt
    for (o1, o2) in payload["pairs"]:
        for other in payload["others"]:
            for (a, a2, b) in ((o1, o2, other), (other, other, o1)):
                p = {"ctxs": [(a, a2, b)], "dtypes": ["f8"], "tier": "quick", "pairs": [(a, a2, b)]}
                drive_ufdims(J, p)
                drive_convert(J, p)
                drive_arrayfn(J, p, only={"concatenate/[P,X]", "where/(c,P,X)", "setitem/int", "setitem/slice=X", "clip/(P,X0,hi)", "copyto/where=",
                                          "linspace/(Pq,X0)", "searchsorted/(P,X)", "union1d/(P,X)"})


def drive_random(J, bid, payload):
    r = core.rng(payload["seed"], bid)
    ctxs = []
    for c in random_ctxs(r, 6):
        try:
            Ctx(J.unyt, *c)
            ctxs.append(c)
        except Exception as e:
            J.rec.note("random-unit-not-constructible:" + type(e).__name__)
    ctxs = ctxs[:3]
    ufs = r.sample(ARITH + ORDER + EQ, 4)
    tier = payload["tier"]
    dts = [r.choice(["f8", "f4", "i8", "c16", "i4", "f2"])]
    J.rec.sample({"random-contexts": ctxs, "ufuncs": ufs, "dtypes": dts})
    drive_ufmatrix(J, {"ufuncs": ufs, "ctxs": ctxs, "dtypes": dts, "tier": "quick"})
    drive_ufdims(J, {"pairs": ctxs, "tier": "thorough"})
    names_ = [t[0] for t in TEMPLATES]
    drive_arrayfn(J, {"ctxs": ctxs, "dtypes": ["f8"]}, only=set(r.sample(names_, 40 if tier == "quick" else 90)))
    drive_convert(J, {"pairs": ctxs, "tier": "quick"})


# ------------------------------------------------------------------ worker
def worker(batch, rec):
    import warnings
    warnings.simplefilter("ignore")
    np.seterr(all="ignore")
    import unyt
    from vf.monitors import c01_tap
    bid, (kind, payload) = batch
    c01_tap.install(unyt, rec, FAMILY, tap_formclass, opclass_of_dims, ufunc_keybase, lambda d0, d1: frozenset((d0, d1)) in EM_PAIRS)
    J = Judge(rec, unyt)
    if kind == "ufmatrix":
        drive_ufmatrix(J, payload)
        rec.sample({"batch": bid, "ufuncs": payload["ufuncs"], "contexts": payload["ctxs"][:2], "forms": BIN_FORMS,
                    "kinds": kinds_for(payload["tier"])})
    elif kind == "ufdims":
        drive_ufdims(J, payload)
    elif kind == "arrayfn":
        drive_arrayfn(J, payload)
        rec.sample({"batch": bid, "templates": len(TEMPLATES), "kinds": AF_KINDS, "contexts": payload["ctxs"][:2]})
    elif kind == "convert":
        drive_convert(J, payload)
    elif kind == "offsets":
        drive_offsets(J, payload)
    elif kind == "registry":
        drive_registry(J, payload)
    elif kind == "random":
        drive_random(J, bid, payload)
    elif kind == "stale":
        drive_stale(J, bid, payload)
    elif kind == "degenerate":
        drive_degenerate(J, payload)
    else:
        raise KeyError(kind)
    def tname(k):
        return f"{k[0]}/{k[1]}" if (isinstance(k[1], str) and k[1] in FORMCLASS) else str(k[0])
    for d in sorted({tname(k) for k, v in J.twin_cache.items() if not v[0]}):
        rec.note("twin-dead:" + d)
    for d in sorted({tname(k) for k, v in J.twin_cache.items() if v[0]}):
        rec.note("twin-alive:" + d)


# ------------------------------------------------------------------ evidence
def declared():
    out = set()
    for n in ARITH + ORDER + EQ:
        fam = FAMILY[n]
        for f in BIN_FORMS:
            if f == "operator" and n not in OPS:
                continue
            if f == "inplace-op" and n not in IOPS:
                continue
            if f in ("inplace-ufunc", "inplace-op", "out-int") and fam != "arith":
                continue
            if f == "inplace-ufunc" and n == "divmod":
                continue
            out.add(f"{n}/{f}")
        if fam == "arith" and n != "divmod":
            out.add(f"{n}/at")
    for n in REDUCE_UFUNCS:
        out.add(f"{n}/reduce-initial")
    for n in WHERE_UFUNCS:
        out.add(f"{n}/out+where")
    for (name, xshp, fn, flags, keyop) in TEMPLATES:
        if "observe" not in flags:
            out.add(f"{name}/call")
    for r in ROUTES:
        out.add(f"{r}/call")
    return out


def extra(tier, seed, results):
    import unyt
    from unyt._array_functions import _HANDLED_FUNCTIONS
    reached = set()
    counters = {}
    notes = {}
    for bid, r in results:
        reached.update(r.get("reached", []))
        for k, v in r.get("counters", {}).items():
            counters[k] = counters.get(k, 0) + v
        for k, v in r.get("notes", {}).items():
            notes[k] = notes.get(k, 0) + v

    def grp(prefix):
        return {k[len(prefix):]: v for k, v in sorted(notes.items()) if k.startswith(prefix)}
    unreached = sorted(d for d in declared() if d not in reached)
    reg = unyt.unyt_array._ufunc_registry
    known = set(ARITH + ORDER + EQ + OBSERVED_UFUNCS) | NOT_REQUIRING | {"mod"}
    unclassified = sorted(getattr(u, "__name__", str(u)) for u in reg if getattr(u, "nin", 0) == 2 and getattr(u, "__name__", "") not in known)
    driven_fns = {template_function(t[0]) for t in TEMPLATES}
    handled = sorted((f.__module__.replace("numpy", "").strip(".") + "." if f.__module__ not in ("numpy",) else "") + f.__name__ for f in _HANDLED_FUNCTIONS)
    not_driven = sorted(h for h in handled if h.split(".")[-1] not in driven_fns and h.split(".")[-1] not in NOT_MERGING
                        and not h.startswith(("fft.", "linalg.")))
    sub = {k: counters.get("judged:" + k, 0) for k in ("ufunc", "arrayfn", "setitem", "convert", "unitop")}
    tap_total = sum(v for k, v in counters.items() if k.startswith("tap:ufunc:"))
    tapfn_total = sum(v for k, v in counters.items() if k.startswith("tap:fn:"))
    forms_ = STALE_FORMS_Q if tier == "quick" else list(STALE_FORMS)
    stale_scopes = (["stale"] + ["stale/edit:" + e for e in STALE_EDITS] + ["stale/unit:" + f for f in forms_]
                    + ["stale/operand:" + d for d in STALE_DERIVE] + ["stale/order:" + o for o in STALE_ORDERS])
    stale = {k: counters.get("judged-scope:" + k, 0) for k in stale_scopes}
    stale_eq = {k: counters.get("eq-constant-scope:" + k, 0) for k in stale_scopes}
    door_names = sorted({f[5:] for t in TEMPLATES for f in t[3] if f.startswith("door:")} | {"ufunc.at"})
    doors = {d: {"judged": counters.get("judged-tag:door:" + d, 0), "vacuous": counters.get("vacuous-tag:door:" + d, 0)} for d in door_names}
    spell = {k: counters.get("judged-tag:spelling:" + k, 0) for k in SPELL_KINDS}
    degen = {f"{sub_}:{c}": {"judged": counters.get(f"judged-tag:degenerate:{sub_}:{c}", 0), "vacuous": counters.get(f"vacuous-tag:degenerate:{sub_}:{c}", 0)}
             for sub_, cs in DEG_SUBS.items() for c in cs + (["X-empty"] if sub_ == "setitem" else [])}
    out = {
        "sub_monitor_judged": sub,
        # call doors: judged = refusals/returns that counted; vacuous = the door refuses all-dimensionless operands too (driven, not deciding)
        "call_door_monitor": doors,
        "call_doors_wholly_vacuous": sorted(d for d, v in doors.items() if v["judged"] == 0 and v["vacuous"] > 0),
        "operand_spelling_monitor_judged": spell,
        # operand-SIZE dimension: judged = calls with an empty / one-element operand of another dimension that counted (the same call on
        # all-dimensionless operands of the same shapes returns); vacuous = NumPy cannot run the template with these shapes at all
        "degenerate_size_monitor": degen,
        "tap_clip_ufunc_mixed_dispatches_seen": counters.get("tap:clip-mixed-dispatch", 0),
        "stale_unit_monitor_judged": stale,
        "stale_unit_monitor_eq_constant_answers": stale_eq,
        "stale_unit_cases": counters.get("stale-cases", 0),
        "stale_unit_pairs_sharing_one_registry_object": counters.get("stale-pairs-sharing-one-registry-object", 0),
        "controls_returned": {k.split(":", 1)[1]: v for k, v in counters.items() if k.startswith("control-returned:")},
        "tap_ufunc_dispatches": tap_total,
        "tap_handled_function_dispatches": tapfn_total,
        "tap_mixed_dispatches_raised": counters.get("tap:mixed-dispatch-raised", 0),
        "exception_classes": {k[4:]: v for k, v in counters.items() if k.startswith("exc:")},
        "unreached": unreached,
        "observed_outside_quantifier": grp("observed:"),
        "not_judged_exceptions": grp("not-judged:"),
        # templates that never returned on all-dimensionless operands (for no operand kind, shape or dtype): their refusals are vacuous
        "templates_dead_on_dimensionless_twin": sorted(set(grp("twin-dead:")) - set(grp("twin-alive:"))),
        "controls_raised": dict(list(grp("control-raised:").items())[:150]),
        "other_notes": {k: v for k, v in sorted(notes.items()) if k.startswith(("eq-shape", "dtype-relabel", "build-failed", "random-unit"))},
        "registry_binary_ufuncs_not_classified": unclassified,
        "handled_functions_without_template": not_driven,
        "dimension_units": [u[0] for u in universe(tier)],
    }
    for k, v in sub.items():
        if v == 0:
            raise core.Inconclusive(f"sub-monitor-{k}-evaluated-0-times")
    for k, v in stale.items():
        if v == 0:
            raise core.Inconclusive(f"sub-monitor-{k}-evaluated-0-times")
    for k, v in doors.items():
        if v["judged"] + v["vacuous"] == 0:
            raise core.Inconclusive(f"call-door-{k}-never-driven")
    for fam_ in ("clip", "reduce-initial"):
        if sum(v["judged"] for k, v in doors.items() if k.startswith(fam_)) == 0:
            raise core.Inconclusive(f"call-door-monitor-{fam_}-judged-0-times")
    for k, v in spell.items():
        if v == 0:
            raise core.Inconclusive(f"operand-spelling-{k}-judged-0-times")
    for sub_, cs in DEG_SUBS.items():
        for c in cs:
            if degen[f"{sub_}:{c}"]["judged"] == 0:
                raise core.Inconclusive(f"degenerate-size-monitor-{sub_}:{c}-judged-0-times")
    for k, v in stale_eq.items():
        if v == 0:
            raise core.Inconclusive(f"eq-exception-never-observed-in-{k}")
    if counters.get("stale-pairs-sharing-one-registry-object", 0) == 0:
        raise core.Inconclusive("no-stale-pair-shared-one-registry-object")
    if tap_total == 0 or tapfn_total == 0:
        raise core.Inconclusive("passive-tap-saw-no-dispatch")
    if counters.get("eq-constant-answer", 0) == 0:
        raise core.Inconclusive("eq-exception-never-observed")
    return out
