"""C10 - unit-system base conversion stays inside the system and preserves the quantity.

Oracle: an independent model of every unit system (vf/ref/c10_systems.py: documented base units and declared derived units;
for generated systems the arguments the harness itself passed) + own unit-expression evaluator (vf/ref/uexpr.py) over the
atomic scale table.  Never reads UnitSystem.units_map to decide what is allowed (the library mutates it); units_map is only
audited against the model."""
import math
import numpy as np
from fractions import Fraction as Fr
from vf import core
from vf.ref import defs, dims, names, uexpr
from vf.ref import c10_systems as SM
from vf.gen import c10_overrides as OV
from vf.gen import c10_rejected as RJ
from vf.monitors import c10_rejected as RJM
from .common import chunks

RULE = ("one evaluation = one sub-monitor verdict on one (unit system, unit, call form) execution: inside-system (every symbol of the "
        "result is a base unit of S, a unit S declares for the result's dimension, or the Gaussian counterpart in a system without "
        "current), dimension (reference vector equal or documented SI/Gaussian counterpart), value (same physical quantity by own "
        "evaluator; physical pairing factor for counterparts), back-conversion, idempotence, agreement of get_base_equivalent / "
        "convert_to_base / in_cgs / in_mks / *_cgs / *_mks forms with in_base, constructor rejection/acceptance, fresh-system "
        "usability (by name / by object / registry default / 'code'), units_map audit, history independence; in a history of one system "
        "NAME (define, convert, define again under the same name with other base units / declared units / current unit, convert "
        "again; system handed over by name, as the object, as a deep copy, as an unpickled copy, as the default of a fresh / "
        "deep-copied / unpickled registry; code systems defined again under the registry's id) the same verdicts against the NEW "
        "definition, plus: the name reaches the new object, copying does not touch the registry, and each form (in_base, second "
        "in_base, get_base_equivalent, convert_to_base) answers what it answers for the same definition under a never-used name "
        "replayed in the same order; in a history of one editable REGISTRY (system on code units bound to it - user-named, mixed with "
        "ordinary units, on a prefixed code unit, or named by the registry's id; convert; modify / modify with a quantity / remove+add a symbol "
        "the system uses, a declared one, an unused one, several; convert freshly created quantities again) the same verdicts against the "
        "table the harness itself last wrote, plus: the result's Unit object is worth what the table says now, S[dimension] likewise, the form "
        "called first after an edit answers what the same form answers later, the no-argument forms follow the registry's unit_system, every "
        "form answers what it answers over a never-edited registry of the same contents, and a quantity created before the edit is untouched "
        "by it and converts to the same physical quantity by its own Unit object; in an OVERRIDE history of one live system (built-in cgs / mks / a built-in "
        "system with current, generated systems with and without a current unit: convert units of a dimension through every route, declare or "
        "re-declare that dimension with S[dimension] = unit - by name, by alias name, by dimension object - then convert the same units again at once, "
        "first call rotated over in_base / convert_to_base / get_base_equivalent, system given by name / object / as the default of a registry; for the "
        "mechanical, thermal, SI-electromagnetic and Gaussian-electromagnetic dimension families) the same verdicts against the declarations the harness "
        "itself made last (a result in a dimension with a declared unit must be in base units or in THAT unit), plus: S[dimension] hands out the declared "
        "unit, the first call after the override answers what the same form answers later, units of other dimensions do not move, and every form answers "
        "what it answers in a system of the same base units under a never-used name in which the same units were declared before any conversion; "
        "in the AFTERMATH of REJECTED operations (a history of valid definitions and conversions, then operations of one class that raise and are caught - "
        "UnitSystem(...) with swapped / wrong-dimension / unknown / unparsable base units under a never-used name, the name of a valid user system, a built-in "
        "name, a code registry's id; S[dimension] = unit that raises; conversions and S[...] look-ups that raise) the table of registered systems must "
        "hold the same names bound to the same objects with the same name / registry / base units immediately after each rejected call (snapshot contract), "
        "every registered name - through its name, the object held from before, 'code', a dataset-like object, a registry whose default it is; first call "
        "rotated over the three forms - obeys the same verdicts against its ORIGINAL definition, and every form, including uses of names that only a "
        "rejected construction ever used, answers what it answers in a twin process that ran the same history without the rejected calls. "
        "distinct = (sub-monitor, system, unit) for table units and (sub-monitor, system class, unit family, shape of the compound) "
        "for generated units; (sub-monitor, system class, kind of re-definition, how the system was handed over, unit family) in histories; "
        "(sub-monitor, system class, kind of registry-bound system, before/after the edit, how handed over, unit family) in registry-edit histories; "
        "(sub-monitor, system class, before / first declaration / re-declaration, dimension family, how handed over, unit family) in override histories; "
        "(sub-monitor, class of rejected operation, kind, target / by-stander / ghost name, how handed over, unit family) in rejected-operation histories")
ASSUMPTIONS = (
    "atomic scales are read as data from the registry table by symbol (their correctness is C02's subject); compound scales, "
    "dimensions, prefixes and affine maps are computed by vf/ref (uexpr, defs, dims), never by unyt",
    "the built-in systems are transcribed from unyt/unit_systems.py + docs/usage.rst into vf/ref/c10_systems.py (the docs table says "
    "galactic time = kyr, the code says Myr; the code's declaration is taken, the mismatch is a documentation matter)",
    "raising UnitsNotReducible is always accepted (the statement allows it); refusals are counted per system and unit family, and a "
    "built-in system in which nothing was converted makes the run INCONCLUSIVE; only a *second* application that refuses after the "
    "first returned, and a fresh user system that refuses its own base units, are judged",
    "in a system without MKS current the Gaussian unit of the documented pairing (statC, statA, G, statV, statohm) counts as inside "
    "the system even where the system does not declare it (statV, statohm in cgs); a prefixed counterpart (mstatV, kG->kT) does not",
    "idempotence is judged only when the first result was inside the system (otherwise it is the same defect seen twice)",
    "get_base_equivalent / convert_to_base are judged by agreement with in_base (the statement's 'agrees with'); in_base carries the "
    "inside/dimension/value/back/idempotence verdicts",
    "every generated system also gets overrides declared only after the system has been used for that dimension (atom and compound "
    "spelling converted before and after); keys of that scenario carry '+late-override'; atoms of the SI/Gaussian pairing take part "
    "only where their route is otherwise clean (SI atoms in systems with a current unit)",
    "overrides of a generated system are always of the dimension they are declared for; dimensionally wrong overrides are user "
    "error outside the quantifier; only wrong-dimension *base* units must be rejected, by any exception (class noted)",
    "compound base-unit expressions ('c*s') are recorded, not judged; 'code' with a registry for which no system was registered is "
    "a lookup error outside the property",
    "offset units (degC, degF, lat, lon) are judged by the affine map when they stand alone and by their scale inside compounds "
    "(they can only enter compounds as base units of a generated system)",
    "a generated system may take lat (scale -pi/180) as its angle unit; dimensions with a fractional angle exponent then have no real "
    "unit in that system and are discarded; compounds whose partial products leave the float64 range (high powers of Planck or "
    "geometrized units) are discarded",
    "float32 cases whose expected magnitude leaves the float32 range are discarded (precision is C17's subject)",
    "the physical value of the V<->statV pairing is judged here because C10 says 'the same physical quantity' (C03 only notes it)",
    "a UnitSystem constructed under a name that is already registered is a fresh user-defined system ('usable immediately'): from "
    "then on the name, the new object and copies of it mean the NEW arguments, whatever was converted into the previous definition; "
    "judged by the ordinary monitors with the ordinary keys (a known defect of a unit family keeps its key in a re-defined system) "
    "and by a differential monitor against the same definition under a never-used name, replayed in the same order at the end of "
    "the history (keys C10:redefine:...); re-defining a built-in name is not driven",
    "a system object handed to a conversion stands for the registered system of its name (the library looks objects up by name): "
    "deep copies and pickle round trips of the CURRENT definition are judged against it; objects, copies and registries that stem "
    "from a superseded definition are no longer 'registered unit systems' - which definition they follow is recorded, not judged",
    "a unit system bound to an editable registry (registry=...) means, at every moment, the units its symbols have in that registry's "
    "CURRENT table: after registry.modify / remove+add of a symbol, freshly created quantities of that registry are judged against the "
    "values the harness itself last wrote (own table, never the registry's lut or a Unit object's base_value); keys of clean unit "
    "families after an edit carry '+registry-edit', electromagnetic families keep their ordinary keys (known defects stay one key)",
    "a quantity created BEFORE an edit keeps the meaning it had (its Unit object carries the old scale): the edit must not touch it, and "
    "its conversion is judged by its own Unit objects only (result numbers x result unit scale = old numbers x old scale, inside the "
    "system, the three forms agree in spelling and as physical quantities); whether the result's Unit object carries the old or the new "
    "scale is not judged (the first request of a dimension builds the unit afresh, later ones hand the quantity's own unit back)",
    "S[dimension] = unit on a live system (built-in or user-defined) is a declaration in the sense of the statement ('units S declares for that "
    "dimension'), whenever it is made: from then on conversions are judged against the declarations the harness itself recorded, whatever was "
    "converted before; in these override histories a dimension WITH a declared unit admits only base units or that unit (the allowance for the "
    "undeclared Gaussian counterpart applies only while nothing is declared for the dimension); keys carry '+override-history'; atoms of the "
    "SI/Gaussian pairing take part only in their own family (SI atoms with a current unit, Gaussian atoms without), base dimensions are never "
    "overridden, declared units always have the dimension they are declared for; built-in systems are overridden only inside the forked child",
    "an ignored or half-applied declaration that leaves results in base units is not outside the system by the statement; it is judged by the "
    "history-independence monitors (S[dimension] must hand out the declared unit; same answers as a never-used system with the same declarations "
    "made before any use; keys C10:override:...)",
    "an operation that raises (a rejected UnitSystem construction, a rejected S[dimension] = unit, a conversion or look-up that raises) has not happened "
    "as far as the set of registered unit systems is concerned: afterwards unit_system_registry holds the same names bound to the same objects with the "
    "same base units, and every later conversion answers as in a twin process that never made the rejected call (keys C10:rejected:<class>:...; the "
    "ordinary monitors run against the ORIGINAL definitions, keys of clean unit families carry '+after-rejected-<class>', electromagnetic families keep "
    "their ordinary keys); memoised units_map entries a late-raising conversion leaves, and a dimension name a rejected override leaves in the system's "
    "printed form (repr may then raise), are recorded, not judged - the statement speaks of conversions; a rejected operation that unexpectedly returns "
    "is the constructor monitor's subject (inconsistent base units) or a note (override / conversion), and ends the twin comparison of that process",
    "edits that change the dimension of a symbol, and edits of a registry whose system has gone out of reach ('code' after the id "
    "changed and before a system is registered under the new id: KeyError) are outside the property; after an edit a code system is "
    "reached by its object / its old name, or is registered again under the new id (both live systems are judged)",
)
MIN_EVALS = 20000
TIMEOUT = 1500

BUILTINS = ("cgs", "mks", "imperial", "galactic", "solar", "geometrized", "planck")
EPS = {"f8": 2.3e-16, "f4": 1.2e-7, "i8": 2.3e-16, "i4": 2.3e-16, "c16": 2.3e-16}
FAMILIES = ("atom", "atom-prefixed", "em-si-atom", "em-si-atom-prefixed", "em-gauss-atom", "em-gauss-atom-prefixed", "offset",
            "log", "dimless", "current-atom", "gauss-atom", "compound", "compound-current", "compound-gauss")


# ------------------------------------------------------------------ reference helpers
def canon_for(lut):
    def canon(tok):
        r = names.resolve(tok)
        if r is not None:
            return (r[0], r[1])
        if tok == "dimensionless":
            return (1.0, "dimensionless")
        if tok in lut:
            return (1.0, tok)
        return None
    return canon


def resolver_for(lut):
    """token -> (scale, dimension vector); scale of atomic symbols read from the table, everything else own"""
    def res(tok):
        r = names.resolve(tok)
        if r is not None:
            f, s, _ = r
            e = lut.get(s)
            if e is None:
                return None
            return (e[0] * f, defs.T[s].dim)
        e = lut.get(tok)
        if e is not None:
            d = dims.of_expr(e[1])
            if d is None:
                return None
            return (e[0], d)
        return None
    return res


def single_atom(ustr):
    """(factor, symbol) when the expression is exactly one name (no power, no coefficient), else None"""
    try:
        toks = uexpr.tokenize(ustr)
    except uexpr.ParseError:
        return None
    while len(toks) >= 3 and toks[0] == "(" and toks[-1] == ")":
        toks = toks[1:-1]
    if len(toks) != 1:
        return None
    r = names.resolve(toks[0])
    return (r[0], r[1]) if r is not None else None


def net_atom(ustr):
    """(factor, symbol) when the expression reduces to one name to the first power (eV**-1*eV*uG is uG), else None"""
    a = single_atom(ustr)
    if a is not None:
        return a
    try:
        nm = sorted(set(SM.names_in(ustr)))
        if not nm or len(nm) > 8:
            return None
        hot = {n: tuple(Fr(1) if i == j else Fr(0) for j in range(8)) for i, n in enumerate(nm)}
        sc, vec = uexpr.evaluate(ustr, lambda t: (1.0, hot[t]) if t in hot else None)
        left = [(nm[i], vec[i]) for i in range(len(nm)) if vec[i] != 0]
        if sc == 1.0 and len(left) == 1 and left[0][1] == 1:
            r = names.resolve(left[0][0])
            return (r[0], r[1]) if r is not None else None
    except Exception:
        pass
    return None


def family(ustr, d):
    a = net_atom(ustr)
    if a is not None:
        f, s = a
        pre = "" if f == 1.0 else "-prefixed"
        if s in SM.EM_SI:
            return "em-si-atom" + pre
        if s in SM.EM_GAUSS:
            return "em-gauss-atom" + pre
        de = defs.T[s]
        if de.offset:
            return "offset"
        if de.dim == dims.D("LOG"):
            return "log"
        if de.dim == dims.ZERO:
            return "dimless"
        if SM.has_current(de.dim):
            return "current-atom"
        if SM.has_half_powers(de.dim):
            return "gauss-atom"
        return "atom" + pre
    if d is not None and SM.has_current(d):
        return "compound-current"
    if d is not None and SM.has_half_powers(d):
        return "compound-gauss"
    return "compound"


class Affine:
    """reading <-> base value of a unit expression (affine for a lone offset unit, linear otherwise)"""

    def __init__(self, ustr, res):
        self.scale, self.dim = uexpr.evaluate(ustr, res)
        self.atom = single_atom(ustr)
        self.off = None
        if self.atom is not None and defs.T[self.atom[1]].offset:
            self.off = self.atom

    def to_base(self, v):
        if self.off is None:
            return v * self.scale
        f, s = self.off
        de = defs.T[s]
        if s in ("degC", "degF"):
            return de.value * f * v - de.value * de.offset
        return de.value * f * (v - de.offset)

    def from_base(self, b):
        if self.off is None:
            return b / self.scale
        f, s = self.off
        de = defs.T[s]
        if s in ("degC", "degF"):
            return (b + de.value * de.offset) / (de.value * f)
        return b / (de.value * f) + de.offset

    def slack(self):
        """magnitude (in readings) of the constant term of the affine map"""
        if self.off is None:
            return 0.0
        f, s = self.off
        de = defs.T[s]
        if s in ("degC", "degF"):
            return abs(de.offset / f)
        return abs(de.offset)


def close(a, b, rel, abs_=0.0):
    a = np.asarray(a); b = np.asarray(b)
    if a.shape != b.shape:
        return False
    with np.errstate(all="ignore"):
        ok = np.abs(a - b) <= rel * np.maximum(np.abs(a), np.abs(b)) + abs_
        ok = ok | (a == b) | (np.isnan(a) & np.isnan(b))
    return bool(np.all(ok))


def expr_of(u):
    return str(u.expr)


def same_unit(ctx, e1, e2):
    """same unit irrespective of how a numeric coefficient is spelled (3.0*mp vs 3*mp, 0.8*kA vs 4*kA/5)"""
    if e1 == e2:
        return True
    try:
        s1, d1 = uexpr.evaluate(e1, ctx.res); s2, d2 = uexpr.evaluate(e2, ctx.res)
    except Exception:
        return False
    return d1 == d2 and close(s1, s2, 1e-14) and sorted(SM.names_in(e1)) == sorted(SM.names_in(e2))


def budget(ustr, res):
    """sum over the factors of |power * log10(scale)|: when it nears 308 some partial product leaves the float64 range"""
    toks = uexpr.tokenize(ustr)
    tot = 0.0
    for i, t in enumerate(toks):
        if t in ("*", "/", "**", "(", ")", "+", "-", "sqrt") or t[0].isdigit() or t[0] == ".":
            continue
        r = res(t)
        p = 1.0
        if i + 1 < len(toks) and toks[i + 1] == "**":
            try:
                p = float(uexpr.P(toks[i + 2:], res).expo())
            except Exception:
                p = 4.0
        if r is not None and r[0] > 0:
            tot += abs(p * math.log10(r[0]))
    return tot


def base_log(S, d, res):
    """log10 of the scale of the product of S's base units for dimension d"""
    tot = 0.0
    for slot, i in SM.SLOT_IDX.items():
        if d[i] != 0 and S.base[slot] is not None:
            try:
                sc, _ = uexpr.evaluate(S.base[slot], res)
                tot += float(d[i]) * math.log10(abs(sc))
            except Exception:
                return float("inf")
    return tot


def base_budget(S, d, res):
    tot = 0.0
    for slot, i in SM.SLOT_IDX.items():
        if d[i] != 0 and S.base[slot] is not None:
            try:
                sc, _ = uexpr.evaluate(S.base[slot], res)
                tot += abs(float(d[i]) * math.log10(abs(sc)))
            except Exception:
                return float("inf")
    return tot


RANGE = 240.0


def no_real_unit(S, d, res):
    """a base unit of negative scale (lat) has no real fractional power: no such unit exists in S"""
    for slot, i in SM.SLOT_IDX.items():
        if d[i].denominator != 1 and S.base[slot] is not None:
            try:
                if uexpr.evaluate(S.base[slot], res)[0] < 0:
                    return True
            except Exception:
                return True
    return False


# ------------------------------------------------------------------ the per-case judge
class Ctx:
    def __init__(self, unyt, rec, reg=None):
        self.unyt = unyt
        self.rec = rec
        self.reg = reg if reg is not None else unyt.unit_registry.default_unit_registry
        self.res = resolver_for(self.reg.lut)
        self.canon = canon_for(self.reg.lut)
        self.custom = reg is not None
        self.first = []          # (S, sysarg, ustr, result unit string or exception name) for the history monitor


def make_q(ctx, ustr, vals, scalar=False):
    unyt = ctx.unyt
    kw = {"registry": ctx.reg} if ctx.custom else {}
    if scalar:
        return unyt.unyt_quantity(vals, ustr, **kw)
    return unyt.unyt_array(vals, ustr, **kw)


def acceptable_scales(S, ctx, d):
    """scales a unit of dimension d may have inside S: the product of base units, the declared unit, the Gaussian counterpart"""
    out = []
    if S.expressible(d):
        sc = 1.0
        try:
            for slot, i in SM.SLOT_IDX.items():
                if d[i] != 0:
                    sc *= uexpr.evaluate(S.base[slot], ctx.res)[0] ** float(d[i])
            out.append(sc)
        except Exception:
            pass
    if d in S.declared:
        try:
            out.append(uexpr.evaluate(S.declared[d], ctx.res)[0])
        except Exception:
            pass
    if not S.has_current and d in SM.EM_DIM_GAUSS and not (getattr(S, "strict", False) and d in S.declared):
        out.append(ctx.res(SM.EM_DIM_GAUSS[d])[0])
    return out


class StrictModel(SM.SysModel):
    """the model of a system in an override history: what is declared is what the harness's own override events (and the
    constructor-time declarations) say; where a unit IS declared for a dimension, a result is inside the system only in base units
    or in that unit - the undeclared Gaussian counterpart is accepted only while nothing is declared for the dimension"""
    strict = True

    def allowed(self, d):
        if d in self.declared:
            return set(self.base_atoms) | self.declared_atoms.get(d, set())
        return SM.SysModel.allowed(self, d)


def strict_of(model):
    return StrictModel(model.name, [model.base[s] for s in SM.SLOTS], dict(model.declared), model.canon, origin=model.origin)


def landing(S, ctx, rexpr, d, scale=None):
    allowed = S.allowed(d)
    bad = []
    syms = []
    for t in SM.names_in(rexpr):
        c = ctx.canon(t)
        if c is None:
            bad.append(("unknown", t))
        elif c == (1.0, "dimensionless") and d == dims.ZERO:
            continue
        elif c not in allowed:
            if c[1] in SM.EM_SI:
                bad.append(("si-em-symbol", t))
            elif c[1] in SM.EM_GAUSS:
                bad.append(("gauss-em-symbol", t))
            else:
                bad.append(("other", t))
        else:
            syms.append((c[1], t))
    if not bad and scale is not None:
        acc = acceptable_scales(S, ctx, d)
        if acc and not any(close(scale, a, 1e-12) for a in acc):
            # made of the system's symbols but not the system's unit (A where the base unit is 1000*A)
            em = [(("si-em-symbol" if sy in SM.EM_SI else "gauss-em-symbol"), t) for sy, t in syms if sy in SM.EM_SI or sy in SM.EM_GAUSS]
            bad = em or [("wrong-multiple", rexpr)]
    return bad


def judge(ctx, S, sysarg, ustr, vals, dt="f8", scalar=False, cellkey=None, aliases=True, light=False, scls=None, keytag="", trace=None,
          case_extra=None, scale_mon=False):
    """run every entry point for (S, unit) and judge.  Returns the in_base result unit string or the exception name.
    trace: dict that receives what each form answered (for differential monitors of the caller)"""
    unyt, rec = ctx.unyt, ctx.rec
    UNR = unyt.exceptions.UnitsNotReducible
    scls = (scls or S.cls()) + keytag
    sysname = S.name if S.origin == "builtin" else S.origin
    try:
        A = Affine(ustr, ctx.res)
    except Exception as e:
        rec.note("harness:reference-cannot-evaluate-input"); return None
    if budget(ustr, ctx.res) > RANGE or base_budget(S, A.dim, ctx.res) > RANGE or (SM.PAIR_OF_DIM.get(A.dim) and base_budget(S, SM.PAIR_OF_DIM[A.dim], ctx.res) > RANGE):
        rec.count("discarded:scale-leaves-float64-range"); return None
    if A.scale == 0 or not math.isfinite(A.scale) or abs(math.log10(abs(A.scale)) - base_log(S, A.dim, ctx.res)) > RANGE:
        rec.count("discarded:scale-leaves-float64-range"); return None
    if no_real_unit(S, A.dim, ctx.res):
        rec.count("discarded:fractional-power-of-negative-scale-base-unit"); return None
    fam = family(ustr, A.dim)
    cell = cellkey if cellkey is not None else (sysname, ustr)
    case = {"system": S.name, "system_base": S.base, "unit": ustr, "values": np.asarray(vals).tolist(), "dtype": dt, "scalar": scalar}
    if case_extra:
        case.update(case_extra)
    try:
        q = make_q(ctx, ustr, vals, scalar)
    except Exception as e:
        rec.note(f"input-unit-not-constructible:{type(e).__name__}"); return None
    # the input must mean what the reference thinks it means, otherwise it is another property's problem
    if not close(q.units.base_value, A.scale, 1e-12) or dims.of_expr(q.units.dimensions) != A.dim:
        rec.note("input-unit-differs-from-reference"); return None
    rec.reach(f"{sysname}:{fam}")
    eps = EPS[dt]
    orig = np.array(q.d, copy=True)
    # ---- in_base
    try:
        r = q.in_base(sysarg)
        out = "ret"
    except UNR:
        out = "UnitsNotReducible"
    except Exception as e:
        out = type(e).__name__
        rec.violation(f"C10:in_base:wrong-exception:{out}:{fam}:{scls}", f"({ustr}).in_base({S.name!r}) raised {out}: {str(e)[:150]}; only UnitsNotReducible is allowed", case)
    rec.count("mon:in_base-calls")
    if out == "UnitsNotReducible":
        rec.count(f"refused:{sysname}")
        rec.note(f"refused:{fam}:{scls}" + (":although-expressible" if S.expressible(A.dim) and not SM.has_half_powers(A.dim) else ""))
        rec.ok(("refusal",) + tuple(cell))
    rexpr = None
    inside = False
    in_range = True
    B = None
    if out == "ret":
        rec.count(f"returned:{sysname}")
        rexpr = expr_of(r.units)
        rv = np.asarray(r.d)
        if trace is not None:
            trace["in_base"] = (rexpr, rv.tolist())
        try:
            B = Affine(rexpr, ctx.res)
        except Exception as e:
            rec.violation(f"C10:in_base:result-unit-not-evaluable:{fam}:{scls}", f"({ustr}).in_base({S.name!r}) -> unit {rexpr!r} which the reference cannot evaluate ({e})", case)
            B = None
        if B is not None:
            # -- dimension
            rec.count("mon:dim")
            counterpart = False
            if B.dim == A.dim:
                rec.ok(("dim",) + tuple(cell))
            elif SM.PAIR_OF_DIM.get(A.dim) == B.dim:
                counterpart = True
                rec.note(f"em-counterpart-taken:{fam}:{scls}")
                rec.ok(("dim-counterpart",) + tuple(cell))
            else:
                rec.violation(f"C10:in_base:dimension:{fam}:{scls}", f"({ustr}).in_base({S.name!r}) -> {rexpr}: dimension {dims.show(B.dim)} instead of {dims.show(A.dim)}", case)
            # -- inside the system
            rec.count("mon:inside")
            bad = landing(S, ctx, rexpr, B.dim, B.scale)
            if bad:
                kinds = sorted({k for k, t in bad})
                rec.violation(f"C10:in_base:outside-system:{fam}:{scls}:lands-on-{'+'.join(kinds)}",
                              f"({ustr}).in_base({S.name!r}) -> {rv.tolist() if rv.size < 5 else '...'} {rexpr}: {[t for k, t in bad]} is neither a base unit of {S.name} {sorted(u for u in S.base.values() if u)} nor declared for that dimension", case)
            else:
                inside = True
                rec.ok(("inside",) + tuple(cell))
            # -- the result's Unit object is worth what the registry's table says its symbols are worth now
            if scale_mon:
                rec.count("mon:result-scale")
                if close(r.units.base_value, B.scale, 1e-12):
                    rec.ok(("result-scale",) + tuple(cell))
                else:
                    rec.violation(f"C10:in_base:result-unit-scale-differs-from-registry:{fam}:{scls}",
                                  f"({ustr}).in_base({S.name!r}) -> {rexpr} whose Unit object is worth {r.units.base_value!r} (mks); the registry's current table makes it {B.scale!r}", case)
            # -- value
            if B.dim == A.dim or counterpart:
                with np.errstate(all="ignore"):
                    base = A.to_base(np.asarray(orig, dtype="c16" if dt == "c16" else "f8"))
                    pair = None
                    if counterpart:
                        if A.dim in SM.EM_DIM_SI:       # SI -> Gaussian
                            si = SM.EM_DIM_SI[A.dim]; g, f = SM.EM_SI[si]
                            base = base * f * defs.T[g].value / defs.T[si].value
                            pair = f"{si}->{g}"
                        else:
                            g = SM.EM_DIM_GAUSS[A.dim]; si, f = SM.EM_GAUSS[g]
                            base = base * f * defs.T[si].value / defs.T[g].value
                            pair = f"{g}->{si}"
                    exp = B.from_base(base)
                    big = np.abs(exp[np.isfinite(exp)]) if np.ndim(exp) else np.abs(np.atleast_1d(exp))
                # the float format of the *result* decides the rounding (integer input comes back as a float of its own
                # item size: C17's rule); the bound follows it instead of presuming float64
                res_eps = float(np.finfo(rv.dtype).eps) if rv.dtype.kind in "fc" else eps
                narrow = rv.dtype.kind in "fc" and np.finfo(rv.dtype).bits // (2 if rv.dtype.kind == "c" else 1) <= 32
                eps = max(eps, res_eps)
                lim = 3e38 if (dt == "f4" or narrow) else 1e300
                tiny = 1e-37 if (dt == "f4" or narrow) else 1e-300
                if narrow and rv.dtype.itemsize // (2 if rv.dtype.kind == "c" else 1) == 2:
                    lim, tiny = 6e4, 6.2e-5
                if not np.all(np.isfinite(exp)) or (big.size and (big.max() > lim or (big[big > 0].size and big[big > 0].min() < tiny))):
                    rec.count("discarded:out-of-float-range")
                    in_range = False
                else:
                    rec.count("mon:value")
                    tol_abs = 32 * eps * (A.slack() * abs(A.scale / B.scale) + B.slack()) + 1e-300
                    if close(rv, exp, 64 * eps, tol_abs):
                        rec.ok(("value" + ("-counterpart" if counterpart else ""),) + tuple(cell))
                    elif counterpart:
                        rec.violation(f"C10:em-counterpart:value:{pair}", f"({np.asarray(orig).tolist()} {ustr}).in_base({S.name!r}) = {rv.tolist()} {rexpr}; the same physical quantity is {np.asarray(exp).tolist()} {rexpr}", case)
                    else:
                        rec.violation(f"C10:in_base:value:{fam}:{scls}", f"({np.asarray(orig).tolist()} {ustr}).in_base({S.name!r}) = {rv.tolist()} {rexpr}; the same physical quantity is {np.asarray(exp).tolist()} {rexpr}", case)
        # -- the operand is not touched by the copying form
        if not np.array_equal(np.asarray(q.d), orig, equal_nan=True) or expr_of(q.units) != expr_of(make_q(ctx, ustr, vals, scalar).units):
            rec.violation(f"C10:in_base:mutates-operand:{fam}:{scls}", f"({ustr}).in_base({S.name!r}) changed its operand to {q!r}", case)
        # -- converts back to the original numbers
        rec.count("mon:back")
        try:
            if not in_range:
                raise _Skip()
            back = r.to(q.units)
            bv = np.asarray(back.d)
            tol_abs = 64 * eps * (A.slack() + ((B.slack() * abs(B.scale / A.scale)) if B is not None else 0.0)) + 1e-300
            if dt in ("f4",):
                ok = close(bv, orig.astype("f8"), 64 * eps, tol_abs)
            else:
                ok = close(bv, orig, 64 * eps, tol_abs)
            if ok:
                rec.ok(("back",) + tuple(cell))
            else:
                rec.violation(f"C10:in_base:back-conversion:value:{fam}:{scls}", f"({np.asarray(orig).tolist()} {ustr}).in_base({S.name!r}).to({ustr!r}) = {bv.tolist()}", case)
        except _Skip:
            pass
        except Exception as e:
            rec.violation(f"C10:in_base:back-conversion:raises:{type(e).__name__}:{fam}:{scls}", f"({ustr}).in_base({S.name!r}) = {rexpr} cannot be converted back: {type(e).__name__}: {str(e)[:120]}", case)
        # -- idempotence
        if inside and in_range:
            rec.count("mon:idem")
            try:
                r2 = r.in_base(sysarg)
                r2e = expr_of(r2.units)
                if trace is not None:
                    trace["twice"] = (r2e, np.asarray(r2.d).tolist())
                if not same_unit(ctx, r2e, rexpr):
                    rec.violation(f"C10:in_base:not-idempotent:unit:{fam}:{scls}", f"({ustr}).in_base({S.name!r}) = {rexpr}, applied again = {r2e}", case)
                elif not close(np.asarray(r2.d), np.asarray(r.d), 4 * eps):
                    rec.violation(f"C10:in_base:not-idempotent:value:{fam}:{scls}", f"({ustr}).in_base({S.name!r}) = {np.asarray(r.d).tolist()} {rexpr}, applied again = {np.asarray(r2.d).tolist()}", case)
                else:
                    rec.ok(("idem",) + tuple(cell))
            except Exception as e:
                rec.violation(f"C10:in_base:not-idempotent:raises:{type(e).__name__}:{fam}:{scls}", f"({ustr}).in_base({S.name!r}) = {rexpr}; applying in_base again raised {type(e).__name__}: {str(e)[:120]}", case)
    if trace is not None and out != "ret":
        trace["in_base"] = (out, None)
    if light:
        return rexpr if out == "ret" else out
    # ---- Unit.get_base_equivalent agrees
    rec.count("mon:gbe")
    try:
        g = q.units.get_base_equivalent(sysarg)
        gout = "ret"
    except UNR:
        gout = "UnitsNotReducible"
    except Exception as e:
        gout = type(e).__name__
        if gout != out:
            rec.violation(f"C10:get_base_equivalent:wrong-exception:{gout}:{fam}:{scls}", f"Unit({ustr!r}).get_base_equivalent({S.name!r}) raised {gout}: {str(e)[:150]}", case)
    if trace is not None:
        trace["gbe"] = (expr_of(g) if gout == "ret" else gout, None)
    if gout != out:
        if not (gout not in ("ret", "UnitsNotReducible")):
            rec.violation(f"C10:get_base_equivalent:disagrees-with-in_base:outcome:{fam}:{scls}", f"({ustr}) in {S.name}: in_base -> {rexpr or out}, get_base_equivalent -> {expr_of(g) if gout == 'ret' else gout}", case)
    elif gout == "ret":
        ge = expr_of(g)
        if not same_unit(ctx, ge, rexpr) or not close(g.base_value, r.units.base_value, 1e-14):
            rec.violation(f"C10:get_base_equivalent:disagrees-with-in_base:unit:{fam}:{scls}", f"({ustr}) in {S.name}: in_base -> {rexpr}, get_base_equivalent -> {ge}", case)
        else:
            rec.ok(("gbe",) + tuple(cell))
    else:
        rec.ok(("gbe-refusal",) + tuple(cell))
    # ---- in-place form agrees with the copy
    rec.count("mon:inplace")
    q2 = make_q(ctx, ustr, np.array(vals, copy=True), scalar)
    try:
        ret = q2.convert_to_base(sysarg)
        cout = "ret"
    except UNR:
        cout = "UnitsNotReducible"
    except Exception as e:
        cout = type(e).__name__
        if cout != out:
            rec.violation(f"C10:convert_to_base:wrong-exception:{cout}:{fam}:{scls}", f"({ustr}).convert_to_base({S.name!r}) raised {cout}: {str(e)[:150]}", case)
    if trace is not None:
        trace["inplace"] = (expr_of(q2.units), np.asarray(q2.d).tolist()) if cout == "ret" else (cout, None)
    if cout != out:
        if not (cout not in ("ret", "UnitsNotReducible")):
            rec.violation(f"C10:convert_to_base:disagrees-with-in_base:outcome:{fam}:{scls}", f"({ustr}) in {S.name}: in_base -> {rexpr or out}, convert_to_base -> {expr_of(q2.units) if cout == 'ret' else cout}", case)
    elif cout == "ret":
        ce = expr_of(q2.units)
        if not same_unit(ctx, ce, rexpr):
            rec.violation(f"C10:convert_to_base:disagrees-with-in_base:unit:{fam}:{scls}", f"({ustr}) in {S.name}: in_base -> {rexpr}, convert_to_base -> {ce}", case)
        elif not close(np.asarray(q2.d), np.asarray(r.d), 8 * eps, 32 * eps * (A.slack() * abs(A.scale / max(1e-300, abs(r.units.base_value))))):
            rec.violation(f"C10:convert_to_base:disagrees-with-in_base:value:{fam}:{scls}", f"({np.asarray(orig).tolist()} {ustr}) in {S.name}: in_base -> {np.asarray(r.d).tolist()}, convert_to_base -> {np.asarray(q2.d).tolist()} {ce}", case)
        else:
            rec.ok(("inplace",) + tuple(cell))
    else:
        rec.ok(("inplace-refusal",) + tuple(cell))
    # ---- the cgs/mks spellings are the same function
    if aliases and S.origin == "builtin" and S.name in ("cgs", "mks"):
        n = S.name
        forms = {f"in_{n}": lambda: getattr(make_q(ctx, ustr, vals, scalar), f"in_{n}")(),
                 f"convert_to_{n}": lambda: _ip(make_q(ctx, ustr, np.array(vals, copy=True), scalar), f"convert_to_{n}"),
                 f"get_{n}_equivalent": lambda: getattr(make_q(ctx, ustr, vals, scalar).units, f"get_{n}_equivalent")()}
        for name, fn in forms.items():
            rec.count("mon:alias")
            try:
                x = fn(); xo = "ret"
            except Exception as e:
                xo = type(e).__name__
            if xo != out:
                rec.violation(f"C10:{name}:disagrees-with-base-form:outcome", f"({ustr}).{name}() -> {xo}, in_base({n!r}) -> {out}", case)
            elif xo == "ret":
                xu = expr_of(x) if name.startswith("get_") else expr_of(x.units)
                if not same_unit(ctx, xu, rexpr) or (not name.startswith("get_") and not close(np.asarray(x.d), np.asarray(r.d), 8 * eps, 32 * eps * A.slack())):
                    rec.violation(f"C10:{name}:disagrees-with-base-form:result", f"({ustr}).{name}() -> {x!r}, in_base({n!r}) -> {r!r}", case)
                else:
                    rec.ok((name,) + tuple(cell))
            else:
                rec.ok((name + "-refusal",) + tuple(cell))
    return rexpr if out == "ret" else out


class _Skip(Exception):
    pass


def _ip(q, meth):
    getattr(q, meth)()
    return q


def audit_units_map(ctx, S, Sobj):
    """every entry of the live units_map has the dimension of its key and the base/declared entries still say what was declared"""
    rec = ctx.rec
    for k, v in list(Sobj.units_map.items()):
        if v is None:
            continue
        rec.count("mon:units_map")
        dk = dims.of_expr(k)
        if dk is not None and no_real_unit(S, dk, ctx.res):
            continue
        try:
            sv, dv = uexpr.evaluate(str(v), ctx.res)
        except (OverflowError, ZeroDivisionError):
            # a memoised unit whose scale leaves the float64 range (t_pl**-11): the conversion that asked for it was discarded too
            rec.count("discarded:scale-leaves-float64-range"); continue
        except Exception as e:
            rec.violation("C10:units_map:entry-not-evaluable", f"{S.name}.units_map[{k}] = {v}", {"system": S.name}); continue
        if dk != dv:
            rec.violation(f"C10:units_map:entry-wrong-dimension:{S.cls()}", f"{S.name}.units_map[{k}] = {v}, of dimension {dims.show(dv)}", {"system": S.name, "key": str(k), "value": str(v)})
            continue
        atoms = set()
        for t in SM.names_in(str(v)):
            c = ctx.canon(t)
            atoms.add(c if c else ("?", t))
        if not atoms <= S.allowed(dk):
            rec.violation(f"C10:units_map:entry-outside-system:{S.cls()}", f"{S.name}.units_map[{k}] = {v} is not made of the system's base/declared units", {"system": S.name, "key": str(k), "value": str(v)})
        else:
            rec.ok(("units_map", S.name if S.origin == "builtin" else S.origin, dims.show(dk)))


def history_check(ctx):
    """the first cases of the batch are repeated at the end: same outcome whatever was memoised in between"""
    rec = ctx.rec
    for (S, sysarg, ustr, first) in ctx.first:
        rec.count("mon:history")
        try:
            r = make_q(ctx, ustr, np.array([1.0, 2.5])).in_base(sysarg)
            now = expr_of(r.units)
        except Exception as e:
            now = type(e).__name__
        if now != first and not same_unit(ctx, now, first):
            rec.violation(f"C10:history:result-depends-on-earlier-requests:{S.cls()}", f"({ustr}).in_base({S.name!r}) gave {first} at the start of the batch and {now} after other dimensions had been requested", {"system": S.name, "unit": ustr})
        else:
            rec.ok(("history", S.name if S.origin == "builtin" else S.origin, ustr))


# ------------------------------------------------------------------ generators
def atom_list(tier):
    syms = list(defs.T)
    out = list(syms)
    pre = ["k", "m", "M", "n"] if tier == "quick" else [p for p in defs.PREFIX if p not in ("u", "µ")]
    for s in syms:
        if defs.T[s].prefixable:
            for p in pre:
                n = p + s
                r = names.resolve(n)
                if r is not None and r[1] == s and abs(r[0] / defs.PREFIX[p] - 1) < 1e-12:   # not shadowed by another table symbol
                    out.append(n)
    return out


POW = ["", "", "", "**2", "**-1", "**-1", "**-2", "**3", "**-3", "**(1/2)", "**(-1/2)", "**(3/2)"]
_NOCOMP = None


def compound_pool():
    global _NOCOMP
    if _NOCOMP is None:
        _NOCOMP = [s for s, de in defs.T.items() if not de.offset and de.dim != dims.D("LOG") and s not in ("dimensionless",)]
    return _NOCOMP


def gen_compound(r, em_bias=0.0):
    pool = compound_pool()
    k = r.choice([2, 2, 3, 3, 4])
    parts = []
    for _ in range(k):
        if r.random() < em_bias:
            s = r.choice(["C", "T", "A", "V", "Ω", "F", "H", "Wb", "G", "statC", "statA", "statV", "statohm", "Mx"])
        else:
            s = r.choice(pool)
        if defs.T[s].prefixable and r.random() < 0.3:
            p = r.choice(["k", "m", "M", "n", "c", "G", "µ"])
            n = p + s
            rr = names.resolve(n)
            if rr is not None and rr[1] == s and abs(rr[0] / defs.PREFIX[p] - 1) < 1e-12:
                s = n
        parts.append(f"{s}{r.choice(POW)}")
    return "*".join(parts)


def shape_of(ustr):
    toks = SM.names_in(ustr)
    return (len(toks), int(any(single_atom(t) and single_atom(t)[0] != 1.0 for t in toks)), int("/2)" in ustr))


BASE_POOL = {
    "length": ["m", "cm", "km", "nm", "ft", "inch", "mile", "AU", "pc", "kpc", "Mpc", "ly", "Å", "Rsun", "l_pl", "furlong", "smoot", "yd", "Rearth", "um", "l_geom", "nmi"],
    "mass": ["g", "kg", "lb", "Msun", "me", "mp", "amu", "oz", "ton", "slug", "t", "mg", "Mearth", "m_pl", "Mjup", "m_geom"],
    "time": ["s", "ms", "hr", "yr", "Myr", "day", "t_pl", "min", "fs", "Gyr", "week", "ns", "t_geom", "fortnight"],
    "temperature": ["K", "R", "mK", "nK", "T_pl", "kK", "delta_degC", "delta_degF"],
    "angle": ["rad", "degree", "arcsec", "rev", "mas", "arcmin", "gradian", "hourangle", "mrad"],
    "current_mks": ["A", "mA", "kA", "uA", None, None],
    "luminous_intensity": ["cd", "kcd", "mcd"],
    "logarithmic": ["Np", "B", "dB", "mNp"],
}
OFFSET_BASES = {"temperature": ["degC", "degF"], "angle": ["lat", "lon"]}
ALIAS = {"m": "meter", "km": "kilometer", "g": "gram", "kg": "kilogram", "s": "second", "hr": "hour", "K": "kelvin", "rad": "radian",
         "A": "ampere", "cd": "candela", "pc": "parsec", "yr": "year", "lb": "pound", "ft": "foot", "degree": "deg", "Å": "angstrom"}
OVERRIDE_POOL = {
    "energy": ["erg", "eV", "J", "cal", "BTU", "kWh", "Ry", "keV", "N*m", "ft*lbf", "E_pl"], "force": ["N", "dyn", "lbf", "kip", "kN"],
    "pressure": ["Pa", "bar", "atm", "psi", "Ba", "dyn/cm**2", "lbf/ft**2", "kPa"], "power": ["W", "hp", "Lsun", "erg/s", "kW"],
    "velocity": ["km/s", "mph", "c", "kt", "cm/s"], "frequency": ["Hz", "kHz", "1/s", "1/yr"], "area": ["acre", "ha", "cm**2"],
    "volume": ["L", "gal_US", "m**3", "mL"], "density": ["g/cm**3", "Msun/pc**3", "lb/ft**3"], "specific_energy": ["erg/g", "J/kg", "Sv"],
    "acceleration": ["m/s**2", "ft/s**2"], "momentum": ["g*cm/s", "kg*m/s"], "tension": ["pli", "N/m"], "specific_flux": ["Jy", "mJy"],
    "solid_angle": ["sr", "degree**2"], "angular_frequency": ["rpm", "rad/s"], "luminance": ["nt", "lambert"],
}
OVERRIDE_CUR = {"charge": ["C", "mC", "q_pl", "A*hr"], "magnetic_field": ["T", "mT", "uT"], "electric_potential": ["V", "kV"],
                "resistance": ["ohm", "kohm"], "capacitance": ["F", "uF"], "inductance": ["H", "mH"], "magnetic_flux": ["Wb"],
                "luminous_flux": ["lm"], "magnetic_field_cgs": ["G", "uG"], "charge_cgs": ["statC"]}
OVERRIDE_NOCUR = {"magnetic_field_cgs": ["G", "uG", "mG"], "charge_cgs": ["statC", "esu"], "current_cgs": ["statA"],
                  "electric_potential_cgs": ["statV"], "resistance_cgs": ["statohm"], "magnetic_flux_cgs": ["Mx"]}


def gen_system(r, idx, allow_offset=True):
    """plain-data description of a generated unit system"""
    base = {}
    forms = {}
    for slot in SM.SLOTS:
        u = r.choice(BASE_POOL[slot])
        if allow_offset and slot in OFFSET_BASES and r.random() < 0.12:
            u = r.choice(OFFSET_BASES[slot])
        base[slot] = u
        f = r.random()
        if u is None:
            forms[slot] = "none"
        elif u in ("degC", "degF", "lat", "lon"):
            forms[slot] = r.choice(["str", "unit"])
        elif f < 0.5:
            forms[slot] = "str"
        elif f < 0.62 and u in ALIAS:
            forms[slot] = "alias"
        elif f < 0.78:
            forms[slot] = "unit"
        elif f < 0.9:
            forms[slot] = "quantity"
        else:
            forms[slot] = "coeffstr"
    coeff = {slot: r.choice([2.0, 3.0, 0.5, 42.0, 0.8, 1000.0]) for slot in SM.SLOTS}
    cur = base["current_mks"] is not None
    pool = dict(OVERRIDE_POOL)
    pool.update(OVERRIDE_CUR if cur else OVERRIDE_NOCUR)
    over = []
    for dn in r.sample(sorted(pool), r.randint(0, 6)):
        over.append((dn, r.choice(pool[dn]), r.choice(["name", "name", "dimobj"]), "early"))
    # how many positional: UnitSystem(name, length, mass, time, [temperature, angle]) like the documentation does
    return {"name": f"vf_c10_{idx}", "base": base, "forms": forms, "coeff": coeff, "over": over, "npos": r.choice([3, 3, 5, 0])}


KW = {"length": "length_unit", "mass": "mass_unit", "time": "time_unit", "temperature": "temperature_unit", "angle": "angle_unit",
      "current_mks": "current_mks_unit", "luminous_intensity": "luminous_intensity_unit", "logarithmic": "logarithmic_unit"}


def build_arg(unyt, u, form, coeff, reg=None):
    kw = {"registry": reg} if reg is not None else {}
    if u is None:
        return None
    if form == "alias":
        return ALIAS.get(u, u)
    if form == "unit":
        return unyt.Unit(u, **kw)
    if form == "quantity":
        return unyt.unyt_quantity(coeff, u, **kw)
    if form == "coeffstr":
        return f"{coeff!r}*{u}"
    return u


def base_string(u, form, coeff):
    if u is None:
        return None
    if form in ("quantity", "coeffstr"):
        return f"{coeff!r}*{u}"
    return u


def construct(unyt, desc, reg=None):
    """-> (UnitSystem object, SysModel)"""
    args = {slot: build_arg(unyt, desc["base"][slot], desc["forms"][slot], desc["coeff"][slot], reg) for slot in SM.SLOTS}
    pos = [args[s] for s in ("length", "mass", "time", "temperature", "angle")][:desc["npos"]]
    kws = {KW[s]: args[s] for s in SM.SLOTS if s not in ("length", "mass", "time", "temperature", "angle")[:desc["npos"]]}
    if reg is not None:
        kws["registry"] = reg
    Sobj = unyt.UnitSystem(desc["name"], *pos, **kws)
    lut = (reg or unyt.unit_registry.default_unit_registry).lut
    model = SM.SysModel(desc["name"], [base_string(desc["base"][s], desc["forms"][s], desc["coeff"][s]) for s in SM.SLOTS], {},
                        canon_for(lut), origin=desc.get("origin", "user"))
    return Sobj, model


def declare(unyt, Sobj, model, dn, ustr, keyform):
    key = dn if keyform == "name" else getattr(unyt.dimensions, dn)
    Sobj[key] = ustr
    d = SM.DIMNAME[dn]
    model.declared[d] = ustr
    model.declared_atoms[d] = model._atoms(ustr)


VALS = [1.0, -2.5, 0.0, 3.0e3]


# ------------------------------------------------------------------ batches
def batches(tier, seed):
    b = []
    atoms = atom_list(tier)
    nchunk = 6 if tier == "quick" else 16
    for s in BUILTINS:
        for i, c in enumerate(chunks(atoms, nchunk)):
            b.append((f"atoms/{s}/{i}", ("atoms", (s, c))))
    ncomp, per = (32, 40) if tier == "quick" else (128, 60)
    # thorough adds one derived seed for the generated parts
    seeds = [seed] if tier == "quick" else [seed, seed * 7919 + 104729]
    for k, sd in enumerate(seeds):
        for i in range(ncomp):
            b.append((f"compound/{k}/{i}", ("compound", (sd, i, per))))
    nuser, peru = (24, 3) if tier == "quick" else (100, 5)
    for k, sd in enumerate(seeds):
        for i in range(nuser):
            b.append((f"user/{k}/{i}", ("user", (sd, f"{k}_{i}", peru, tier))))
    b.append(("ctor/default", ("ctor", ("default", tier))))
    b.append(("ctor/registry", ("ctor", ("registry", tier))))
    ncode = 8 if tier == "quick" else 48
    for i in range(ncode):
        b.append((f"code/{i}", ("code", (seed, i, tier))))
    b.append(("default-system", ("default", (seed, tier))))
    nform = 4 if tier == "quick" else 16
    for i in range(nform):
        b.append((f"forms/{i}", ("forms", (seed, i, nform, tier))))
    b.append(("declared-lookup", ("lookup", None)))
    nre, perre = (8, 3) if tier == "quick" else (48, 5)
    for k, sd in enumerate(seeds):
        for i in range(nre):
            b.append((f"redef/{k}/{i}", ("redef", (sd, f"{k}_{i}", perre, tier))))
    nedit = 18 if tier == "quick" else 96
    for k, sd in enumerate(seeds):
        for i in range(nedit):
            b.append((f"regedit/{k}/{i}", ("regedit", (sd, k, i, tier))))
    nov, perov = (16, 3) if tier == "quick" else (64, 6)
    for k, sd in enumerate(seeds):
        for i in range(nov):
            b.append((f"override/{k}/{i}", ("override", (sd, k, i, perov, tier))))
    nrj, perrj = (12, 3) if tier == "quick" else (18, 4)      # thorough: about 3x the quick size (longer histories, one seed)
    for k, sd in enumerate(seeds[:1]):
        for i in range(nrj):
            b.append((f"rejected/{k}/{i}", ("rejected", (sd, k, i, perrj, tier))))
    return b


def sample_units(r, tier, n_atoms, n_comp, em=True):
    atoms = atom_list("quick")
    us = r.sample(atoms, n_atoms)
    if em:
        us += ["C", "T", "A", "V", "Ω", "G", "statC", "statA", "statV", "statohm", "mV", "kG", "Mx", "F", "Wb"]
    us += [gen_compound(r, 0.15) for _ in range(n_comp)]
    return us


def worker(batch, rec):
    import unyt
    from unyt.unit_systems import unit_system_registry
    bid, (kind, payload) = batch
    if kind == "atoms":
        sysname, units = payload
        ctx = Ctx(unyt, rec)
        S = SM.builtin_model(sysname, ctx.canon)
        Sobj = unit_system_registry[sysname]
        for i, u in enumerate(units):
            sysarg = sysname if i % 3 else Sobj          # by name and by object
            scalar = (i % 5 == 4)
            vals = 2.5 if scalar else np.array(VALS)
            out = judge(ctx, S, sysarg, u, vals, scalar=scalar)
            if i < 12 and out is not None:
                ctx.first.append((S, sysname, u, out))
        history_check(ctx)
        audit_units_map(ctx, S, Sobj)
        rec.sample({"system": sysname, "units": units[:5], "n": len(units)})
    elif kind == "compound":
        seed, i, n = payload
        r = core.rng(seed, "compound", i)
        ctx = Ctx(unyt, rec)
        models = {s: SM.builtin_model(s, ctx.canon) for s in BUILTINS}
        comps = [gen_compound(r, 0.2 if k % 4 == 0 else 0.0) for k in range(n)]
        for k, u in enumerate(comps):
            vals = np.array([r.choice([-1, 1]) * 10 ** r.uniform(-3, 3) for _ in range(3)])
            for s in BUILTINS:
                S = models[s]
                sh = shape_of(u)
                out = judge(ctx, S, s, u, vals, cellkey=(s, "compound") + sh, aliases=(k % 3 == 0))
                if k < 2 and out is not None:
                    ctx.first.append((S, s, u, out))
        history_check(ctx)
        for s in BUILTINS:
            audit_units_map(ctx, models[s], unit_system_registry[s])
        rec.sample({"compounds": comps[:4]})
    elif kind == "user":
        seed, i, n, tier = payload
        r = core.rng(seed, "user", i)
        ctx = Ctx(unyt, rec)
        for k in range(n):
            desc = gen_system(r, f"{i}_{k}")
            user_system_case(unyt, ctx, r, desc, tier)
        rec.sample({"generated_system": gen_system(core.rng(seed, "user", i), f"{i}_0")})
    elif kind == "ctor":
        ctor_cases(unyt, rec, *payload)
    elif kind == "code":
        seed, i, tier = payload
        code_cases(unyt, rec, core.rng(seed, "code", i), i, tier)
    elif kind == "default":
        seed, tier = payload
        default_cases(unyt, rec, core.rng(seed, "default"), tier)
    elif kind == "forms":
        seed, i, n, tier = payload
        forms_cases(unyt, rec, core.rng(seed, "forms", i), i, n, tier)
    elif kind == "lookup":
        lookup_cases(unyt, rec)
    elif kind == "redef":
        seed, i, n, tier = payload
        redef_cases(unyt, rec, core.rng(seed, "redef", i), i, n, tier)
    elif kind == "regedit":
        seed, k, i, tier = payload
        regedit_cases(unyt, rec, core.rng(seed, "regedit", k, i), i, tier)
    elif kind == "override":
        seed, k, i, n, tier = payload
        override_cases(unyt, rec, core.rng(seed, "override", k, i), f"{k}_{i}", i, n, tier)
    elif kind == "rejected":
        seed, k, i, n, tier = payload
        rejected_cases(unyt, rec, core.rng(seed, "rejected", k, i), f"{k}_{i}", i, n, tier)


# ------------------------------------------------------------------ user systems
def user_system_case(unyt, ctx, r, desc, tier):
    from unyt.unit_systems import unit_system_registry
    rec = ctx.rec
    rec.count("mon:user-construct")
    try:
        Sobj, S = construct(unyt, desc)
    except Exception as e:
        rec.violation(f"C10:construct:consistent-base-rejected:{type(e).__name__}", f"UnitSystem with consistent base units {desc['base']} (forms {desc['forms']}) raised {type(e).__name__}: {str(e)[:150]}", desc)
        return
    scls = S.cls()
    # registered and reachable by name
    if unit_system_registry.get(desc["name"]) is not Sobj:
        rec.violation("C10:user-system:not-registered", f"UnitSystem({desc['name']!r}) is not in unit_system_registry", desc); return
    rec.ok(("registered", scls))
    early = [o for o in desc["over"] if o[3] == "early"]
    late = [o for o in desc["over"] if o[3] == "late"]
    for (dn, u, kf, _) in early:
        declare(unyt, Sobj, S, dn, u, kf)
    # usable immediately: its own base units convert to themselves with value 1 (by name and by object)
    for slot in SM.SLOTS:
        bs = S.base[slot]
        if bs is None:
            continue
        rec.count("mon:usable")
        for how, arg in (("name", desc["name"]), ("object", Sobj)):
            try:
                q = unyt.unyt_quantity(1.0, bs)
                x = q.in_base(arg)
                A = Affine(bs, ctx.res); B = Affine(expr_of(x.units), ctx.res)
                exp = B.from_base(A.to_base(1.0))
                if B.dim != A.dim or not close(float(x.d), exp, 1e-12, 1e-9 * (A.slack() + B.slack())) or landing(S, ctx, expr_of(x.units), B.dim):
                    rec.violation(f"C10:user-system:not-usable:base-unit-moves:{slot}:by-{how}", f"fresh system {desc['base']}: (1 {bs}).in_base -> {x!r}", desc)
                else:
                    rec.ok(("usable", scls, slot, how, desc["forms"][slot]))
            except Exception as e:
                rec.violation(f"C10:user-system:not-usable:{type(e).__name__}:{slot}:by-{how}", f"fresh system {desc['base']}: (1 {bs}).in_base({how}) raised {type(e).__name__}: {str(e)[:150]}", desc)
    # the same generated system with one base unit of the wrong dimension must be rejected
    for slot in r.sample(SM.SLOTS, 3):
        bad = dict(desc, name=desc["name"] + "_bad_" + slot, base=dict(desc["base"]), forms=dict(desc["forms"]), over=[])
        bad["base"][slot] = r.choice(WRONG[slot])
        bad["forms"][slot] = r.choice(["str", "unit", "quantity", "coeffstr"])
        rec.count("mon:ctor-reject")
        try:
            Sbad, _m = construct(unyt, bad)
            rec.violation(f"C10:construct:inconsistent-base-accepted:{slot}:{bad['forms'][slot]}:generated:{'cur' if S.has_current else 'nocur'}",
                          f"UnitSystem with base units {bad['base']} (forms {bad['forms']}) was constructed although {slot}_unit={bad['base'][slot]!r}", bad)
        except Exception as e:
            if type(e).__name__ != "IllDefinedUnitSystem":
                rec.note(f"ctor-rejected-with:{type(e).__name__}")
            rec.ok(("ctor-reject-generated", scls, slot, bad["forms"][slot]))
    # the general rules
    n_atoms, n_comp = (14, 6) if tier == "quick" else (40, 20)
    units = sample_units(r, tier, n_atoms, n_comp)
    for j, u in enumerate(units):
        judge(ctx, S, desc["name"] if j % 2 else Sobj, u, np.array(VALS[:3]), cellkey=(scls, family(u, None), shape_of(u)[0]), aliases=False, scls=scls)
    for (dn, uu, kf, when) in early:
        # units of the overridden dimensions, so that the overrides are exercised
        d = SM.DIMNAME[dn]
        for probe in sorted({_unit_of_dim(r, d), _unit_of_dim(r, d)} - {None}):
            judge(ctx, S, desc["name"], probe, np.array(VALS[:3]), cellkey=(scls, "override", dn), aliases=False, scls=scls)
    # an override declared only after the system has been used for that dimension (atom and compound spelling of it)
    pool = dict(OVERRIDE_POOL)
    pool.update(OVERRIDE_CUR if S.has_current else OVERRIDE_NOCUR)
    taken = {SM.DIMNAME[o[0]] for o in early}
    cand = [dn for dn in sorted(pool) if SM.DIMNAME[dn] not in taken and SM.DIMNAME[dn] in _bydim()]
    emd = [dn for dn in cand if dn in ("charge", "magnetic_field", "electric_potential", "resistance", "magnetic_field_cgs", "charge_cgs", "current_cgs")]
    picks = r.sample(cand, min(3, len(cand))) + (r.sample(emd, 1) if emd else [])
    seen = set()
    for dn in picks:
        d = SM.DIMNAME[dn]
        if d in seen:
            continue
        seen.add(d)
        # atoms of the SI/Gaussian pairing are left to the general rules unless their route is otherwise well-behaved here
        ok_atoms = [a for a in _bydim()[d] if not (a in SM.EM_SI or a in SM.EM_GAUSS) or (S.has_current and a in SM.EM_SI)]
        probes = sorted(set(r.sample(ok_atoms, min(2, len(ok_atoms)))))
        spelled = _spell(d)
        for u in probes + [spelled]:
            judge(ctx, S, desc["name"], u, np.array(VALS[:3]), cellkey=(scls, "before-late-override", dn), aliases=False, scls=scls)
        declare(unyt, Sobj, S, dn, r.choice(pool[dn]), r.choice(["name", "dimobj"]))
        for u in probes + [spelled]:
            judge(ctx, S, Sobj if r.random() < 0.5 else desc["name"], u, np.array(VALS[:3]), cellkey=(scls, "after-late-override", dn), aliases=False, scls=scls, keytag="+late-override")
    # __getitem__ by dimension name
    for dn in r.sample(sorted(SM.DIMNAME), 6):
        d = SM.DIMNAME[dn]
        rec.count("mon:getitem")
        try:
            u = Sobj[dn]
        except unyt.exceptions.MissingMKSCurrent:
            if S.has_current or not SM.has_current(d):
                rec.violation(f"C10:getitem:MissingMKSCurrent-unjustified:{scls}", f"{desc['base']}[{dn!r}] raised MissingMKSCurrent", desc)
            else:
                rec.ok(("getitem-refusal", scls, dn))
            continue
        except Exception as e:
            rec.violation(f"C10:getitem:raises:{type(e).__name__}:{scls}", f"system {desc['base']}[{dn!r}] raised {type(e).__name__}: {str(e)[:120]}", desc); continue
        try:
            B = Affine(expr_of(u), ctx.res)
        except Exception:
            rec.violation(f"C10:getitem:not-evaluable:{scls}", f"system[{dn!r}] -> {u}", desc); continue
        if B.dim != d or landing(S, ctx, expr_of(u), d):
            rec.violation(f"C10:getitem:wrong-unit:{scls}", f"system {desc['base']} (declared {S.declared}) [{dn!r}] -> {u} (dimension {dims.show(B.dim)}, wanted {dims.show(d)})", desc)
        else:
            rec.ok(("getitem", scls, dn))
    audit_units_map(ctx, S, Sobj)


_BYDIM = {}


def _bydim():
    if not _BYDIM:
        for s, de in defs.T.items():
            if not de.offset:
                _BYDIM.setdefault(de.dim, []).append(s)
    return _BYDIM


def _unit_of_dim(r, d):
    lst = _bydim().get(d)
    return r.choice(lst) if lst else None


def _spell(d):
    """a compound spelling of dimension d in SI base symbols (Gaussian dimensions in g, cm, s)"""
    names_ = ["kg", "m", "s", "K", "rad", "A", "cd", "Np"]
    if SM.has_half_powers(d):
        names_ = ["g", "cm", "s", "K", "rad", "A", "cd", "Np"]
    parts = []
    for n, x in zip(names_, d):
        if x == 0:
            continue
        parts.append(n if x == 1 else (f"{n}**{int(x)}" if x.denominator == 1 else f"{n}**({x.numerator}/{x.denominator})"))
    return "*".join(parts) if parts else "dimensionless"


# ------------------------------------------------------------------ histories of one system NAME (re-definition, copies)
EM_PROBES = ("C", "T", "A", "V", "Ω", "ohm", "F", "H", "Wb", "mT", "uT", "mV", "kV", "kΩ", "uC", "mA", "kA",
             "G", "statC", "esu", "statA", "statV", "statohm", "kG", "uG", "Mx")
EM_DIMNAMES_CUR = ("charge", "magnetic_field", "electric_potential", "resistance", "capacitance", "inductance", "magnetic_flux")
EM_DIMNAMES_NOCUR = ("magnetic_field_cgs", "charge_cgs", "current_cgs", "electric_potential_cgs", "resistance_cgs")
REDEF_MODES = ("fresh", "fresh", "rebase", "rebase", "redeclare", "redeclare", "toggle-current", "same")


def _gen_over(r, cur, em_bias):
    """declared units for a generated system, drawn with more weight on the electromagnetic dimensions than gen_system does"""
    pool = dict(OVERRIDE_POOL)
    pool.update(OVERRIDE_CUR if cur else OVERRIDE_NOCUR)
    over = [(dn, r.choice(pool[dn]), r.choice(["name", "name", "dimobj"]), "early") for dn in r.sample(sorted(pool), r.randint(0, 4))]
    emn = [dn for dn in (EM_DIMNAMES_CUR if cur else EM_DIMNAMES_NOCUR) if dn in pool]
    for dn in r.sample(emn, min(len(emn), 2)):
        if r.random() < em_bias and SM.DIMNAME[dn] not in {SM.DIMNAME[o[0]] for o in over}:
            over.append((dn, r.choice(pool[dn]), r.choice(["name", "dimobj"]), "early"))
    return over


def _set_current(desc, cur_unit):
    desc["base"]["current_mks"] = cur_unit
    desc["forms"]["current_mks"] = "none" if cur_unit is None else "str"


def next_definition(r, prev, serial):
    """the next definition registered under the SAME name: other base units, other declared units, with/without a current
    unit, or the same definition again.  More than half of them carry no declared unit at all (no __setitem__ is ever
    called on them, so nothing but the constructor tells the library that the name now means something else)"""
    mode = r.choice(REDEF_MODES)
    fresh = gen_system(r, f"re{serial}", allow_offset=False)
    new = {"name": prev["name"], "base": dict(prev["base"]), "forms": dict(prev["forms"]), "coeff": dict(prev["coeff"]),
           "over": [tuple(o) for o in prev["over"]], "npos": prev["npos"]}
    if mode == "fresh":
        new.update(base=fresh["base"], forms=fresh["forms"], coeff=fresh["coeff"], npos=fresh["npos"])
        new["over"] = _gen_over(r, new["base"]["current_mks"] is not None, 0.5)
    elif mode == "rebase":
        slots = ["length", "mass", "time"] + r.sample(["temperature", "angle", "luminous_intensity", "logarithmic"], r.randint(0, 2))
        for sl in r.sample(slots, r.randint(1, len(slots))):
            new["base"][sl] = fresh["base"][sl]; new["forms"][sl] = fresh["forms"][sl]; new["coeff"][sl] = fresh["coeff"][sl]
        if new["base"]["current_mks"] is not None and r.random() < 0.5:
            _set_current(new, r.choice(["A", "mA", "kA", "uA"]))
    elif mode == "redeclare":
        new["over"] = _gen_over(r, new["base"]["current_mks"] is not None, 0.8)
    elif mode == "toggle-current":
        _set_current(new, None if new["base"]["current_mks"] is not None else r.choice(["A", "mA"]))
        new["over"] = _gen_over(r, new["base"]["current_mks"] is not None, 0.5)
    if mode != "same" and r.random() < 0.55:
        new["over"] = []
    return mode, new


def _plain_forms(unyt, ctx, sysarg, ustr, vals, warm=None):
    """what the three forms answer, unjudged: {form: (unit string or exception name, values or None)}"""
    out = {}
    if warm is not None:
        _warm(unyt, ctx, sysarg, ustr, vals, warm)
    try:
        x = make_q(ctx, ustr, vals).in_base(sysarg)
        out["in_base"] = (expr_of(x.units), np.asarray(x.d).tolist())
        try:
            y = x.in_base(sysarg)
            out["twice"] = (expr_of(y.units), np.asarray(y.d).tolist())
        except Exception as e:
            out["twice"] = (type(e).__name__, None)
    except Exception as e:
        out["in_base"] = (type(e).__name__, None)
    try:
        out["gbe"] = (expr_of(make_q(ctx, ustr, vals).units.get_base_equivalent(sysarg)), None)
    except Exception as e:
        out["gbe"] = (type(e).__name__, None)
    try:
        q = make_q(ctx, ustr, np.array(vals, copy=True)); q.convert_to_base(sysarg)
        out["inplace"] = (expr_of(q.units), np.asarray(q.d).tolist())
    except Exception as e:
        out["inplace"] = (type(e).__name__, None)
    return out


def _warm(unyt, ctx, sysarg, ustr, vals, form):
    """one unjudged first call through the named form (whichever form comes first fills the memos)"""
    try:
        q = make_q(ctx, ustr, np.array(vals, copy=True))
        if form == "in_base":
            q.in_base(sysarg)
        elif form == "convert_to_base":
            q.convert_to_base(sysarg)
        else:
            q.units.get_base_equivalent(sysarg)
    except Exception:
        pass


def redef_cases(unyt, rec, r, idx, nhist, tier):
    import copy
    import pickle
    from unyt.unit_systems import unit_system_registry
    from unyt.unit_registry import UnitRegistry
    ctx = Ctx(unyt, rec)
    vals = np.array(VALS[:3])
    for h in range(nhist):
        name = r.choice(["vf_c10_lab", "lab", "vf c10 re", "Vf_C10"]) + f"_{idx}_{h}"
        first = gen_system(r, f"re{idx}_{h}", allow_offset=False)
        first["name"] = name
        if r.random() < 0.5:
            first["over"] = _gen_over(r, first["base"]["current_mks"] is not None, 0.6)
        nsteps = r.choice([2, 3, 3]) if tier == "quick" else r.choice([2, 3, 4, 5, 6])
        descs = [("first", first)]
        for k in range(1, nsteps):
            descs.append(next_definition(r, descs[-1][1], f"{idx}_{h}_{k}"))
        # the probes of the whole history: electromagnetic atoms of both families, plain and prefixed; atoms and compound spellings
        # of every dimension some definition of the history declares a unit for; table atoms; generated compounds
        probes = [u for u in EM_PROBES if names.resolve(u) is not None]
        probes = r.sample(probes, 14 if tier == "quick" else 20)
        for _m, d in descs:
            for (dn, _u, _kf, _w) in d["over"]:
                dd = SM.DIMNAME[dn]
                probes.append(_spell(dd))
                a = _unit_of_dim(r, dd)
                if a is not None:
                    probes.append(a)
        probes += r.sample(atom_list("quick"), 5 if tier == "quick" else 10)
        probes += [gen_compound(r, 0.3) for _ in range(3 if tier == "quick" else 8)]
        probes = sorted(set(probes))
        stale = []            # (step, object or copy of a superseded definition)
        log = []              # per step: (desc, [(unit, warm form, trace)])
        converted_before = set()
        for k, (mode, desc) in enumerate(descs):
            rec.count("mon:redef-construct")
            try:
                Sobj, S = construct(unyt, desc)
            except Exception as e:
                rec.violation(f"C10:redefine:consistent-base-rejected:{type(e).__name__}", f"definition #{k} ({mode}) of {name!r} with consistent base units {desc['base']} raised {type(e).__name__}: {str(e)[:150]}", desc)
                break
            scls = S.cls()
            rec.count("mon:redef-registered")
            if unit_system_registry.get(name) is not Sobj:
                rec.violation("C10:redefine:name-does-not-reach-new-definition", f"after defining {name!r} again ({mode}), unit_system_registry[{name!r}] is not the new system", desc)
            else:
                rec.ok(("redef-registered", scls, mode if k else "first"))
            for (dn, u, kf, _w) in desc["over"]:
                declare(unyt, Sobj, S, dn, u, kf)
            setitem_free = not desc["over"]
            copies = [("name", name), ("object", Sobj), ("deepcopy", copy.deepcopy(Sobj)), ("pickle", pickle.loads(pickle.dumps(Sobj)))]
            rec.count("mon:redef-copy-keeps-registry")
            if unit_system_registry.get(name) is not Sobj:
                rec.violation("C10:redefine:copying-a-system-replaces-the-registered-one", f"after copy.deepcopy / pickle round trip of the system {name!r}, unit_system_registry[{name!r}] is another object", desc)
            else:
                rec.ok(("redef-copy-keeps-registry", scls))
            order = r.sample(probes, len(probes))
            steplog = []
            for j, u in enumerate(order):
                how, arg = copies[r.randrange(len(copies))]
                warm = r.choice([None, "in_base", "convert_to_base", "get_base_equivalent"])
                if warm is not None:
                    _warm(unyt, ctx, arg, u, vals, warm)
                tr = {}
                fam = family(u, None)
                out = judge(ctx, S, arg, u, vals, cellkey=(scls, "redef", mode if k else "first", how, fam), aliases=False, scls=scls, trace=tr,
                            case_extra={"history": [d["base"] for _m, d in descs[:k + 1]], "declared": [d["over"] for _m, d in descs[:k + 1]],
                                        "definition_no": k, "mode": mode, "system_given_as": how})
                if out is None:
                    continue
                steplog.append((u, warm, tr))
                if k:
                    rec.count("mon:redef-judged")
                    if how in ("deepcopy", "pickle"):
                        rec.count("mon:redef-copy")
                    if setitem_free and u in converted_before and fam.startswith("em-"):
                        rec.count("mon:redef-em-after-warm")
                converted_before.add(u)
                # objects of superseded definitions: the library looks a system up by the object's name; recorded, not judged
                if stale and j % 4 == 0:
                    ks, so = stale[r.randrange(len(stale))]
                    rec.count("mon:redef-stale-object")
                    try:
                        x = expr_of(make_q(ctx, u, vals).in_base(so).units)
                    except Exception as e:
                        x = type(e).__name__
                    rec.note("superseded-system-object:" + ("follows-current-definition" if x == out or same_unit(ctx, x, out) else "answers-otherwise"))
            # the system as the default of a registry (fresh, deep-copied, unpickled: the latter carries its own copy of the system)
            reg0 = UnitRegistry(unit_system=name)
            for how, reg in (("fresh", reg0), ("deepcopy", copy.deepcopy(reg0)), ("pickle", pickle.loads(pickle.dumps(reg0)))):
                cr = Ctx(unyt, rec, reg)
                Sr = SM.SysModel(S.name, [S.base[s] for s in SM.SLOTS], dict(S.declared), cr.canon, origin=S.origin)
                for u in r.sample(order, 2):
                    rec.count("mon:redef-registry-default")
                    _default_one(unyt, cr, Sr, u, f"redefined-registry-default-{how}", scls=scls)
            log.append((desc, steplog))
            stale += [(k, Sobj), (k, copies[2][1])]
        # differential: the same definitions under never-used names, replayed in the same order, must answer the same
        for k, (desc, steplog) in enumerate(log):
            if k == 0 and tier == "quick" and h % 2:
                continue
            tw = dict(desc, name=f"{name}_twin{k}")
            try:
                Tobj, TS = construct(unyt, tw)
                for (dn, u, kf, _w) in tw["over"]:
                    declare(unyt, Tobj, TS, dn, u, kf)
            except Exception as e:
                rec.note(f"harness:twin-not-constructible:{type(e).__name__}"); continue
            scls = TS.cls()
            for (u, warm, tr) in steplog:
                got = _plain_forms(unyt, ctx, tw["name"], u, vals, warm)
                fam = family(u, None)
                for form in ("in_base", "twice", "gbe", "inplace"):
                    if form not in tr or form not in got:
                        continue
                    rec.count("mon:redef-twin")
                    (e1, v1), (e2, v2) = tr[form], got[form]
                    what = None
                    if e1 != e2 and not same_unit(ctx, e1, e2):
                        what = "unit"
                    elif v1 is not None and v2 is not None and not close(np.asarray(v1), np.asarray(v2), 1e-13):
                        what = "value"
                    if what:
                        rec.violation(f"C10:redefine:differs-from-same-definition-under-fresh-name:{form}:{what}:{fam}:{scls}",
                                      f"{name!r} definition #{k} {desc['base']} declared {desc['over']}: ({u}) {form} -> {v1} {e1}; the same definition under the never-used name {tw['name']!r} -> {v2} {e2}",
                                      {"history": [d["base"] for d, _l in log[:k + 1]], "declared": [d["over"] for d, _l in log[:k + 1]], "unit": u, "form": form})
                    else:
                        rec.ok(("redef-twin", form, scls, fam, "first" if k == 0 else "redefined"))
        rec.sample({"redefinition_history": [{"mode": m, "base": d["base"], "over": d["over"]} for m, d in descs], "probes": probes[:8]})


# ------------------------------------------------------------------ constructor
WRONG = {
    "length": ["s", "g", "K", "rad", "A", "cd", "Np", "erg", "Hz", "dimensionless", "sr", "L", "ha"],
    "mass": ["m", "s", "K", "N", "J", "lbf", "A", "dimensionless", "Pa"],
    "time": ["m", "g", "Hz", "K", "rad", "c", "dimensionless", "rpm"],
    "temperature": ["m", "g", "s", "rad", "J", "eV", "dimensionless", "Np"],
    "angle": ["m", "s", "K", "sr", "dimensionless", "Hz", "rpm", "%"],
    "current_mks": ["C", "statA", "V", "s", "m", "T", "dimensionless", "cd"],
    "luminous_intensity": ["lm", "lx", "W", "A", "m", "dimensionless", "nt"],
    "logarithmic": ["rad", "dimensionless", "%", "m", "s", "K"],
}
RIGHT = {"length": ["m", "km", "ft", "pc", "Å"], "mass": ["g", "kg", "lb", "Msun"], "time": ["s", "yr", "Myr", "ms"],
         "temperature": ["K", "R", "mK"], "angle": ["rad", "degree", "arcsec"], "current_mks": ["A", "mA"],
         "luminous_intensity": ["cd", "kcd"], "logarithmic": ["Np", "B", "dB"]}


def ctor_cases(unyt, rec, regmode, tier):
    from unyt.unit_registry import UnitRegistry
    from unyt import dimensions as ud
    reg = None
    extra_wrong = {}
    if regmode == "registry":
        reg = UnitRegistry()
        reg.add("code_length", 3.0e21, ud.length); reg.add("code_mass", 2.0e40, ud.mass); reg.add("code_time", 3.15e13, ud.time)
        reg.add("code_temperature", 2.0, ud.temperature); reg.add("code_velocity", 1e5, ud.velocity)
        extra_wrong = {"length": ["code_mass", "code_velocity"], "mass": ["code_length"], "time": ["code_velocity", "code_length"], "temperature": ["code_time"]}
    n = [0]

    def attempt(slot, u, form, context="si"):
        n[0] += 1
        base = {"length": "m", "mass": "kg", "time": "s", "temperature": "K", "angle": "rad", "current_mks": "A",
                "luminous_intensity": "cd", "logarithmic": "Np"}
        if reg is not None:
            base.update({"length": "code_length", "mass": "code_mass", "time": "code_time"})
        others = "str"
        if context == "nocur":
            base.update({"length": "cm", "mass": "g", "current_mks": None} if reg is None else {"current_mks": None})
        elif context == "quantity-others":
            others = "quantity"
        elif context == "unit-others":
            others = "unit"
        base[slot] = u
        desc = {"name": f"vf_c10_ctor_{regmode}_{n[0]}", "base": base, "forms": {s: (others if s != slot else form) for s in SM.SLOTS},
                "coeff": {s: 3.0 for s in SM.SLOTS}, "over": [], "npos": 3 if n[0] % 2 else 0}
        if base["current_mks"] is None:
            desc["forms"]["current_mks"] = "none"
        try:
            Sobj, S = construct(unyt, desc, reg)
            return None, Sobj, desc
        except Exception as e:
            return e, None, desc

    for slot in SM.SLOTS:
        for u in WRONG[slot] + extra_wrong.get(slot, []):
            fs = ["str", "unit", "quantity", "coeffstr"] + (["alias"] if u in ALIAS else [])
            if tier == "thorough" and defs.T.get(u) is not None and defs.T[u].prefixable:
                fs.append("prefixed")
            for form in fs:
                uu, ff = (("k" + u), "str") if form == "prefixed" else (u, form)
                # the other seven slots: plain SI strings, a Gaussian-like system without current, quantities, Unit objects
                for context in ("si", "nocur", "quantity-others", "unit-others"):
                    if context == "nocur" and slot == "current_mks":
                        continue
                    if context != "si" and form not in ("str", "unit") and tier == "quick":
                        continue
                    rec.count("mon:ctor-reject")
                    e, Sobj, desc = attempt(slot, uu, ff, context)
                    if e is None:
                        rec.violation(f"C10:construct:inconsistent-base-accepted:{slot}:{form}:{regmode}:{context}", f"UnitSystem with {slot}_unit={uu!r} (given as {ff}; other slots {context}) was constructed: {dict((str(k), str(v)) for k, v in Sobj.base_units.items())}", desc)
                    else:
                        if type(e).__name__ != "IllDefinedUnitSystem":
                            rec.note(f"ctor-rejected-with:{type(e).__name__}")
                        rec.ok(("ctor-reject", regmode, slot, u, form, context))
        for u in RIGHT[slot]:
            if reg is not None and slot in ("length", "mass", "time") and False:
                continue
            for form in ["str", "unit", "quantity", "coeffstr"] + (["alias"] if u in ALIAS else []):
                for context in ("si", "nocur", "quantity-others", "unit-others"):
                    if context == "nocur" and slot == "current_mks":
                        continue
                    rec.count("mon:ctor-accept")
                    e, Sobj, desc = attempt(slot, u, form, context)
                    if e is not None:
                        rec.violation(f"C10:construct:consistent-base-rejected:{slot}:{form}:{regmode}:{context}:{type(e).__name__}", f"UnitSystem with {slot}_unit={u!r} (given as {form}; other slots {context}) raised {type(e).__name__}: {str(e)[:150]}", desc)
                    else:
                        rec.ok(("ctor-accept", regmode, slot, u, form, context))
    # compound base-unit expressions of the right dimension: recorded only
    for slot, u in (("length", "c*s"), ("length", "km/s*s"), ("mass", "J/c**2"), ("time", "1/Hz"), ("length", "sqrt(m**2)")):
        e, Sobj, desc = attempt(slot, u, "str")
        rec.note(f"compound-base:{'accepted' if e is None else type(e).__name__}")
    rec.sample({"ctor": regmode, "wrong_examples": {k: v[:3] for k, v in WRONG.items()}})


# ------------------------------------------------------------------ code-unit registries
def code_cases(unyt, rec, r, idx, tier):
    from unyt.unit_registry import UnitRegistry
    from unyt import dimensions as ud
    reg = UnitRegistry()
    cur = (idx % 2 == 1)
    L = 10 ** r.uniform(-3, 24); M = 10 ** r.uniform(-6, 42); T = 10 ** r.uniform(-6, 16); K = r.choice([1.0, 2.5, 1e4])
    reg.add("code_length", L, ud.length); reg.add("code_mass", M, ud.mass); reg.add("code_time", T, ud.time)
    reg.add("code_temperature", K, ud.temperature); reg.add("code_velocity", L / T, ud.velocity)
    reg.add("code_pressure", M / L / T ** 2, ud.pressure)
    reg.add("code_density", M / L ** 3, ud.density)
    if cur:
        reg.add("code_magnetic", 10 ** r.uniform(-12, 2), ud.magnetic_field_mks)
    else:
        reg.add("code_magnetic", 10 ** r.uniform(-12, 2), ud.magnetic_field_cgs)
    ctx = Ctx(unyt, rec, reg)
    desc = {"name": reg.unit_system_id, "origin": "code", "base": {"length": "code_length", "mass": "code_mass", "time": "code_time", "temperature": "code_temperature",
            "angle": "rad", "current_mks": "A" if cur else None, "luminous_intensity": "cd", "logarithmic": "Np"},
            "forms": {s: "str" for s in SM.SLOTS}, "coeff": {s: 1.0 for s in SM.SLOTS}, "over": [], "npos": 3}
    desc["forms"]["current_mks"] = "str" if cur else "none"
    rec.count("mon:code-construct")
    try:
        Sobj, S = construct(unyt, desc, reg)
    except Exception as e:
        rec.violation(f"C10:construct:consistent-base-rejected:code:{type(e).__name__}", f"code unit system over a registry with code_length/mass/time raised {type(e).__name__}: {str(e)[:150]}", {"cur": cur}); return
    declare(unyt, Sobj, S, "velocity", "code_velocity", "name")
    declare(unyt, Sobj, S, "pressure", "code_pressure", "name")
    declare(unyt, Sobj, S, "magnetic_field_mks" if cur else "magnetic_field_cgs", "code_magnetic", "name")
    scls = S.cls()

    class DS:
        pass
    ds = DS(); ds.unit_registry = reg
    args = [("'code'", "code"), ("object", Sobj), ("dataset-like", ds), ("id", reg.unit_system_id)]
    units = ["code_length", "code_mass", "code_time", "code_temperature", "code_velocity", "code_pressure", "code_density", "code_magnetic",
             "km", "g", "Myr", "K", "km/s", "dyn/cm**2", "g/cm**3", "erg", "Msun/pc**3", "code_length**2*code_mass/code_time**2", "code_mass/code_length**3",
             "G", "T", "uG", "mT", "statC", "C", "code_length/s", "rad", "Np", "cd"]
    units += sample_units(r, tier, 6 if tier == "quick" else 30, 4 if tier == "quick" else 16, em=False)
    for j, u in enumerate(units):
        how, arg = args[j % len(args)]
        judge(ctx, S, arg, u, np.array(VALS[:3]), cellkey=(scls, how, family(u, None) if not u.startswith("code") else "code-unit"), aliases=False, scls=scls)
    audit_units_map(ctx, S, Sobj)
    # the dataset is loaded again: a system of the same name (the registry's id) is defined anew, this time declaring nothing
    # and (where there is a current unit) with another one; everything converted above must now follow the new definition
    desc2 = dict(desc, base=dict(desc["base"]), forms=dict(desc["forms"]))
    if cur:
        desc2["base"]["current_mks"] = r.choice(["mA", "kA", "A"])
    again = [u for u in units if family(u, None).startswith("em-") or u.startswith("code")] + r.sample(units, 6)
    for j, u in enumerate(again):       # the conversions closest to the re-definition (their memos are the youngest)
        _warm(unyt, ctx, args[j % len(args)][1], u, np.array(VALS[:3]), ("in_base", "convert_to_base", "get_base_equivalent")[j % 3])
    rec.count("mon:code-redefine")
    try:
        Sobj2, S2 = construct(unyt, desc2, reg)
    except Exception as e:
        rec.violation(f"C10:redefine:consistent-base-rejected:code:{type(e).__name__}", f"second code unit system over the same registry raised {type(e).__name__}: {str(e)[:150]}", {"cur": cur}); return
    args2 = [("'code'", "code"), ("object", Sobj2), ("dataset-like", ds), ("id", reg.unit_system_id)]
    for j, u in enumerate(again):
        how, arg = args2[(j + 1) % len(args2)]
        rec.count("mon:code-redefine-judged")
        judge(ctx, S2, arg, u, np.array(VALS[:3]), cellkey=(scls, "redefined", how, family(u, None) if not u.startswith("code") else "code-unit"), aliases=False, scls=scls,
              case_extra={"history": "code system declared velocity/pressure/magnetic field, converted, then defined again under the same id without declared units",
                          "system_given_as": how})
    audit_units_map(ctx, S2, Sobj2)
    # code units towards the built-in systems
    for s in BUILTINS:
        Sb = SM.builtin_model(s, ctx.canon)
        for u in ["code_length", "code_mass/code_length**3", "code_velocity", "code_pressure", "code_magnetic", "code_temperature", "code_length*code_magnetic"]:
            judge(ctx, Sb, s, u, np.array(VALS[:3]), cellkey=(s, "from-code", u), aliases=(s in ("cgs", "mks")))
    rec.sample({"code_registry": {"L": L, "M": M, "T": T, "current": cur}})


# ------------------------------------------------------------------ registry edits between conversions (systems bound to an editable registry)
class RegModel:
    """what the harness itself wrote into the registry, and when: symbol -> [mks value, dimension vector, prefixable, dimension name].
    The reference reads the edited symbols from here, never from the registry's table or from a Unit object"""

    def __init__(self):
        self.tab = {}

    def split(self, tok):
        if tok in self.tab:
            return (1.0, tok)
        for p, f in defs.PREFIX.items():
            s = tok[len(p):]
            if tok.startswith(p) and s in self.tab and self.tab[s][2]:
                return (f, s)
        return None


def regedit_ctx(unyt, rec, reg, model):
    ctx = Ctx(unyt, rec, reg)
    base_res, base_canon = ctx.res, ctx.canon

    def res(tok):
        c = model.split(tok)
        if c is not None:
            return (model.tab[c[1]][0] * c[0], model.tab[c[1]][1])
        return base_res(tok)

    def canon(tok):
        c = model.split(tok)
        return c if c is not None else base_canon(tok)
    ctx.res, ctx.canon = res, canon
    ctx.base_res = base_res
    return ctx


REGEDIT_KINDS = ("user-code", "user-code", "user-mixed", "code-id", "code-id", "user-prefixed")
REGEDIT_ORD = ["m", "km", "g", "Msun", "Myr", "s", "K", "J", "erg", "g/cm**3", "km/s", "N/m**2", "dyn/cm**2", "1/s", "Hz", "K*m", "W", "kg*m/s",
               "pc**3", "rad/s", "cd/m**2", "sqrt(g)*cm**(3/2)/s", "erg/K", "Msun/yr", "km**2", "m/s**2", "Pa*s", "J/kg"]
REGEDIT_EDITS = ("modify", "modify", "modify", "modify-quantity", "re-add", "modify-declared", "modify-unused", "modify-several", "declare-late-then-modify")
REGEDIT_Q = {"length": ["km", "pc", "cm", "AU"], "mass": ["g", "Msun", "lb"], "time": ["yr", "ms", "Myr"], "temperature": ["K", "R"],
             "velocity": ["km/s", "cm/s"], "pressure": ["Pa", "dyn/cm**2", "bar"], "density": ["g/cm**3", "kg/m**3"],
             "magnetic_field_mks": ["T"], "magnetic_field_cgs": ["G"], "energy": ["erg", "J"]}


def _sys_build(unyt, desc, reg, ctx, decl):
    """construct + declare; the model's atoms are read with the history's own canon (prefixed code units)"""
    Sobj, _m = construct(unyt, desc, reg)
    S = SM.SysModel(desc["name"], [base_string(desc["base"][s], desc["forms"][s], desc["coeff"][s]) for s in SM.SLOTS], {}, ctx.canon,
                    origin=desc.get("origin", "user"))
    for (dn, u) in decl:
        declare(unyt, Sobj, S, dn, u, "name")
    return Sobj, S


def regedit_cases(unyt, rec, r, idx, tier):
    from unyt.unit_registry import UnitRegistry
    from unyt.unit_systems import unit_system_registry
    from unyt import dimensions as ud
    kind = REGEDIT_KINDS[idx % len(REGEDIT_KINDS)]
    cur = (idx // len(REGEDIT_KINDS)) % 2 == 1 if kind != "code-id" else r.random() < 0.5
    reg = UnitRegistry()
    model = RegModel()
    ctx = regedit_ctx(unyt, rec, reg, model)
    vals = np.array(VALS[:3])

    def radd(sym, val, dn, prefixable=False):
        reg.add(sym, val, getattr(ud, dn), prefixable=prefixable)
        model.tab[sym] = [float(val), dims.of_expr(getattr(ud, dn)), prefixable, dn]

    L = 10 ** r.uniform(-3, 22); M = 10 ** r.uniform(-6, 40); T = 10 ** r.uniform(-6, 15); K = r.choice([1.0, 2.5, 1e4])
    lroot = "code_length"
    if kind == "user-prefixed":
        lroot = "clu"
        radd("clu", L, "length", True)
    else:
        radd("code_length", L, "length")
    radd("code_mass", M, "mass"); radd("code_time", T, "time"); radd("code_temperature", K, "temperature")
    radd("code_velocity", L / T * r.choice([1.0, 3.0]), "velocity")
    radd("code_pressure", M / L / T ** 2 * r.choice([1.0, 0.5]), "pressure")
    radd("code_density", M / L ** 3, "density")
    mdn = "magnetic_field_mks" if cur else "magnetic_field_cgs"
    radd("code_magnetic", 10 ** r.uniform(-12, 2), mdn)
    radd("code_spare", 10 ** r.uniform(-3, 3), "length")             # never used by the system
    base = {"length": lroot, "mass": "code_mass", "time": "code_time", "temperature": r.choice(["code_temperature", "K"]), "angle": "rad",
            "current_mks": "A" if cur else None, "luminous_intensity": "cd", "logarithmic": "Np"}
    if kind == "user-prefixed":
        base["length"] = r.choice(["kclu", "Mclu", "mclu"])
    if kind == "user-mixed":
        for sl, alt in r.sample([("length", "kpc"), ("mass", "Msun"), ("time", "Myr")], r.randint(1, 2)):
            base[sl] = alt
    forms = {s: r.choice(["str", "str", "unit", "quantity", "coeffstr"]) for s in SM.SLOTS}
    if kind == "code-id":
        forms = {s: "str" for s in SM.SLOTS}
    forms["current_mks"] = "str" if cur else "none"
    name = reg.unit_system_id if kind == "code-id" else r.choice(["vf_c10_sim", "sim", "Vf C10 run"]) + f"_{idx}"
    desc = {"name": name, "origin": "code" if kind == "code-id" else "user", "base": base, "forms": forms,
            "coeff": {s: r.choice([2.0, 0.5, 42.0]) for s in SM.SLOTS}, "over": [], "npos": r.choice([3, 3, 5, 0])}
    dpool = [("velocity", "code_velocity"), ("pressure", "code_pressure"), ("density", "code_density"), (mdn, "code_magnetic"), ("energy", "erg")]
    decl = r.sample(dpool, r.randint(0, 3))
    rec.count("mon:regedit-construct")
    try:
        Sobj, S = _sys_build(unyt, desc, reg, ctx, decl)
    except Exception as e:
        rec.violation(f"C10:registry-edit:consistent-base-rejected:{type(e).__name__}", f"unit system {base} over a registry with code units raised {type(e).__name__}: {str(e)[:150]}", desc); return
    scls = S.cls()
    if r.random() < 0.4:
        reg.unit_system = Sobj          # the registry's default system: the no-argument forms go through it
    live = [(Sobj, S, desc)]

    class DS:
        pass
    ds = DS(); ds.unit_registry = reg

    def sys_args():
        out = []
        for (so, sm, sd) in live:
            out += [("object", so, sm), ("name", sd["name"], sm)]
            if sd["origin"] == "code" and unit_system_registry.get(reg.unit_system_id) is so:
                out += [("'code'", "code", sm), ("dataset-like", ds, sm)]
        return out

    def code_probes():
        have = [s for s in model.tab]
        out = [lroot, "code_mass", "code_time", "code_velocity", "code_pressure", "code_density", f"{lroot}**2*code_mass/code_time**2",
               f"code_mass/{lroot}**3", f"{lroot}/s", "km/code_time", f"{lroot}**(3/2)", "code_temperature*code_mass", base["length"], f"{base['length']}**2"]
        out += [s for s in have if s not in out and s != "code_magnetic"]
        return out

    nround = r.choice([3, 4]) if tier == "quick" else r.choice([3, 4, 5, 6])
    nprobe = 12 if tier == "quick" else 22
    old = []                      # (round created, unit, quantity, scale when created, values)
    history = []

    def used_syms():
        return sorted({model.split(t)[1] for sl, u in base.items() if u for t in SM.names_in(u) if model.split(t)})
    for k in range(nround):
        edited = []
        if k:
            # ---- the edit(s)
            what = r.choice(REGEDIT_EDITS)
            base_syms = used_syms()
            decl_syms = [u for (dn, u) in decl if u in model.tab]
            if what == "modify-declared" and not decl_syms:
                what = "declare-late-then-modify"
            if what == "declare-late-then-modify":
                free = [(dn, u) for (dn, u) in dpool if dn not in {d for d, _u in decl} and u in model.tab]
                if not free:
                    what = "modify"
                else:
                    dn, u = r.choice(free)
                    for (so, sm, sd) in live:
                        declare(unyt, so, sm, dn, u, "name")
                    decl.append((dn, u))
                    # converted once with the declaration in place, then the declared symbol is edited
                    for pu in REGEDIT_Q.get(dn, [])[:2]:
                        _warm(unyt, ctx, live[-1][0], pu, vals, r.choice(["in_base", "convert_to_base", "get_base_equivalent"]))
                    targets = [u]
            if what in ("modify", "modify-quantity", "re-add"):
                targets = [r.choice(base_syms)] if base_syms else [r.choice(decl_syms or ["code_spare"])]
            elif what == "modify-declared":
                targets = [r.choice(decl_syms)]
            elif what == "modify-unused":
                targets = ["code_spare"]
            elif what == "modify-several":
                pool_ = base_syms + decl_syms
                targets = r.sample(pool_, min(len(pool_), r.randint(2, 4)))
            for sym in targets:
                ent = model.tab[sym]
                newv = ent[0] * 10 ** r.uniform(-2.5, 2.5) if r.random() < 0.8 else ent[0] * r.choice([2.0, 0.5, 1000.0])
                rec.count("mon:regedit-edit")
                try:
                    if what == "modify-quantity" and ent[3] in REGEDIT_Q:
                        qu = r.choice(REGEDIT_Q[ent[3]])
                        qs = uexpr.evaluate(qu, ctx.base_res)[0]
                        reg.modify(sym, unyt.unyt_quantity(newv / qs, qu))
                        newv = (newv / qs) * qs
                    elif what == "re-add":
                        reg.remove(sym)
                        reg.add(sym, newv, getattr(ud, ent[3]), prefixable=ent[2])
                    else:
                        reg.modify(sym, newv)
                except Exception as e:
                    rec.violation(f"C10:registry-edit:edit-raises:{what}:{type(e).__name__}", f"registry.{what}({sym!r}, {newv!r}) raised {type(e).__name__}: {str(e)[:150]}", {"history": history, "symbol": sym})
                    return
                ent[0] = float(newv)
                edited.append((what, sym, float(newv)))
            history.append(edited)
            # a code system is registered again under the registry's new id (the dataset's units became known); the old object stays
            if kind == "code-id" and r.random() < 0.5:
                d2 = dict(desc, name=reg.unit_system_id)
                try:
                    So2, S2 = _sys_build(unyt, d2, reg, ctx, decl)
                    live.append((So2, S2, d2))
                    rec.count("mon:regedit-code-reregistered")
                except Exception as e:
                    rec.violation(f"C10:registry-edit:consistent-base-rejected:after-edit:{type(e).__name__}", f"code system over the edited registry raised {type(e).__name__}: {str(e)[:150]}", {"history": history})
        # ---- S[dimension] hands out the unit the registry's table describes NOW
        args = sys_args()
        for dn in r.sample(["length", "mass", "time", "velocity", "pressure", "density", "energy", "force", "area", "frequency", "temperature"], 4):
            so, sm, _sd = live[r.randrange(len(live))]
            rec.count("mon:regedit-getitem")
            try:
                u = so[dn]
                B = Affine(expr_of(u), ctx.res)
            except Exception as e:
                rec.violation(f"C10:registry-edit:getitem:raises:{type(e).__name__}", f"system {base}[{dn!r}] after {history} raised {type(e).__name__}: {str(e)[:120]}", {"history": history}); continue
            if B.dim != (SM.DIMNAME.get(dn) or SM.SLOT_DIM[dn]) or landing(sm, ctx, expr_of(u), B.dim):
                rec.violation(f"C10:registry-edit:getitem:wrong-unit:{scls}", f"system {base}[{dn!r}] -> {u}", {"history": history})
            elif not close(u.base_value, B.scale, 1e-12):
                rec.violation(f"C10:registry-edit:getitem:stale-scale:{scls}:{'after-edit' if k else 'before-edit'}",
                              f"system {base} (declared {decl}) [{dn!r}] -> {u} worth {u.base_value!r} (mks); the registry's table now says {B.scale!r} (edits {history})", {"history": history, "dimension": dn})
            else:
                rec.ok(("regedit-getitem", scls, kind, dn, "after-edit" if k else "before-edit"))
        # ---- quantities created before the edit keep their value
        for (k0, u, q, sc0, v0, base0) in old:
            if k0 != k - 1:
                continue
            rec.count("mon:regedit-old-quantity")
            how, arg, sm = args[r.randrange(len(args))]
            case = {"history": history, "unit": u, "created_in_round": k0, "system_base": base}
            if not np.array_equal(np.asarray(q.d), v0) or q.units.base_value != base0:
                rec.violation(f"C10:registry-edit:old-quantity:changed-by-edit:{scls}", f"{v0.tolist()} {u} created before {edited}: now {q!r} with unit scale {q.units.base_value!r} (was {base0!r})", case); continue
            try:
                x = q.in_base(arg)
                phys = np.asarray(x.d) * x.units.base_value
                y = q.copy(); y.convert_to_base(arg)
                g = q.units.get_base_equivalent(arg)
            except unyt.exceptions.UnitsNotReducible:
                rec.ok(("regedit-old-refusal", scls, kind)); continue
            except Exception as e:
                rec.violation(f"C10:registry-edit:old-quantity:raises:{type(e).__name__}:{scls}", f"({u} created before {edited}).in_base raised {type(e).__name__}: {str(e)[:120]}", case); continue
            if landing(sm, ctx, expr_of(x.units), dims.of_expr(x.units.dimensions)):
                rec.violation(f"C10:registry-edit:old-quantity:outside-system:{scls}", f"({u} created before {edited}).in_base -> {x!r}", case)
            elif not close(phys, v0 * sc0, 1e-12):
                rec.violation(f"C10:registry-edit:old-quantity:value:{scls}", f"{v0.tolist()} {u} created when its unit was worth {sc0!r} (mks), converted after {edited}: {x!r} whose unit is worth {x.units.base_value!r}: "
                              f"{phys.tolist()} (mks) instead of {(v0 * sc0).tolist()}", case)
            elif (expr_of(y.units) != expr_of(x.units) or not close(np.asarray(y.d) * y.units.base_value, phys, 1e-12) or expr_of(g) != expr_of(x.units)
                  or not (close(g.base_value, x.units.base_value, 1e-14) or close(g.base_value, y.units.base_value, 1e-14))):
                rec.violation(f"C10:registry-edit:old-quantity:forms-disagree:{scls}", f"{u} created before {edited}: in_base -> {x!r}, convert_to_base -> {y!r}, get_base_equivalent -> {g!r} ({g.base_value!r})", case)
            else:
                rec.ok(("regedit-old", scls, kind, how, "code-unit" if any(model.split(t) for t in SM.names_in(u)) else "ordinary"))
        # ---- fresh quantities through every form; the first call after the edit is rotated over the forms
        probes = r.sample(REGEDIT_ORD, nprobe // 2) + r.sample(code_probes(), nprobe // 2 - 1) + [gen_compound(r)] + (r.sample(["G", "T", "uG", "mT"], 1) if k % 2 else [])
        if k:
            # dimensions converted before the edit come first: their memos are the ones an edit can leave behind
            prev = [p for p in history_probes if p not in probes]
            probes = r.sample(prev, min(len(prev), nprobe // 2)) + probes
        else:
            history_probes = []
        steplog = []
        for j, u in enumerate(probes):
            how, arg, sm = args[r.randrange(len(args))]
            try:
                du = uexpr.evaluate(u, ctx.res)[1]
            except Exception:
                rec.note("harness:reference-cannot-evaluate-input"); continue
            fam = family(u, du)
            clean = not (fam.startswith("em-") or fam in ("compound-current", "compound-gauss", "current-atom", "gauss-atom"))
            codeu = any(model.split(t) for t in SM.names_in(u))
            first_form = (None, "in_base", "convert_to_base", "get_base_equivalent")[(j + k) % 4]
            first = None
            if first_form is not None:
                first = _plain_one(ctx, arg, u, vals, first_form)
            tr = {}
            out = judge(ctx, sm, arg, u, vals, cellkey=(scls, "regedit", kind, "after-edit" if k else "before-edit", how, "code-unit" if codeu else fam),
                        aliases=False, scls=scls, keytag="+registry-edit" if (k and clean) else "", trace=tr, scale_mon=True,
                        case_extra={"registry_edits": history, "registry_now": {s: e[0] for s, e in model.tab.items()}, "declared": decl, "system_given_as": how, "round": k})
            if out is None:
                continue
            if k:
                rec.count("mon:regedit-judged")
            if u not in history_probes:
                history_probes.append(u)
            steplog.append((u, tr, arg is not None))
            if first is not None and k:
                key_form = {"in_base": "in_base", "convert_to_base": "inplace", "get_base_equivalent": "gbe"}[first_form]
                if key_form in tr:
                    rec.count("mon:regedit-first-call")
                    (e1, v1), (e2, v2) = first, tr[key_form]
                    what_ = None
                    if e1 != e2 and not same_unit(ctx, e1, e2):
                        what_ = "unit"
                    elif v1 is not None and v2 is not None and not close(np.asarray(v1), np.asarray(v2), 1e-13):
                        what_ = "value"
                    if what_:
                        rec.violation(f"C10:registry-edit:first-call-after-edit-differs-from-later-call:{first_form}:{what_}:{scls}",
                                      f"after {edited}: the first {first_form} of ({u}) -> {v1} {e1}; the same call later -> {v2} {e2}", {"history": history, "unit": u})
                    else:
                        rec.ok(("regedit-first-call", first_form, scls, kind))
            # the registry's default system: no-argument forms answer what the explicit form answers
            if reg.unit_system is live[0][0] and arg in (live[0][0], live[0][2]["name"]) and j % 3 == 0:
                rec.count("mon:regedit-default")
                got = _plain_one(ctx, None, u, vals, "in_base")
                (e1, v1), (e2, v2) = got, tr["in_base"]
                if (e1 != e2 and not same_unit(ctx, e1, e2)) or (v1 is not None and v2 is not None and not close(np.asarray(v1), np.asarray(v2), 1e-13)):
                    rec.violation(f"C10:registry-edit:default-system-differs:{scls}:{'after-edit' if k else 'before-edit'}", f"({u}).in_base() -> {v1} {e1}; in_base(<the registry's unit_system>) -> {v2} {e2} (edits {history})", {"history": history, "unit": u})
                else:
                    rec.ok(("regedit-default", scls, kind, "after-edit" if k else "before-edit"))
        # ---- quantities of this round, looked at again after the next edit
        for u in r.sample(probes, min(len(probes), 5)):
            try:
                sc0, du = uexpr.evaluate(u, ctx.res)
                fam = family(u, du)
                if fam.startswith("em-") or fam in ("compound-current", "compound-gauss", "current-atom", "gauss-atom", "offset", "log"):
                    continue
                if single_atom(u) is not None and defs.T[single_atom(u)[1]].offset:
                    continue
                q = make_q(ctx, u, np.array(vals, copy=True))
                if close(q.units.base_value, sc0, 1e-12):
                    old.append((k, u, q, sc0, np.array(vals, copy=True), q.units.base_value))
            except Exception:
                pass
        # ---- differential: a never-edited registry holding the current contents, same definition under a never-used name
        if k and (k == nround - 1 or r.random() < 0.4):
            reg2 = UnitRegistry()
            for s, e in model.tab.items():
                reg2.add(s, e[0], getattr(ud, e[3]), prefixable=e[2])
            ctx2 = regedit_ctx(unyt, rec, reg2, model)
            tw = dict(desc, name=f"{desc['name']}_twin{k}", origin="user")
            try:
                Tobj, _TS = _sys_build(unyt, tw, reg2, ctx2, decl)
            except Exception as e:
                rec.note(f"harness:twin-not-constructible:{type(e).__name__}"); continue
            for (u, tr, _x) in steplog:
                got = _plain_forms(unyt, ctx2, tw["name"], u, vals)
                for form in ("in_base", "twice", "gbe", "inplace"):
                    if form not in tr or form not in got:
                        continue
                    rec.count("mon:regedit-twin")
                    (e1, v1), (e2, v2) = tr[form], got[form]
                    what_ = None
                    if e1 != e2 and not same_unit(ctx, e1, e2):
                        what_ = "unit"
                    elif v1 is not None and v2 is not None and not close(np.asarray(v1), np.asarray(v2), 1e-13):
                        what_ = "value"
                    if what_:
                        rec.violation(f"C10:registry-edit:differs-from-never-edited-registry:{form}:{what_}:{scls}",
                                      f"system {base} declared {decl} after registry edits {history}: ({u}) {form} -> {v1} {e1}; a never-edited registry with the same contents -> {v2} {e2}",
                                      {"history": history, "unit": u, "form": form, "registry_now": {s: e[0] for s, e in model.tab.items()}})
                    else:
                        rec.ok(("regedit-twin", form, scls, kind))
        for (so, sm, _sd) in live:
            audit_units_map(ctx, sm, so)
    rec.sample({"registry_edit_history": {"kind": kind, "base": base, "forms": forms, "declared": decl, "edits": history}})


def _plain_one(ctx, sysarg, ustr, vals, form):
    """what one form answers, unjudged: (unit string or exception name, values or None); sysarg None = no argument"""
    a = () if sysarg is None else (sysarg,)
    try:
        q = make_q(ctx, ustr, np.array(vals, copy=True))
        if form == "in_base":
            x = q.in_base(*a)
            return (expr_of(x.units), np.asarray(x.d).tolist())
        if form == "convert_to_base":
            q.convert_to_base(*a)
            return (expr_of(q.units), np.asarray(q.d).tolist())
        return (expr_of(q.units.get_base_equivalent(*a)), None)
    except Exception as e:
        return (type(e).__name__, None)


# ------------------------------------------------------------------ override histories: declare / re-declare a dimension of a LIVE system
def dim_object(unyt, vec):
    """the dimension object of a reference vector (order of dims.BASE: M L T K A I J LOG), built from unyt's base dimensions"""
    import sympy
    ud = unyt.dimensions
    bases = (ud.mass, ud.length, ud.time, ud.temperature, ud.angle, ud.current_mks, ud.luminous_intensity, ud.logarithmic)
    out = sympy.Integer(1)
    for b, x in zip(bases, vec):
        if x != 0:
            out = out * b ** sympy.Rational(x.numerator, x.denominator)
    return out


def _differs(ctx, a, b, rel=1e-13):
    """'unit' / 'value' / None for two (unit string or exception name, values or None) answers"""
    (e1, v1), (e2, v2) = a, b
    if e1 != e2 and not same_unit(ctx, e1, e2):
        return "unit"
    if v1 is not None and v2 is not None and not close(np.asarray(v1), np.asarray(v2), rel):
        return "value"
    return None


def override_cases(unyt, rec, r, tag, idx, nhist, tier):
    from unyt.unit_systems import unit_system_registry
    from unyt.unit_registry import UnitRegistry
    ctx0 = Ctx(unyt, rec)
    vals = np.array(VALS[:3])
    models = {}          # a built-in system keeps its (edited) model for the whole batch: the forked child owns its own copy of it
    for h in range(nhist):
        kind = OV.SYSKINDS[(idx * nhist + h) % len(OV.SYSKINDS)]
        rec.count("mon:override-construct")
        if kind in ("cgs", "mks", "builtin-cur"):
            name = kind if kind != "builtin-cur" else r.choice(OV.BUILTIN_CUR)
            Sobj = unit_system_registry[name]
            if name not in models:
                models[name] = strict_of(SM.builtin_model(name, ctx0.canon))
            S = models[name]
            twin_base = {"base": dict(zip(SM.SLOTS, SM.BUILTIN[name][0])), "forms": {s: ("str" if u is not None else "none") for s, u in zip(SM.SLOTS, SM.BUILTIN[name][0])},
                         "coeff": {s: 1.0 for s in SM.SLOTS}, "over": [], "npos": 3}
            rec.count("mon:override-builtin")
        else:
            desc = gen_system(r, f"ov{tag}_{h}", allow_offset=False)
            cur = kind == "user-cur"
            if cur and desc["base"]["current_mks"] is None:
                _set_current(desc, r.choice(["A", "mA", "kA"]))
            if not cur:
                _set_current(desc, None)
            desc["over"] = _gen_over(r, cur, 0.6) if r.random() < 0.5 else []
            try:
                Sobj, S0 = construct(unyt, desc)
            except Exception as e:
                rec.violation(f"C10:construct:consistent-base-rejected:{type(e).__name__}", f"UnitSystem with consistent base units {desc['base']} raised {type(e).__name__}: {str(e)[:150]}", desc)
                continue
            name = desc["name"]
            S = strict_of(S0)
            for (dn, u, kf, _w) in desc["over"]:
                declare(unyt, Sobj, S, dn, u, kf)
            twin_base = dict(desc, over=[])
        scls = S.cls()
        al = kind in ("cgs", "mks")
        reg = UnitRegistry(unit_system=Sobj)
        ctxr = Ctx(unyt, rec, reg)
        hows = [("name", name, ctx0), ("object", Sobj, ctx0), ("registry-default", None, ctxr)]
        hist = OV.History(r, S.has_current, dict(S.declared), tier)
        nround = r.choice([2, 3]) if tier == "quick" else r.choice([3, 4, 5])
        fams = sorted(hist.fams)
        emf = [f for f in fams if f.startswith("em-")]
        lead = r.choice(emf) if r.random() < 0.6 else r.choice(fams)
        fam_order = [lead] + r.sample([f for f in fams if f != lead], len(fams) - 1)
        events = []          # the override events of this history, in order: what the model's declared set is read from
        for k in range(nround):
            steps = hist.next_round(fam_order[k % len(fam_order)])
            if not steps:
                continue
            avoid = {st["vec"] for st in steps}
            by = hist.bystanders(2, avoid)
            hi = r.randrange(len(hows))
            tagk = "+override-history" if events else ""
            cx_extra = {"overrides_so_far": [dict(e) for e in events], "system_given_as": hows[hi][0]}
            # ---- conversions under the declarations in force (every route: judge() runs in_base, its second application,
            #      get_base_equivalent, convert_to_base and, for cgs/mks, the *_cgs / *_mks spellings)
            for st in steps:
                for u in st["probes"]:
                    how, arg, cx = hows[hi]
                    rec.count("mon:override-before")
                    judge(cx, S, arg, u, vals, cellkey=(scls, "override", "before", st["family"], how, family(u, None)), aliases=al, scls=scls, keytag=tagk,
                          case_extra=dict(cx_extra, about_to_declare=(st["dimname"], st["unit"])))
            for u in by:
                how, arg, cx = hows[hi]
                judge(cx, S, arg, u, vals, cellkey=(scls, "override", "before", "bystander", how, family(u, None)), aliases=False, scls=scls, keytag=tagk, case_extra=cx_extra)
            # ---- the overrides
            done = []
            for st in steps:
                key = dim_object(unyt, st["vec"]) if st["keyform"] == "dimobj" else st["key"]
                rec.count("mon:override-declare")
                try:
                    Sobj[key] = st["unit"]
                except Exception as e:
                    rec.violation(f"C10:override:declare-raises:{type(e).__name__}:{st['family']}:{scls}",
                                  f"system {name!r} {S.base}: S[{st['key'] if st['keyform'] == 'name' else 'dimension object of ' + st['dimname']!r}] = {st['unit']!r} raised {type(e).__name__}: {str(e)[:150]}",
                                  {"system_base": S.base, "overrides_so_far": events, "step": {x: str(y) for x, y in st.items()}})
                    continue
                S.declared[st["vec"]] = st["unit"]
                S.declared_atoms[st["vec"]] = S._atoms(st["unit"])
                hist.commit(st)
                events.append({"round": k, "dimension": st["dimname"], "key": st["key"] if st["keyform"] == "name" else "dimension-object", "unit": st["unit"], "replaces": st["previous"]})
                rec.count("mon:override-family:" + st["family"])
                rec.count("mon:override-redeclare" if st["redeclare"] else "mon:override-first-declaration-after-use")
                done.append(st)
            if not done:
                continue
            # ---- the same units again, AT ONCE: atoms of the SI/Gaussian pairing first (their route memoises per unit and system),
            #      then the other spellings, then units of dimensions that were not declared in this round
            order = [(st, u) for st in done for u in st["em_first"]]
            order += [(st, u) for st in done for u in st["probes"] if u not in st["em_first"]]
            order += [(None, u) for u in by]
            cx_extra = {"overrides_so_far": [dict(e) for e in events]}
            steplog = []
            for j, (st, u) in enumerate(order):
                how, arg, cx = hows[hi] if (j == 0 or r.random() < 0.7) else hows[r.randrange(len(hows))]
                fam = family(u, None)
                famkey = st["family"] if st is not None else "bystander"
                first_form = OV.ROUTES[(j + k + h) % 3] if j % 4 != 3 else None
                first = _plain_one(cx, arg, u, vals, first_form) if first_form is not None else None
                tr = {}
                out = judge(cx, S, arg, u, vals, cellkey=(scls, "override", "redeclared" if (st and st["redeclare"]) else "declared", famkey, how, fam), aliases=al, scls=scls,
                            keytag="+override-history", trace=tr,
                            case_extra=dict(cx_extra, system_given_as=how, first_route_after_override=first_form,
                                            declared_now=(st["dimname"], st["unit"]) if st else None))
                if out is None:
                    continue
                rec.count("mon:override-probe")
                if st is None:
                    rec.count("mon:override-bystander")
                else:
                    rec.count("mon:override-probe:" + st["family"])
                    if OV.pairing_atom(u):
                        rec.count("mon:override-probe-pairing-atom-" + ("redeclared" if st["redeclare"] else "first-declared"))
                if how == "registry-default":
                    rec.count("mon:override-default")
                steplog.append((u, first_form, tr))
                if first is not None:
                    key_form = {"in_base": "in_base", "convert_to_base": "inplace", "get_base_equivalent": "gbe"}[first_form]
                    if key_form in tr:
                        rec.count("mon:override-first-call")
                        rec.count("mon:override-first-call:" + first_form)
                        what = _differs(cx, first, tr[key_form])
                        if what:
                            rec.violation(f"C10:override:first-call-after-override-differs-from-later-call:{first_form}:{what}:{fam}:{scls}",
                                          f"system {name!r} after {events[-len(done):]}: the first {first_form} of ({u}) -> {first[1]} {first[0]}; the same call later -> {tr[key_form][1]} {tr[key_form][0]}",
                                          dict(cx_extra, unit=u, system_base=S.base))
                        else:
                            rec.ok(("override-first-call", first_form, scls, famkey, fam))
            # ---- S[dimension] hands out the unit that was declared
            for st in done:
                rec.count("mon:override-getitem")
                key = st["key"] if (st["key"] is not None and r.random() < 0.5) else dim_object(unyt, st["vec"])
                try:
                    got = expr_of(Sobj[key])
                    A = Affine(st["unit"], ctx0.res); B = Affine(got, ctx0.res)
                    same = A.dim == B.dim and close(A.scale, B.scale, 1e-13) and {ctx0.canon(t) for t in SM.names_in(st["unit"])} == {ctx0.canon(t) for t in SM.names_in(got)}
                except Exception as e:
                    rec.violation(f"C10:override:getitem-raises:{type(e).__name__}:{st['family']}:{scls}", f"system {name!r}: S[{st['dimname']}] after declaring {st['unit']!r} raised {type(e).__name__}: {str(e)[:120]}", dict(cx_extra, system_base=S.base))
                    continue
                if not same:
                    rec.violation(f"C10:override:getitem-is-not-the-declared-unit:{st['family']}:{scls}", f"system {name!r} {S.base}: S[{st['dimname']}] = {st['unit']!r} was declared (replacing {st['previous']!r}) but S[...] hands out {got!r}", dict(cx_extra, system_base=S.base))
                else:
                    rec.ok(("override-getitem", scls, st["family"], "redeclared" if st["redeclare"] else "declared"))
            # ---- differential: the same base units under a never-used name with all the declarations made BEFORE any use
            if k == nround - 1 or r.random() < 0.35:
                tw = dict(twin_base, name=f"vf_c10_ovtwin_{tag}_{h}_{k}")
                try:
                    Tobj, _TS = construct(unyt, tw)
                    for vec, u in S.declared.items():
                        Tobj[dim_object(unyt, vec)] = u
                except Exception as e:
                    rec.note(f"harness:twin-not-constructible:{type(e).__name__}")
                    continue
                for (u, first_form, tr) in steplog:
                    got = _plain_forms(unyt, ctx0, tw["name"], u, vals, first_form)
                    fam = family(u, None)
                    for form in ("in_base", "twice", "gbe", "inplace"):
                        if form not in tr or form not in got:
                            continue
                        rec.count("mon:override-twin")
                        what = _differs(ctx0, tr[form], got[form])
                        if what:
                            rec.violation(f"C10:override:differs-from-same-declarations-made-before-use:{form}:{what}:{fam}:{scls}",
                                          f"system {name!r} {S.base} after the overrides {events}: ({u}) {form} -> {tr[form][1]} {tr[form][0]}; a system with the same base units under the never-used name "
                                          f"{tw['name']!r} in which the same units were declared before any conversion -> {got[form][1]} {got[form][0]}",
                                          dict(cx_extra, unit=u, form=form, system_base=S.base))
                        else:
                            rec.ok(("override-twin", form, scls, fam))
        audit_units_map(ctx0, S, Sobj)
        rec.sample({"override_history": {"system": name, "kind": kind, "base": S.base, "events": events}})


# ------------------------------------------------------------------ registry default system
def default_cases(unyt, rec, r, tier):
    from unyt.unit_registry import UnitRegistry
    from unyt.unit_systems import unit_system_registry
    ctxd = Ctx(unyt, rec)
    models = {s: SM.builtin_model(s, ctxd.canon) for s in BUILTINS}
    units = ["km", "hp", "erg/s", "lbf", "degC", "G", "T", "C", "Msun/kpc**3", "mile/hr", "eV", "psi", "sr", "lm", "B", "mol", "V", "statV"]
    units += [gen_compound(r) for _ in range(6 if tier == "quick" else 40)]
    # default registry: no argument means mks
    for u in units:
        _default_one(unyt, ctxd, models["mks"], u, "default-registry")
    for s in BUILTINS:
        for how, us in (("name", s), ("object", unit_system_registry[s])):
            reg = UnitRegistry(unit_system=us)
            ctx = Ctx(unyt, rec, reg)
            S = SM.builtin_model(s, ctx.canon)
            for u in units:
                _default_one(unyt, ctx, S, u, f"registry-default-by-{how}")
    # a generated system as registry default
    desc = gen_system(r, "default", allow_offset=False)
    try:
        Sobj, S = construct(unyt, desc)
    except Exception as e:
        rec.violation(f"C10:construct:consistent-base-rejected:{type(e).__name__}", f"{desc}", desc); return
    reg = UnitRegistry(unit_system=Sobj)
    ctx = Ctx(unyt, rec, reg)
    S.canon = ctx.canon
    for u in units:
        _default_one(unyt, ctx, S, u, "registry-default-user", scls=S.cls())
    rec.sample({"default_units": units[:6]})


def _default_one(unyt, ctx, S, u, how, scls=None):
    """no-argument forms must do what the explicit form does (which judge() judges)"""
    rec = ctx.rec
    scls = scls or S.cls()
    explicit = judge(ctx, S, S.name, u, np.array(VALS[:3]), cellkey=(how, S.name if S.origin == "builtin" else "user", family(u, None)), aliases=False, light=True, scls=scls)
    if explicit is None:
        return
    for form in ("in_base()", "convert_to_base()", "get_base_equivalent()"):
        rec.count("mon:default")
        try:
            q = make_q(ctx, u, np.array(VALS[:3]))
            if form == "in_base()":
                x = expr_of(q.in_base().units)
            elif form == "convert_to_base()":
                q.convert_to_base(); x = expr_of(q.units)
            else:
                x = expr_of(q.units.get_base_equivalent())
        except Exception as e:
            x = type(e).__name__
        if x != explicit and not same_unit(ctx, x, explicit):
            rec.violation(f"C10:{form}:default-system-differs:{how}", f"registry default system {S.name}: ({u}).{form} -> {x}, explicit in_base({S.name!r}) -> {explicit}", {"unit": u, "system": S.name, "how": how})
        else:
            rec.ok(("default", how, form, S.name if S.origin == "builtin" else "user", family(u, None)))


# ------------------------------------------------------------------ dtypes / shapes / classes
def forms_cases(unyt, rec, r, i, n, tier):
    ctx = Ctx(unyt, rec)
    models = {s: SM.builtin_model(s, ctx.canon) for s in BUILTINS}
    units = ["km", "hp", "Msun", "erg", "mile/hr", "g/cm**3", "degC", "degF", "T", "G", "C", "eV", "psi", "lbf*ft", "kpc/Myr", "J/K", "W/m**2", "Jy", "rpm", "lat", "%", "B"]
    units += [gen_compound(r) for _ in range(4 if tier == "quick" else 12)]
    units = units[i::n]
    shapes = [(3,), (2, 2), (0,), ("strided",), ("scalar",)]
    for u in units:
        for s in BUILTINS:
            for dt in ("f8", "f4", "i8", "i4", "c16"):
                for sh in (shapes if tier == "thorough" else r.sample(shapes, 2)):
                    if sh == ("scalar",):
                        vals = np.array(3, dtype=dt)[()] if dt[0] != "c" else np.complex128(3 + 1j)
                        scalar = True
                    elif sh == ("strided",):
                        vals = np.arange(1, 9).astype(dt)[::2]; scalar = False
                    else:
                        k = int(np.prod(sh))
                        vals = (np.arange(1, k + 1) * (2 if dt[0] in "iu" else 1.5)).astype(dt).reshape(sh); scalar = False
                        if dt == "c16":
                            vals = vals + 1j
                    if dt in ("i8", "i4") and not scalar:
                        # in-place conversion of integer data: dtype change in place is C17/C18's subject; judge the copying forms only
                        judge(ctx, models[s], s, u, vals, dt=dt, scalar=scalar, cellkey=(s, u, dt, str(sh)), light=True)
                    elif dt in ("i8", "i4"):
                        judge(ctx, models[s], s, u, vals, dt=dt, scalar=scalar, cellkey=(s, u, dt, str(sh)), light=True)
                    else:
                        judge(ctx, models[s], s, u, vals, dt=dt, scalar=scalar, cellkey=(s, u, dt, str(sh)), aliases=False)
    rec.sample({"forms_units": units[:4], "dtypes": ["f8", "f4", "i8", "i4", "c16"], "shapes": [str(s) for s in shapes]})


# ------------------------------------------------------------------ declared units are what S[...] returns
def lookup_cases(unyt, rec):
    from unyt.unit_systems import unit_system_registry
    ctx = Ctx(unyt, rec)
    for s in BUILTINS:
        S = SM.builtin_model(s, ctx.canon)
        Sobj = unit_system_registry[s]
        base, decl = SM.BUILTIN[s]
        items = [(slot, u) for slot, u in zip(SM.SLOTS, base) if u is not None] + list(decl.items())
        for dn, ustr in items:
            for keyform in ("name", "dimobj"):
                rec.count("mon:lookup")
                try:
                    got = Sobj[dn if keyform == "name" else getattr(unyt.dimensions, dn)]
                    ge = expr_of(got)
                    A = Affine(ustr, ctx.res); B = Affine(ge, ctx.res)
                    want = {ctx.canon(t) for t in SM.names_in(ustr)}
                    have = {ctx.canon(t) for t in SM.names_in(ge)}
                    if want != have or A.dim != B.dim or not close(A.scale, B.scale, 1e-13):
                        rec.violation(f"C10:getitem:declared-unit-differs:{s}", f"{s}[{dn!r}] -> {ge}; the system declares {ustr}", {"system": s, "dimension": dn})
                    else:
                        rec.ok(("lookup", s, dn, keyform))
                except Exception as e:
                    rec.violation(f"C10:getitem:raises:{type(e).__name__}:{s}", f"{s}[{dn!r}] raised {type(e).__name__}: {str(e)[:120]}", {"system": s, "dimension": dn})
        # undeclared derived dimensions are synthesised from the base units (twice: first request and memoised request)
        for dn in sorted(SM.DIMNAME):
            d = SM.DIMNAME[dn]
            for rep in (0, 1):
                rec.count("mon:lookup")
                try:
                    got = Sobj[dn]
                except unyt.exceptions.MissingMKSCurrent:
                    if S.has_current or not SM.has_current(d):
                        rec.violation(f"C10:getitem:MissingMKSCurrent-unjustified:{s}", f"{s}[{dn!r}]", {"system": s, "dimension": dn})
                    else:
                        rec.ok(("lookup-refusal", s, dn))
                    continue
                except Exception as e:
                    rec.violation(f"C10:getitem:raises:{type(e).__name__}:{s}", f"{s}[{dn!r}] raised {type(e).__name__}: {str(e)[:120]}", {"system": s, "dimension": dn}); continue
                ge = expr_of(got)
                try:
                    B = Affine(ge, ctx.res)
                except Exception:
                    rec.violation(f"C10:getitem:not-evaluable:{s}", f"{s}[{dn!r}] -> {ge}", {"system": s}); continue
                if B.dim != d or landing(S, ctx, ge, d):
                    rec.violation(f"C10:getitem:wrong-unit:{S.cls()}", f"{s}[{dn!r}] -> {ge} (dimension {dims.show(B.dim)}, wanted {dims.show(d)})", {"system": s, "dimension": dn})
                else:
                    rec.ok(("lookup-derived", s, dn, rep))
        audit_units_map(ctx, S, Sobj)
    rec.sample({"lookup": "every declared and every named dimension of the 7 built-in systems"})


# ------------------------------------------------------------------ the aftermath of a REJECTED operation (vf/gen/c10_rejected.py)
def _rj_ctor_thunk(unyt, desc, reg):
    """arguments are built first (a failure there is the harness's), the returned thunk is the constructor call alone"""
    args = {slot: build_arg(unyt, desc["base"][slot], desc["forms"][slot], desc["coeff"][slot], reg) for slot in SM.SLOTS}
    pos = [args[s] for s in ("length", "mass", "time", "temperature", "angle")][:desc["npos"]]
    kws = {KW[s]: args[s] for s in SM.SLOTS if s not in ("length", "mass", "time", "temperature", "angle")[:desc["npos"]]}
    if reg is not None:
        kws["registry"] = reg
    return lambda: unyt.UnitSystem(desc["name"], *pos, **kws)


def _rj_call(q, form, *a):
    if form == "in_base":
        return q.in_base(*a)
    if form == "convert_to_base":
        return q.convert_to_base(*a)
    return q.units.get_base_equivalent(*a)


def _rj_run(unyt, rec, hist, live):
    """one history; live=False leaves the rejected operations out (the twin).  Draws nothing: both runs execute the same calls.
    -> {"traces": [(label, answer)], "abort": reason or None}"""
    from unyt.unit_systems import unit_system_registry
    from unyt.unit_registry import UnitRegistry
    from unyt import dimensions as ud
    ctx = Ctx(unyt, rec)
    vals = np.array(VALS[:3])
    opclass = hist["opclass"]
    res = {"traces": [], "abort": None}
    systems = {}
    for s in BUILTINS:
        systems[f"builtin:{s}"] = {"name": s, "obj": unit_system_registry[s], "model": SM.builtin_model(s, ctx.canon), "ctx": ctx}
    for k, desc in enumerate(hist["user"]):
        if live:
            rec.count("mon:rejected-setup-construct")
        try:
            Sobj, S = construct(unyt, desc)
            for (dn, u, kf, _w) in desc["over"]:
                declare(unyt, Sobj, S, dn, u, kf)
        except Exception as e:
            rec.violation(f"C10:construct:consistent-base-rejected:{type(e).__name__}", f"UnitSystem with consistent base units {desc['base']} raised {type(e).__name__}: {str(e)[:150]}", desc)
            res["abort"] = "setup"; return res
        systems[f"user:{k}"] = {"name": desc["name"], "obj": Sobj, "model": S, "ctx": ctx}
    codereg = None
    if hist["code"] is not None:
        c = hist["code"]
        codereg = UnitRegistry()
        codereg.add("code_length", c["L"], ud.length); codereg.add("code_mass", c["M"], ud.mass); codereg.add("code_time", c["T"], ud.time)
        codereg.add("code_temperature", c["K"], ud.temperature); codereg.add("code_velocity", c["L"] / c["T"], ud.velocity)
        codereg.add("code_pressure", c["M"] / c["L"] / c["T"] ** 2, ud.pressure)
        cx = Ctx(unyt, rec, codereg)
        cname = codereg.unit_system_id if c["named"] == "id" else c["name"]
        cdesc = {"name": cname, "origin": "code", "base": RJ.code_base(c["cur"]), "forms": {s: "str" for s in SM.SLOTS}, "coeff": {s: 1.0 for s in SM.SLOTS},
                 "over": [], "npos": 3}
        cdesc["forms"]["current_mks"] = "str" if c["cur"] else "none"
        try:
            Sobj, S = construct(unyt, cdesc, codereg)
            declare(unyt, Sobj, S, "velocity", "code_velocity", "name")
            declare(unyt, Sobj, S, "pressure", "code_pressure", "name")
        except Exception as e:
            rec.violation(f"C10:construct:consistent-base-rejected:code:{type(e).__name__}", f"code unit system over a registry with code_length/mass/time raised {type(e).__name__}: {str(e)[:150]}", cdesc)
            res["abort"] = "setup"; return res
        systems["code"] = {"name": cname, "obj": Sobj, "model": S, "ctx": cx}
    # handles held from BEFORE the rejected operations
    class DS:
        pass
    for ref, e in systems.items():
        e["handles"] = [("name", e["name"], e["ctx"], e["model"]), ("object", e["obj"], e["ctx"], e["model"])]
        if ref == "code":
            if hist["code"]["named"] == "id":       # 'code' and dataset-like handles go through the registry's id
                ds = DS(); ds.unit_registry = codereg
                e["handles"].append(("dataset-like", ds, e["ctx"], e["model"]))
                e["handles"].append(("'code'", "code", e["ctx"], e["model"]))
        elif ref in hist["default_of"]:
            regd = UnitRegistry(unit_system=e["name"] if len(e["name"]) % 2 else e["obj"])
            cd = Ctx(unyt, rec, regd)
            m = e["model"]
            md = SM.SysModel(m.name, [m.base[s] for s in SM.SLOTS], dict(m.declared), cd.canon, origin=m.origin)
            e["handles"] += [("registry-default", None, cd, md)] * 2
    for (ref, u, form) in hist["warm"]:
        _warm(unyt, systems[ref]["ctx"], systems[ref]["name"], u, vals, form)
    # ---- the rejected operations, each between two snapshots of the table of registered systems
    targets = {op["target"] for op in hist["ops"] if op.get("target")}
    done = []
    if live:
        for op in hist["ops"]:
            label = None
            thunk = None
            try:
                if op["op"] == "ctor":
                    desc = dict(op["desc"])
                    if desc["name"] == "@code-id":
                        desc["name"] = codereg.unit_system_id
                    thunk = _rj_ctor_thunk(unyt, desc, codereg if op["registry"] == "code" else None)
                    label = ("ctor", op["namekind"])
                    what = f"UnitSystem({desc['name']!r}, base units {desc['base']}, registry={op['registry']}) [{op['defect']} in {op['slot']}; name is {op['namekind']}]"
                elif op["op"] == "setitem":
                    Sobj = systems[op["sys"]]["obj"]
                    key = op["key"] if op["keyform"] == "name" else getattr(ud, op["key"])
                    thunk = lambda Sobj=Sobj, key=key, v=op["value"]: Sobj.__setitem__(key, v)
                    label = ("setitem", op["kind"])
                    what = f"{systems[op['sys']]['name']}[{op['key']!r} as {op['keyform']}] = {op['value']!r}"
                else:
                    e = systems[op["sys"]]
                    kind = op["kind"]
                    label = ("conversion", kind)
                    if kind == "unknown-system":
                        q = make_q(ctx, op["unit"], np.array(vals, copy=True)); arg = op["ghost"]
                        thunk = lambda q=q, arg=arg, f=op["form"]: _rj_call(q, f, arg)
                    elif kind == "wrong-type-system":
                        q = make_q(ctx, op["unit"], np.array(vals, copy=True))
                        thunk = lambda q=q, f=op["form"]: _rj_call(q, f, 5)
                    elif kind == "not-reducible":
                        q = make_q(e["ctx"], op["unit"], np.array(vals, copy=True))
                        thunk = lambda q=q, f=op["form"], n=e["name"]: _rj_call(q, f, n)
                    elif kind == "readonly-inplace":
                        q = make_q(e["ctx"], op["unit"], np.array(vals, copy=True)); q.flags.writeable = False
                        thunk = lambda q=q, n=e["name"]: q.convert_to_base(n)
                    elif kind == "foreign-code-unit":
                        q = make_q(ctx, op["unit"], np.array(vals, copy=True))         # a quantity of the DEFAULT registry into the code system
                        thunk = lambda q=q, f=op["form"], n=e["obj"]: _rj_call(q, f, n)
                    else:
                        thunk = lambda o=e["obj"], k=op["key"]: o[k]
                    what = f"{kind}: ({op['unit']}).{op['form']}({op.get('ghost', e['name'])!r})" if not kind.startswith("getitem") else f"{e['name']}[{op['key']!r}]"
            except Exception as ex:
                rec.note(f"harness:rejected-op-not-buildable:{op['op']}:{type(ex).__name__}")
                continue
            repr_ok = None
            if op["op"] == "setitem":
                try:
                    repr(systems[op["sys"]]["obj"]); repr_ok = True
                except Exception:
                    repr_ok = False
            before = RJM.snapshot(unit_system_registry)
            try:
                thunk()
                exc = None
            except Exception as ex:
                exc = type(ex).__name__
            after = RJM.snapshot(unit_system_registry)
            if exc is None:
                if op["op"] == "ctor" and op["defect"] in ("swap", "wrong"):
                    rec.count("mon:ctor-reject")
                    rec.violation(f"C10:construct:inconsistent-base-accepted:{op['slot']}:{op['defect']}:after-use:{op['namekind']}",
                                  f"{what} was constructed although its base units are inconsistent", op)
                    res["abort"] = "accepted"; return res
                rec.note(f"rejected-op-returned:{label[0]}:{label[1]}")
                if op["op"] != "conv":
                    res["abort"] = "accepted"; return res      # the state has legitimately changed: no twin for this batch any more
                continue
            if op["op"] == "ctor":
                rec.count("mon:ctor-reject")
                rec.ok(("ctor-reject-after-use", op["namekind"], op["defect"], op["registry"]))
                if op["defect"] in ("swap", "wrong") and exc != "IllDefinedUnitSystem":
                    rec.note(f"ctor-rejected-with:{exc}")
                rec.count(f"mon:rejected-ctor-name:{op['namekind']}")
            rec.count(f"mon:rejected-op:{label[0]}")
            rec.note(f"rejected-op:{label[0]}:{label[1]}:{exc}")
            done.append(what + f" -> {exc}")
            # -- snapshot contract
            rec.count("mon:rejected-registry-snapshot")
            tname = systems[op["target"]]["name"] if op.get("target") else None
            bad, memo = RJM.compare(before, after)
            for (kind, name, detail) in bad:
                whose = "target" if name == tname else ("builtin" if name in BUILTINS else ("ghost" if kind == "added" else "bystander"))
                rec.violation(f"C10:rejected:{label[0]}:{label[1]}:registry-{kind}:{whose}",
                              f"{what} raised {exc}, and afterwards unit_system_registry[{name!r}] is {kind} ({detail}): a rejected operation must leave the registered systems as they were",
                              {"operation": op, "raised": exc, "name": name, "change": kind, "detail": detail})
            if not bad:
                rec.ok(("rejected-registry",) + label + (op.get("namekind", op.get("sys", "").split(":")[0]), exc))
            for (kind, name, detail) in memo:
                rec.note(f"rejected-op-{kind}:{label[0]}:{label[1]}")
            if repr_ok:
                try:
                    repr(systems[op["sys"]]["obj"])
                except Exception as ex:
                    rec.note(f"rejected-override-leaves-repr-raising:{label[1]}:{type(ex).__name__}")
    # ---- the aftermath: ordinary use of every registered system name, through every handle
    for ref, e in systems.items():
        role = "target" if ref in targets else "bystander"
        scls = e["model"].cls()
        for (u, hd, fd) in hist["probes"].get(ref, []):
            how, arg, cx, model = e["handles"][hd % len(e["handles"])]
            try:
                du = uexpr.evaluate(u, cx.res)[1]
            except Exception:
                du = None
            codeu = "code_" in u
            fam = "code-unit" if codeu else family(u, du)
            clean = not (fam.startswith("em-") or fam in ("compound-current", "compound-gauss", "current-atom", "gauss-atom"))
            first_form = (None, "in_base", "convert_to_base", "get_base_equivalent")[fd]
            lab = (ref, how, u, role, scls, fam)
            if first_form is not None:
                if live:
                    rec.count("mon:rejected-first-call")
                res["traces"].append((lab + ("first:" + first_form,), _plain_one(cx, arg, u, vals, first_form)))
            tr = {}
            out = judge(cx, model, arg, u, vals, cellkey=(scls, "after-rejected", opclass, role, how, fam), aliases=False, scls=scls,
                        keytag=f"+after-rejected-{opclass}" if clean else "", trace=tr,
                        case_extra={"rejected_operations_before": done, "system_given_as": how, "role": role})
            for form in ("in_base", "twice", "gbe", "inplace"):
                if form in tr:
                    res["traces"].append((lab + (form,), tr[form]))
            if live and out is not None:
                rec.count("mon:rejected-judged")
                if role == "target":
                    rec.count("mon:rejected-judged-target")
                if how == "registry-default":
                    rec.count("mon:rejected-default-handle")
    # names that only a rejected call ever used
    for g in hist["ghosts"]:
        res["traces"].append((("ghost", "name", g, "ghost", "none", "-", "registered"), (str(g in unit_system_registry), None)))
        for u in hist["ghost_units"]:
            for form in RJ.ROUTES:
                res["traces"].append((("ghost", "name", u, "ghost", "none", "-", form), _plain_one(ctx, g, u, vals, form)))
    for ref, e in systems.items():
        audit_units_map(e["ctx"], e["model"], e["obj"])
    res["done"] = done
    return res


def rejected_cases(unyt, rec, r, tag, idx, nhist, tier):
    import sys
    me = sys.modules[__name__]
    hists = [RJ.gen_history(r, me, f"{tag}_{h}", idx * nhist + h, tier, batch=idx) for h in range(nhist)]
    # the twin process: forked before this process has done anything; the same histories without the rejected operations
    twin = RJM.Twin(lambda hs: [_rj_run(unyt, core.Rec(), h, False) for h in hs], hists, limit=1300.0)
    real = []
    for h in hists:
        out = _rj_run(unyt, rec, h, True)
        real.append(out)
        if out["abort"]:
            break
    try:
        tw = twin.result()
    except RJM.ControlFailed as e:
        rec.count("control:rejected-twin-failed")
        rec.note("control:rejected-twin-failed:" + str(e).split(":")[0])
        return
    for h, a, b in zip(hists, real, tw):
        if a["abort"] or b["abort"]:
            rec.note("rejected-history-without-twin:" + str(a["abort"] or b["abort"]))
            break
        opclass = h["opclass"]
        if [l for l, _x in a["traces"]] != [l for l, _x in b["traces"]]:
            rec.note("harness:rejected-twin-ran-other-calls")
            rec.count("control:rejected-twin-failed")
            continue
        for (lab, x), (_l, y) in zip(a["traces"], b["traces"]):
            ref, how, u, role, scls, fam, form = lab
            rec.count("mon:rejected-twin")
            if role == "ghost":
                rec.count("mon:rejected-twin-ghost")
            (e1, v1), (e2, v2) = x, y
            what = None
            if e1 != e2:
                what = "outcome" if ((v1 is None) != (v2 is None) or names_exc(e1) or names_exc(e2)) else "unit"
            elif v1 is not None and v2 is not None and not close(np.asarray(v1), np.asarray(v2), 1e-13):
                what = "value"
            if what:
                rec.violation(f"C10:rejected:{opclass}:differs-from-twin-without-the-rejected-calls:{form.split(':')[0]}:{what}:{role}:{scls}",
                              f"after the rejected operations {a.get('done')}: ({u}) {form} with system {ref} given as {how} -> {v1} {e1}; in a twin process that ran the same history "
                              f"without the rejected calls -> {v2} {e2}", {"history": h, "unit": u, "form": form, "system": ref, "handle": how, "got": [e1, v1], "twin": [e2, v2]})
            else:
                rec.ok(("rejected-twin", opclass, role, how, form, scls, fam))
    rec.sample({"rejected_history": {"opclass": hists[0]["opclass"], "ops": hists[0]["ops"], "user": [u["base"] for u in hists[0]["user"]], "code": hists[0]["code"]}})


def names_exc(s):
    """is this answer string the name of an exception class rather than a unit expression?"""
    return isinstance(s, str) and s.isidentifier() and (s.endswith("Error") or s.endswith("Exception") or s in ("UnitsNotReducible", "MissingMKSCurrent", "IllDefinedUnitSystem"))


# ------------------------------------------------------------------ evidence
DECIDING = ("mon:in_base-calls", "mon:dim", "mon:inside", "mon:value", "mon:back", "mon:idem", "mon:gbe", "mon:inplace", "mon:alias",
            "mon:history", "mon:units_map", "mon:usable", "mon:user-construct", "mon:getitem", "mon:ctor-reject", "mon:ctor-accept",
            "mon:code-construct", "mon:default", "mon:lookup",
            "mon:redef-construct", "mon:redef-registered", "mon:redef-copy-keeps-registry", "mon:redef-judged", "mon:redef-copy", "mon:redef-em-after-warm",
            "mon:redef-stale-object", "mon:redef-registry-default", "mon:redef-twin", "mon:code-redefine", "mon:code-redefine-judged",
            "mon:regedit-construct", "mon:regedit-edit", "mon:regedit-getitem", "mon:regedit-old-quantity", "mon:regedit-judged", "mon:result-scale",
            "mon:regedit-first-call", "mon:regedit-default", "mon:regedit-twin", "mon:regedit-code-reregistered",
            "mon:override-construct", "mon:override-builtin", "mon:override-before", "mon:override-declare", "mon:override-redeclare",
            "mon:override-first-declaration-after-use", "mon:override-family:mechanical", "mon:override-family:thermal", "mon:override-family:em-si",
            "mon:override-family:em-gauss", "mon:override-probe", "mon:override-probe:mechanical", "mon:override-probe:thermal", "mon:override-probe:em-si",
            "mon:override-probe:em-gauss", "mon:override-probe-pairing-atom-first-declared", "mon:override-probe-pairing-atom-redeclared",
            "mon:override-bystander", "mon:override-default", "mon:override-first-call", "mon:override-first-call:in_base",
            "mon:override-first-call:convert_to_base", "mon:override-first-call:get_base_equivalent", "mon:override-getitem", "mon:override-twin",
            "mon:rejected-setup-construct", "mon:rejected-op:ctor", "mon:rejected-op:setitem", "mon:rejected-op:conversion",
            "mon:rejected-ctor-name:fresh", "mon:rejected-ctor-name:existing-user", "mon:rejected-ctor-name:builtin", "mon:rejected-ctor-name:code",
            "mon:rejected-registry-snapshot", "mon:rejected-first-call", "mon:rejected-judged", "mon:rejected-judged-target",
            "mon:rejected-default-handle", "mon:rejected-twin", "mon:rejected-twin-ghost")


def extra(tier, seed, results):
    counters = {}
    reached = set()
    for bid, r in results:
        for k, v in r.get("counters", {}).items():
            counters[k] = counters.get(k, 0) + v
        reached.update(r.get("reached", []))
    missing = [m for m in DECIDING if counters.get(m, 0) == 0]
    if missing:
        raise core.Inconclusive("sub-monitors-never-evaluated:" + ",".join(missing))
    dead = [s for s in BUILTINS if counters.get(f"returned:{s}", 0) == 0]
    if dead:
        raise core.Inconclusive("no-conversion-returned-in:" + ",".join(dead))
    cat = [f"{s}:{f}" for s in BUILTINS + ("user", "code") for f in FAMILIES]
    return {"monitor_calls": {k: v for k, v in sorted(counters.items()) if k.startswith("mon:")},
            "returned_vs_refused": {s: [counters.get(f"returned:{s}", 0), counters.get(f"refused:{s}", 0)] for s in BUILTINS + ("user", "code")},
            "unreached": [c for c in cat if c not in reached]}
