"""C05 - unit objects form a consistent multiplicative algebra."""
import math
from fractions import Fraction as Fr
import numpy as np
from vf import core
from vf.ref import defs, dims, names, uexpr
from .common import all_names, chunks, udim

RULE = ("laws as laws on real Unit objects: commutativity/inverse/identity/homomorphism exhaustively over ordered pairs of the 145 "
        "atomic symbols (+ prefixed and custom-registry units), associativity and power laws on random triples with exponents of "
        "denominator <= 12 given as int/Fraction/float/numpy scalar, equality semantics (equal iff scale, offset, dimension equal) "
        "over all same-dimension pairs, hash stability, simplify()/as_coeff_unit() denotation checked by re-evaluating the printed "
        "expression with an independent evaluator. distinct = (law, operand names) tuples with non-dimensionless operands")
ASSUMPTIONS = ("scale homomorphism is judged against products of the library's own atomic base values (read from Unit(sym).base_value)",)
MIN_EVALS = 5000
TIMEOUT = 900
OFFSET = {"degC", "degF", "lat", "lon"}
LOGS = {"B", "Np"}


def batches(tier, seed):
    syms = list(defs.T)
    b = [("pairs/%d" % i, ("pairs", c)) for i, c in enumerate(chunks(syms, 16))]
    b += [("equality/%d" % i, ("equality", (i, 8))) for i in range(8)]
    n = 16 if tier == "quick" else 64
    per = 700 if tier == "quick" else 5000
    b += [("triples/%d" % i, ("triples", (seed, i, per))) for i in range(n)]
    b += [("refusal", ("refusal", None)), ("hash", ("hash", seed))]
    return b


def lut_resolver(unyt, extra=None):
    cache = {}

    def res(tok):
        if extra and tok in extra:
            return extra[tok]
        if tok in cache:
            return cache[tok]
        r = names.resolve(tok)
        if r is None:
            return None
        f, s, _ = r
        out = (unyt.Unit(s).base_value * f, defs.T[s].dim)
        cache[tok] = out
        return out
    return res


def same(u, v, rel=1e-12):
    return udim(u) == udim(v) and abs(u.base_value - v.base_value) <= rel * max(abs(u.base_value), abs(v.base_value)) \
        and float(u.base_offset) == float(v.base_offset)


def law(rec, name, lhs, rhs, ops, require_eq=True):
    """lhs, rhs are thunks; both must agree (same unit) or both refuse"""
    try:
        a = lhs(); ea = None
    except Exception as e:
        a = None; ea = type(e).__name__
    try:
        b = rhs(); eb = None
    except Exception as e:
        b = None; eb = type(e).__name__
    if ea or eb:
        if bool(ea) != bool(eb):
            rec.violation(f"C05:{name}:one-side-refuses", f"{name} on {ops}: lhs {'raised ' + ea if ea else 'returned ' + repr(a)}, rhs {'raised ' + eb if eb else 'returned ' + repr(b)}", ops)
        else:
            rec.note(f"{name}:both-refuse")
        return None
    try:
        fa, fb = float(a.base_value), float(b.base_value)
        out_of_range = not (math.isfinite(fa) and math.isfinite(fb)) or fa == 0.0 or fb == 0.0 or max(abs(math.log10(abs(fa))), abs(math.log10(abs(fb)))) > 300
    except Exception:
        out_of_range = False
    if out_of_range:
        # the scale of one side left the float64 range (Ymol**(13/5) ... = inf): float arithmetic, not the algebra, decides
        rec.count("discarded:scale-outside-float-range")
        return None
    if not same(a, b):
        rec.violation(f"C05:{name}:scale-or-dimension", f"{name} on {ops}: lhs {a!r} (scale {a.base_value!r}, dim {dims.show(udim(a))}) rhs {b!r} (scale {b.base_value!r}, dim {dims.show(udim(b))})", ops)
        return None
    if require_eq and not (a == b and not (a != b)):
        rec.violation(f"C05:{name}:not-equal", f"{name} on {ops}: {a!r} == {b!r} is False although scale/offset/dimension agree", ops)
        return None
    rec.ok((name,) + tuple(ops))
    return a


def worker(batch, rec):
    import unyt
    from unyt import Unit
    bid, (kind, payload) = batch
    NULL = Unit()
    res = lut_resolver(unyt)
    if kind == "pairs":
        syms = [s for s in defs.T if s not in OFFSET and s not in LOGS]
        for s1 in payload:
            if s1 in OFFSET or s1 in LOGS:
                continue
            u = Unit(s1)
            law(rec, "identity-right", lambda: u * NULL, lambda: u, (s1,))
            law(rec, "identity-left", lambda: NULL * u, lambda: u, (s1,))
            law(rec, "inverse", lambda: u * u**-1, lambda: NULL, (s1,))
            law(rec, "self-division", lambda: u / u, lambda: NULL, (s1,))
            law(rec, "pow1", lambda: u**1, lambda: u, (s1,))
            law(rec, "pow0", lambda: u**0, lambda: NULL, (s1,))
            for s2 in syms:
                v = Unit(s2)
                p = law(rec, "commutative", lambda: u * v, lambda: v * u, (s1, s2))
                if p is not None:
                    exp = u.base_value * v.base_value
                    if abs(p.base_value - exp) > 4.5e-16 * abs(exp) or udim(p) != dims.mul(defs.T[s1].dim, defs.T[s2].dim):
                        rec.violation("C05:homomorphism:product", f"({s1}*{s2}).base_value={p.base_value!r} vs product of scales {exp!r}; dim {dims.show(udim(p))}", (s1, s2))
                law(rec, "mul-div-cancel", lambda: (u * v) / v, lambda: u, (s1, s2))
                q = law(rec, "div-as-inverse", lambda: u / v, lambda: u * v**-1, (s1, s2))
                if q is not None:
                    exp = u.base_value / v.base_value
                    if abs(q.base_value - exp) > 4.5e-16 * abs(exp) or udim(q) != dims.div(defs.T[s1].dim, defs.T[s2].dim):
                        rec.violation("C05:homomorphism:quotient", f"({s1}/{s2}).base_value={q.base_value!r} vs {exp!r}", (s1, s2))
        rec.sample({"law": "commutative/inverse/homomorphism", "first_symbol": payload[0], "partners": len(syms)})
    elif kind == "equality":
        i, n = payload
        nm = [x for x in all_names() if names.resolve(x) and "°" not in x and x not in ("", "_")]
        r = core.rng(0, "eq", i)
        bydim = {}
        for x in nm:
            f, s, _ = names.resolve(x)
            bydim.setdefault(defs.T[s].dim, []).append(x)
        # same dimension: equal iff same scale and offset
        for dv, lst in bydim.items():
            for a in lst[i::n]:
                ua = Unit(a)
                for b in (lst if len(lst) < 40 else r.sample(lst, 40)):
                    ub = Unit(b)
                    rel = abs(ua.base_value - ub.base_value) / max(abs(ua.base_value), abs(ub.base_value))
                    same_off = float(ua.base_offset) == float(ub.base_offset)
                    got = (ua == ub)
                    if (ua != ub) == got:
                        rec.violation("C05:equality:eq-ne-inconsistent", f"{a} vs {b}: == {got} and != {ua != ub}", (a, b)); continue
                    if rel <= 1e-12 and same_off:
                        if not got:
                            rec.violation("C05:equality:same-unit-unequal", f"{a} == {b} is False (same scale/offset/dimension)", (a, b)); continue
                        if hash(Unit(ua.expr)) != hash(ua):
                            rec.violation("C05:hash:same-expression", f"hash differs for re-built {a}", a); continue
                    elif rel >= 1e-6 or not same_off:
                        if got:
                            rec.violation("C05:equality:different-scale-equal", f"{a} == {b} is True although scales {ua.base_value!r} vs {ub.base_value!r} offsets {ua.base_offset} vs {ub.base_offset}", (a, b)); continue
                    else:
                        rec.note("equality-near-boundary-not-judged"); continue
                    rec.ok(("equality", a, b))
        # different dimension, same scale: must be unequal
        bysc = {}
        for x in nm[i::n]:
            bysc.setdefault(Unit(x).base_value, []).append(x)
        for sc, lst in bysc.items():
            for a in lst[:6]:
                for b in lst[:12]:
                    ua, ub = Unit(a), Unit(b)
                    if udim(ua) != udim(ub):
                        if ua == ub or not (ua != ub):
                            rec.violation("C05:equality:different-dimension-equal", f"{a} == {b} although dimensions differ", (a, b))
                        else:
                            rec.ok(("ineq-dim", a, b))
        # spellings of one unit
        for (a, b) in [("J", "N*m"), ("J", "kg*m**2/s**2"), ("N*m", "kg*m**2/s**2"), ("W", "J/s"), ("Pa", "N/m**2"), ("Hz", "1/s"),
                       ("V", "W/A"), ("erg", "g*cm**2/s**2"), ("dyn", "g*cm/s**2"), ("C", "A*s"), ("T", "Wb/m**2"), ("km/hr", "1000*m/(3600*s)"),
                       ("L", "dm**3"), ("ha", "hm**2"), ("mph", "mile/hr"), ("kt", "nmi/hr"), ("psi", "lbf/inch**2"), ("Ba", "dyn/cm**2")]:
            ua, ub = Unit(a), Unit(b)
            if not (ua == ub) or (ua != ub):
                rec.violation("C05:equality:spellings", f"{a} == {b} is False", (a, b))
            else:
                rec.ok(("spelling", a, b))
        rec.sample({"equality_batch": i, "dimension_classes": len(bydim)})
    elif kind == "triples":
        seed, i, n = payload
        r = core.rng(seed, "triples", i)
        nm = []
        for x in all_names():
            rr = names.resolve(x)
            if rr and "°" not in x and x not in ("", "_") and rr[1] not in OFFSET and rr[1] not in LOGS:
                nm.append(x)
        reg = unyt.UnitRegistry()
        reg.add("cu0", 2.5, unyt.dimensions.length, prefixable=True)
        reg.add("cu1", 4096.0, unyt.dimensions.time)
        extra = {"cu0": (2.5, dims.D("L")), "cu1": (4096.0, dims.D("T")), "kcu0": (2500.0, dims.D("L"))}
        resx = lut_resolver(unyt, extra)
        fr = [Fr(a, b) for b in (1, 2, 3, 4, 5, 6, 8, 12) for a in range(-3 * b, 3 * b + 1) if a != 0 and math.gcd(a, b) == 1 and abs(Fr(a, b)) <= 3]

        def pick(custom):
            if custom and r.random() < 0.4:
                return Unit(r.choice(list(extra)), registry=reg)
            k = r.random()
            if k < 0.6:
                return Unit(r.choice(nm), registry=reg if custom else None)
            a, b = r.choice(nm), r.choice(nm)
            u1, u2 = Unit(a, registry=reg if custom else None), Unit(b, registry=reg if custom else None)
            return u1 * u2 if r.random() < 0.5 else u1 / u2

        def form(p):
            k = r.randrange(5)
            if p.denominator == 1 and k < 2:
                return int(p)
            if k == 2:
                return float(p)
            if k == 3:
                return np.float64(float(p))
            if k == 4 and p.denominator == 1:
                return np.int64(int(p))
            return p

        for k in range(n):
            custom = (k % 4 == 3)
            u, v, w = pick(custom), pick(custom), pick(custom)
            ops = (str(u), str(v), str(w))
            law(rec, "associative-mul", lambda: (u * v) * w, lambda: u * (v * w), ops)
            law(rec, "associative-div", lambda: (u / v) / w, lambda: u / (v * w), ops)
            p, q = r.choice(fr), r.choice(fr)
            fp, fq = form(p), form(q)
            tag = (str(u), str(p), str(q))
            if abs(math.log10(abs(u.base_value)) * float(abs(p * q))) < 250 and abs(math.log10(abs(u.base_value)) * float(abs(p))) < 250:
                law(rec, "power-of-power", lambda: (u**fp)**fq, lambda: u ** form(p * q), tag)
                law(rec, "power-of-product", lambda: (u * v)**fp, lambda: u**fp * v**fp, (str(u), str(v), str(p)))
                # homomorphism for powers
                try:
                    up = u**fp
                    exp = abs(u.base_value) ** float(p)
                    if abs(up.base_value - exp) > 1e-12 * abs(exp) or udim(up) != dims.power(udim(u), p):
                        rec.violation("C05:homomorphism:power", f"({u})**{fp!r}: scale {up.base_value!r} vs {exp!r}, dim {dims.show(udim(up))}", tag)
                    else:
                        rec.ok(("pow-hom",) + tag[:2])
                except Exception as e:
                    rec.violation("C05:power:raises", f"({u})**{fp!r} raised {type(e).__name__}: {e}", tag)
            # simplify / as_coeff_unit denote the same unit
            t = (u * v / w) if r.random() < 0.5 else (u * v)

            def check_simplify(t, cls):
                """cls = structural class of the unit handed to simplify(): '' (product of table units), ':second-call' (the
                object simplify() already returned), ':coefficient-unit' (expression carries a numeric factor from the start)"""
                before = (t.base_value, udim(t), float(t.base_offset))
                try:
                    c, cu = t.as_coeff_unit()
                    if abs(c * cu.base_value - before[0]) > 1e-12 * abs(before[0]) or udim(cu) != before[1]:
                        rec.violation("C05:as_coeff_unit:denotation" + cls, f"{t!r}.as_coeff_unit() -> ({c!r}, {cu!r} scale {cu.base_value!r}); product != {before[0]!r}", str(t))
                    else:
                        rec.ok(("as_coeff_unit" + cls, str(t)))
                    fresh = Unit(t.expr, base_value=t.base_value, dimensions=t.dimensions, registry=t.registry) if cls else Unit(t.expr, registry=t.registry)
                    before = (fresh.base_value, udim(fresh), float(fresh.base_offset))
                    e0, d0 = uexpr.evaluate(str(fresh.expr), resx)
                    if d0 != before[1] or abs(e0 - before[0]) > 1e-9 * abs(before[0]):
                        rec.note("unit-expression-and-scale-disagree-before-simplify" + cls)
                        return None
                    s = fresh.simplify()
                    after = (s.base_value, udim(s), float(s.base_offset))
                    esc, edim = uexpr.evaluate(str(s.expr), resx)
                    if after != before:
                        rec.violation("C05:simplify:changed-value" + cls, f"simplify() of {t!r}: (scale, dim, offset) {before} -> {after}", str(t))
                    elif edim != before[1] or abs(esc - before[0]) > 1e-9 * abs(before[0]):
                        rec.violation("C05:simplify:expression-denotes-other-unit" + cls, f"simplify() of {t!r} prints {s.expr} which evaluates to scale {esc!r} dim {dims.show(edim)}; unit has {before[0]!r}", str(t))
                    else:
                        c2, cu2 = s.as_coeff_unit()
                        e2, d2 = uexpr.evaluate(str(cu2.expr), resx)
                        if abs(c2 * cu2.base_value - before[0]) > 1e-9 * abs(before[0]) or abs(e2 - cu2.base_value) > 1e-9 * abs(e2) or d2 != before[1]:
                            rec.violation("C05:as_coeff_unit:after-simplify" + cls, f"{s!r}.as_coeff_unit() -> ({c2!r}, {cu2!r}); unit scale {cu2.base_value!r} but its expression evaluates to {e2!r}", str(t))
                        else:
                            rec.ok(("simplify" + cls, str(t)))
                            rec.count("simplify-checked" + (cls or ":plain"))
                    if not cls and hash(s) != hash(Unit(s.expr, registry=s.registry)):
                        rec.violation("C05:hash:after-simplify", f"hash of simplified {s!r} differs from hash of a unit built from the same expression", str(t))
                    return s
                except uexpr.ParseError as e:
                    rec.note("simplify-printed-form-not-evaluable-by-reference")
                except Exception as e:
                    rec.violation("C05:simplify:raises" + cls, f"simplify/as_coeff_unit of {t!r} raised {type(e).__name__}: {e}", str(t))
                return None

            s1 = check_simplify(t, "")
            if s1 is not None:
                check_simplify(s1, ":second-call")                 # simplify() mutates and returns self: calling it again is a history
                if k % 3 == 0:
                    check_simplify(s1 * pick(custom), ":product-of-simplified")
            if k % 2 == 0:
                # units whose expression carries a numeric factor from the start: from a string, from a quantity, by arithmetic
                coef = r.choice([2, 100, 1000, 2.5, 0.25, 3600, 12])
                base = u if abs(math.log10(abs(u.base_value))) < 100 else v
                try:
                    route = k % 6
                    if route == 0:
                        cu_ = Unit(f"{coef}*({base.expr})", registry=base.registry)
                    elif route == 2:
                        cu_ = Unit(unyt.unyt_quantity(coef, base), registry=base.registry)
                    else:
                        cu_ = Unit(f"{coef}*({base.expr})", registry=base.registry) * v
                except Exception as e:
                    rec.note(f"coefficient-unit-not-constructible:{type(e).__name__}")
                    cu_ = None
                if cu_ is not None:
                    check_simplify(cu_, ":coefficient-unit")
            if k < 2:
                rec.sample({"u": str(u), "v": str(v), "w": str(w), "p": str(p), "q": str(q)})
    elif kind == "refusal":
        others = ["m", "s", "kg", "K", "rad", "degree", "J", "km", "delta_degC"]
        for o in ["degC", "degF", "mdegC", "kdegC", "lat", "lon"]:
            uo = Unit(o)
            law(rec, "identity-right-offset", lambda: uo * NULL, lambda: uo, (o,))
            law(rec, "identity-left-offset", lambda: NULL * uo, lambda: uo, (o,))
            law(rec, "identity-div-offset", lambda: uo / NULL, lambda: uo, (o,))
            for v in others:
                uv = Unit(v)
                law(rec, "commutative-refusal", lambda: uo * uv, lambda: uv * uo, (o, v))
        for o in ["B", "Np", "dB", "mNp"]:
            uo = Unit(o)
            law(rec, "identity-right-log", lambda: uo * NULL, lambda: uo, (o,))
            law(rec, "identity-left-log", lambda: NULL * uo, lambda: uo, (o,))
            for v in others:
                uv = Unit(v)
                law(rec, "commutative-refusal-log", lambda: uo * uv, lambda: uv * uo, (o, v))
        rec.sample({"refusal": "offset/log units x others, both operand orders"})
    elif kind == "hash":
        r = core.rng(payload, "hash")
        nm = [x for x in all_names() if names.resolve(x) and "°" not in x and x not in ("", "_") and names.resolve(x)[1] not in OFFSET | LOGS]
        for k in range(1500):
            a, b = r.choice(nm), r.choice(nm)
            u1 = Unit(a) * Unit(b)
            h0 = hash(u1)                      # hash first (a dict key), then mutate through simplify()
            u2 = Unit(a) * Unit(b)
            if h0 != hash(u2) or hash(Unit(f"({a})*({b})")) != hash(Unit(f"({a})*({b})")):
                rec.violation("C05:hash:same-expression", f"two units built as {a}*{b} hash differently", (a, b)); continue
            u1.simplify()
            twin = Unit(u1.expr)
            if hash(u1) != hash(twin):
                rec.violation("C05:hash:after-simplify", f"{a}*{b}: hashed, then simplify() -> {u1!r}; hash {hash(u1)} != hash of Unit({u1.expr}) {hash(twin)}", (a, b)); continue
            d = {u1: 1}
            if twin not in d and u1.expr == twin.expr:
                rec.violation("C05:hash:dict-lookup", f"dict lookup with an identical-expression twin of {u1!r} misses", (a, b)); continue
            rec.ok(("hash", a, b))
        rec.sample({"hash_cases": 1500})
