"""C05 - unit objects form a consistent multiplicative algebra."""
import math
from fractions import Fraction as Fr
import numpy as np
from vf import core
from vf.ref import defs, dims, names, uexpr
from vf.gen import c05_history as hist
from vf.gen import c05_expspell as espell
from vf.monitors import c05_expspell as espell_mon
from .common import all_names, chunks, udim

RULE = ("laws as laws on real Unit objects: commutativity/inverse/identity/homomorphism exhaustively over ordered pairs of the 145 "
        "atomic symbols (+ prefixed and custom-registry units), associativity and power laws on random triples with exponents of "
        "denominator <= 12 given as int/Fraction/float/numpy scalar, equality semantics (equal iff scale, offset, dimension equal) "
        "over all same-dimension pairs, hash stability, simplify()/as_coeff_unit() denotation checked by re-evaluating the printed "
        "expression with an independent evaluator. History part: random custom-registry histories (units built by string / composition / "
        "expression / explicit base_value / copy / deepcopy, interleaved with modify-float, modify-quantity, add, remove+re-add, "
        "overwriting add, no-op modify, remove) keep every unit object alive; one evaluation is one law (power laws, inverse, identity, "
        "commutativity, cancellation, associativity, power-of-product, equality, simplify/as_coeff_unit, hash of a rebuilt twin, and the "
        "array unit rules multiply/divide/power/sqrt) on a tuple of live units, every side judged against the scale the operand "
        "objects were built with (independent replay of the table), with the operands checked unchanged afterwards; orders of first "
        "use: old-first, new-first, law-major (both directions), shuffled, a second shuffled pass, and optionally a use phase before "
        "the edits. distinct = (law, operand names) tuples with non-dimensionless operands; history cells = (law, operand kinds "
        "stale/fresh/explicit/copy/old-same-scale [+twin], order, warm|final). Exponent-spelling part (vf/gen/c05_expspell.py, "
        "vf/monitors/c05_expspell.py): every small-denominator rational a/b (|a/b| <= 4; integer, dyadic, terminating-decimal and non-terminating "
        "values) is handed to Unit.__pow__ in 29 spellings built from a and b alone (int, float, Fraction, Decimal, three string forms, NumPy float16/32/64/"
        "longdouble and int8..uint64 scalars, 0-d arrays, sympy Rational/Integer/Float, mpmath, a dimensionless quantity) on atomic, prefixed, compound, "
        "custom-registry and seeded random units; one evaluation is one law (u**p denotes (scale**r, dimension*r) of the reference model with rational "
        "exponents and equals u**Fraction; (u**p)**q == u**(p*q); u**p * u**-p == 1; (u*v)**p == u**p * v**p; u**p * u**(n-p) == u**n; the unit "
        "of (k*u)**p / np.power(k*u, p) / array ** p / np.power(array, [p, p]) is that same unit) and, for bare multipliers, u*k, k*u, u/k, k/u "
        "against k*scale; cells = (law, spelling, value class with denominator class, unit class, sign)")
ASSUMPTIONS = ("scale homomorphism is judged against products of the library's own atomic base values (read from Unit(sym).base_value)",
               "a Unit object denotes the scale it carries: a unit built before registry.modify()/add()/remove() keeps the scale it was built with, and the laws "
               "are judged on that scale, not on what its expression would mean in the current registry state (so for such units simplify()/as_coeff_unit() are "
               "judged on scale, offset and dimension only; the printed form is re-evaluated only for units built in the current state)",
               "two live units with the same expression and different scales must compare unequal (equality is decided by scale, offset, dimension); their hashes "
               "are not judged against each other (the property speaks of the same registry state); hash equality is judged between a unit built in the current "
               "state and twins rebuilt from its string and from its expression",
               "a unit mentioning a symbol that has since been removed from the registry: Unit-level laws are judged as for any other unit; simplify() and the array "
               "multiply/divide rules (which simplify, i.e. must look every symbol up) may refuse with SymbolNotFoundError - noted, not judged",
               "array unit rules (memoised on Unit hash/equality, an anchor of the property) are judged by value * unit scale and dimension of the result only",
               "a refusal (exception) of a Unit-level law on ordinary multiplicative custom-registry units is a violation in the history part, even if both sides refuse",
               "exponent spellings: a spelling of a/b in any numeric type denotes the rational a/b (the library's own rule is to take a float for the nearby simple "
               "fraction); narrow floats (float16, float32) are judged by the same rule and not exempted - where their rounding error defeats the library's snapping "
               "the keys are listed as findings. A spelling that a door refuses is judged against a control (same door and spelling at the dyadic value 1/2, or 2 for "
               "integer-only types, on the metre): refused there too = consistent refusal, counted and not judged; accepted there = the refusal is a violation",
               "exponent spellings through array doors are judged on the unit of the result only (the numbers are C06's subject); bare multipliers are judged on "
               "value * unit scale against the number the spelling actually holds (tolerance 8 eps of the spelling's float type)")
MIN_EVALS = 5000
TIMEOUT = 900
OFFSET = {"degC", "degF", "lat", "lon"}
LOGS = {"B", "Np"}


def batches(tier, seed):
    syms = list(defs.T)
    b = [("pairs/%d" % i, ("pairs", c)) for i, c in enumerate(chunks(syms, 16))]
    b += [("equality/%d" % i, ("equality", (i, 8))) for i in range(8)]
    n = 16 if tier == "quick" else 64
    per = 700 if tier == "quick" else 5000
    b += [("triples/%d" % i, ("triples", (seed, i, per))) for i in range(n)]
    b += [("refusal", ("refusal", None)), ("hash", ("hash", seed))]
    nh, perh = (8, 6) if tier == "quick" else (32, 10)
    b += [("history/%d" % i, ("history", (seed, i, perh, tier))) for i in range(nh)]
    b += [(bid, ("expspell", pl)) for bid, pl in espell.batches(tier, seed)]
    return b


def lut_resolver(unyt, extra=None):
    cache = {}

    def res(tok):
        if extra and tok in extra:
            return extra[tok]
        if tok in cache:
            return cache[tok]
        r = names.resolve(tok)
        if r is None:
            return None
        f, s, _ = r
        out = (unyt.Unit(s).base_value * f, defs.T[s].dim)
        cache[tok] = out
        return out
    return res


def same(u, v, rel=1e-12):
    return udim(u) == udim(v) and abs(u.base_value - v.base_value) <= rel * max(abs(u.base_value), abs(v.base_value)) \
        and float(u.base_offset) == float(v.base_offset)


def law(rec, name, lhs, rhs, ops, require_eq=True):
    """lhs, rhs are thunks; both must agree (same unit) or both refuse"""
    try:
        a = lhs(); ea = None
    except Exception as e:
        a = None; ea = type(e).__name__
    try:
        b = rhs(); eb = None
    except Exception as e:
        b = None; eb = type(e).__name__
    if ea or eb:
        if bool(ea) != bool(eb):
            rec.violation(f"C05:{name}:one-side-refuses", f"{name} on {ops}: lhs {'raised ' + ea if ea else 'returned ' + repr(a)}, rhs {'raised ' + eb if eb else 'returned ' + repr(b)}", ops)
        else:
            rec.note(f"{name}:both-refuse")
        return None
    try:
        fa, fb = float(a.base_value), float(b.base_value)
        out_of_range = not (math.isfinite(fa) and math.isfinite(fb)) or fa == 0.0 or fb == 0.0 or max(abs(math.log10(abs(fa))), abs(math.log10(abs(fb)))) > 300
    except Exception:
        out_of_range = False
    if out_of_range:
        # the scale of one side left the float64 range (Ymol**(13/5) ... = inf): float arithmetic, not the algebra, decides
        rec.count("discarded:scale-outside-float-range")
        return None
    if not same(a, b):
        rec.violation(f"C05:{name}:scale-or-dimension", f"{name} on {ops}: lhs {a!r} (scale {a.base_value!r}, dim {dims.show(udim(a))}) rhs {b!r} (scale {b.base_value!r}, dim {dims.show(udim(b))})", ops)
        return None
    if require_eq and not (a == b and not (a != b)):
        rec.violation(f"C05:{name}:not-equal", f"{name} on {ops}: {a!r} == {b!r} is False although scale/offset/dimension agree", ops)
        return None
    rec.ok((name,) + tuple(ops))
    return a


HIST_UNARY = ("pow-hom", "square", "inverse", "self-division", "sqrt-of-square", "pow0", "pow1", "identity", "power-of-power",
              "simplify", "hash-rebuilt", "array-power", "array-sqrt")
HIST_BINARY = ("commutative", "mul-div-cancel", "div-as-inverse", "power-of-product", "equality", "array-multiply", "array-divide")
HIST_TERNARY = ("associative-mul", "associative-div")
HIST_KINDS = ("stale", "fresh", "explicit", "copy", "default-registry", "default-registry-explicit")


def history_worker(rec, unyt, res, payload):
    """Unit objects that outlive registry edits: every law on stale / fresh / explicit-base-value / copied units of ONE registry
    object, in both orders of first use.  The reference scale of a unit is fixed when it is built (independent table model
    replayed alongside the edits); the operands themselves must come out of every evaluation unchanged."""
    import copy as _copy
    import functools
    import operator
    import sympy
    from unyt import Unit, dimensions as ud
    seed, bi, n, tier = payload
    r = core.rng(seed, "history", bi)
    sbase = (ud.mass, ud.length, ud.time, ud.temperature, ud.angle, ud.current_mks, ud.luminous_intensity, ud.logarithmic)

    def sdim(dv):
        e = sympy.S.One
        for b, x in zip(sbase, dv):
            if x:
                e = e * b ** sympy.Rational(x.numerator, x.denominator)
        return e

    def builtin(tok):
        return res(tok)

    def form(p, arrays=False):
        k = r.randrange(5)
        if p.denominator == 1 and k < 2:
            return int(p)
        if k == 2 or (arrays and p.denominator != 1):
            return float(p)
        if k == 3:
            return np.float64(float(p))
        if k == 4 and p.denominator == 1 and not arrays:
            return np.int64(int(p))
        return float(p) if arrays else p

    def relclose(a, b, rel=1e-12):
        return abs(a - b) <= rel * max(abs(a), abs(b))

    def P(s, p):
        try:
            return s ** float(p)
        except OverflowError:
            return math.inf

    def in_range(*xs):
        for x in xs:
            if not (x > 0 and math.isfinite(x)) or abs(math.log10(x)) > 250:
                return False
        return True

    for k in range(n):
        gk = bi * n + k
        pl = hist.plan(r, gk, tier)
        exps = [Fr(x) for x in pl["exponents"]]
        pq = [(exps[0], exps[2]), (exps[2], exps[3]), (exps[4], exps[1])]
        reg = unyt.UnitRegistry()
        model = hist.Model()
        for sym, (spec, val, pf) in pl["symbols"].items():
            reg.add(sym, val, sdim(dims.D(spec)), prefixable=pf)
            model.add(sym, spec, val, pf)
        U = {}
        phase = 0
        rec.count("history:scenarios")
        if pl["warm"]:
            rec.count("history:scenarios-used-before-edit")
        if k < 1:
            rec.sample({"history_plan": pl})

        def kind(uid):
            d = U[uid]
            if d["route"] == "explicit-default" or (d["home"] == "default" and d["route"] in ("copy", "deepcopy")):
                return "default-registry-explicit"
            if d["route"] == "string-default":
                return "default-registry"
            if d["route"] == "explicit":
                return "explicit"
            if d["route"] in ("copy", "deepcopy"):
                return "copy"
            if d["gen"] == model.gen:
                return "fresh"
            cur = model.scale(d["factors"], builtin)
            if cur is not None and relclose(cur[0], d["ref"][0]):
                return "old-same-scale"
            return "stale"

        def orphan(uid):
            return any(model.token(tok, builtin) is None for tok, _ in U[uid]["factors"])

        def intact(uids, lawname):
            for uid in uids:
                d = U[uid]; u = d["u"]
                now = (u.base_value, udim(u), str(u.expr), float(u.base_offset), id(u.registry))
                if now != d["snap"]:
                    rec.violation(f"C05:history:operand-changed:{lawname}:{kind(uid)}",
                                  f"unit object {d['snap'][2]!r} built by route {d['route']} had (scale, dim, expr, offset, registry) {d['snap']} and after "
                                  f"evaluating law {lawname} it has {now}", {"plan": pl, "uid": uid})
                    d["snap"] = now

        def judge(lawname, uids, thunks, expected, require_eq=True, extra_tag=""):
            """thunks: callables giving Unit results that must all denote `expected` = (scale, dimvec) and compare equal"""
            kinds = "-".join(kind(x) for x in uids)
            if len(uids) > 1 and U[uids[0]]["factors"] == U[uids[1]]["factors"]:
                kinds += "+twin"
            ops = tuple(f"{U[x]['snap'][2]}@{U[x]['ref'][0]!r}" for x in uids)
            rec.count("history:laws")
            for x in uids:
                kk = kind(x)
                rec.count("history:evals-on-" + kk)
            if any(U[x]["has_twin"] for x in uids):
                rec.count("history:evals-on-unit-with-other-scale-twin")
            out = []
            raised = []
            for t in thunks:
                try:
                    out.append(t()); raised.append(None)
                except Exception as e:
                    out.append(None); raised.append(f"{type(e).__name__}: {e}")
            case = {"law": lawname, "operands": ops, "kinds": kinds, "order": cur_order, "phase": phase, "extra": extra_tag, "plan": pl}
            if any(raised):
                fk = "raises" if all(raised) else "one-side-refuses"
                rec.violation(f"C05:history:{lawname}:{fk}:{kinds}", f"{lawname} on {ops} ({kinds}) {extra_tag}: sides gave {[x or 'returned' for x in raised]} on ordinary multiplicative units", case)
                intact(uids, lawname)
                return None
            es, ed = expected
            for j, a in enumerate(out):
                sc = float(a.base_value)
                if udim(a) != ed:
                    rec.violation(f"C05:history:{lawname}:dimension:{kinds}", f"{lawname} on {ops} ({kinds}) {extra_tag}: side {j} is {a!r} with dimension {dims.show(udim(a))}, expected {dims.show(ed)}", case)
                    intact(uids, lawname)
                    return None
                if not relclose(sc, es) or float(a.base_offset) != 0.0:
                    rec.violation(f"C05:history:{lawname}:scale:{kinds}", f"{lawname} on {ops} ({kinds}) {extra_tag}: side {j} is {a!r} with scale {sc!r} offset {a.base_offset!r}; the operands' own scales give {es!r}", case)
                    intact(uids, lawname)
                    return None
            if require_eq:
                for a in out[1:]:
                    if not (out[0] == a) or (out[0] != a):
                        rec.violation(f"C05:history:{lawname}:not-equal:{kinds}", f"{lawname} on {ops} ({kinds}) {extra_tag}: {out[0]!r} == {a!r} is False although scale and dimension agree", case)
                        intact(uids, lawname)
                        return None
            intact(uids, lawname)
            rec.ok(("hist", lawname, kinds, cur_order, "warm" if phase_is_warm else "final"))
            return out[0]

        def judge_q(lawname, uids, thunk, expected, extra_tag=""):
            """a quantity result: value * unit scale and dimension (the array unit rules are memoised on Unit hash/equality)"""
            kinds = "-".join(kind(x) for x in uids)
            if len(uids) > 1 and U[uids[0]]["factors"] == U[uids[1]]["factors"]:
                kinds += "+twin"
            ops = tuple(f"{U[x]['snap'][2]}@{U[x]['ref'][0]!r}" for x in uids)
            rec.count("history:array-rule-evals")
            case = {"law": lawname, "operands": ops, "kinds": kinds, "order": cur_order, "phase": phase, "extra": extra_tag, "plan": pl}
            try:
                q = thunk()
            except Exception as e:
                if type(e).__name__ == "SymbolNotFoundError" and any(orphan(x) for x in uids):
                    # the array rule simplifies the product, which has to look every symbol up; the registry no longer knows one
                    rec.note("history:array-rule-on-unit-with-removed-symbol-refused-not-judged")
                else:
                    rec.violation(f"C05:history:{lawname}:raises:{kinds}", f"{lawname} on {ops} ({kinds}) {extra_tag} raised {type(e).__name__}: {e}", case)
                intact(uids, lawname)
                return
            un = getattr(q, "units", None)
            val = float(np.asarray(q).ravel()[0])
            sc = val * (float(un.base_value) if un is not None else 1.0)
            dv = udim(un) if un is not None else dims.ZERO
            es, ed = expected
            if dv != ed:
                rec.violation(f"C05:history:{lawname}:dimension:{kinds}", f"{lawname} on {ops} ({kinds}) {extra_tag}: result {q!r} has dimension {dims.show(dv)}, expected {dims.show(ed)}", case)
            elif not relclose(sc, es, 1e-11):
                rec.violation(f"C05:history:{lawname}:scale:{kinds}", f"{lawname} on {ops} ({kinds}) {extra_tag}: result {q!r} (unit scale {un.base_value if un is not None else None!r}) is {sc!r} in base units; the operands' own scales give {es!r}", case)
            else:
                rec.ok(("hist", lawname, kinds, cur_order, "warm" if phase_is_warm else "final"))
            intact(uids, lawname)

        def run_entry(e):
            lawname, uids, par = e
            u = U[uids[0]]["u"]; su, du = U[uids[0]]["ref"]
            NULL = Unit(registry=u.registry)
            if len(uids) > 1:
                v = U[uids[1]]["u"]; sv, dv = U[uids[1]]["ref"]
            if len(uids) > 2:
                w = U[uids[2]]["u"]; sw, dw = U[uids[2]]["ref"]
            if lawname == "pow-hom":
                p = par
                if not in_range(P(su, p)):
                    rec.count("discarded:scale-outside-float-range"); return
                fp = form(p)
                judge(lawname, uids, [lambda: u ** fp], (P(su, p), dims.power(du, p)), extra_tag=f"p={fp!r}")
            elif lawname == "square":
                if not in_range(su * su):
                    rec.count("discarded:scale-outside-float-range"); return
                f2 = form(Fr(2))
                judge(lawname, uids, [lambda: u ** f2, lambda: u * u], (su * su, dims.power(du, 2)))
            elif lawname == "inverse":
                fm = form(Fr(-1))
                judge(lawname, uids, [lambda: u * u ** fm, lambda: NULL], (1.0, dims.ZERO))
            elif lawname == "self-division":
                judge(lawname, uids, [lambda: u / u, lambda: NULL], (1.0, dims.ZERO))
            elif lawname == "sqrt-of-square":
                if not in_range(su * su):
                    rec.count("discarded:scale-outside-float-range"); return
                fh = r.choice([0.5, Fr(1, 2), np.float64(0.5)])
                judge(lawname, uids, [lambda: (u * u) ** fh, lambda: u], (su, du))
            elif lawname == "pow0":
                f0 = r.choice([0, 0.0, Fr(0)])
                judge(lawname, uids, [lambda: u ** f0, lambda: NULL], (1.0, dims.ZERO))
            elif lawname == "pow1":
                f1 = form(Fr(1))
                judge(lawname, uids, [lambda: u ** f1, lambda: u], (su, du))
            elif lawname == "identity":
                judge(lawname, uids, [lambda: u * NULL, lambda: NULL * u, lambda: u / NULL, lambda: u], (su, du))
            elif lawname == "power-of-power":
                p, q = par
                if not in_range(P(su, p), P(su, p * q)):
                    rec.count("discarded:scale-outside-float-range"); return
                fp, fq, fpq = form(p), form(q), form(p * q)
                judge(lawname, uids, [lambda: (u ** fp) ** fq, lambda: u ** fpq], (P(su, p * q), dims.power(du, p * q)), extra_tag=f"p={fp!r} q={fq!r}")
            elif lawname == "simplify":
                d = U[uids[0]]
                if orphan(uids[0]):
                    rec.note("history:simplify-of-unit-with-removed-symbol-not-judged"); return
                kd = kind(uids[0])

                def coeff_unit(t):
                    c, cu = t.as_coeff_unit()
                    return Unit(cu.expr, base_value=c * cu.base_value, dimensions=cu.dimensions, registry=cu.registry)
                t = Unit(u.expr, base_value=u.base_value, dimensions=u.dimensions, registry=u.registry)
                got = judge(lawname, uids, [lambda: coeff_unit(t), lambda: t.simplify(), lambda: coeff_unit(t), lambda: t], (su, du), require_eq=False)
                if got is not None and kd == "fresh":
                    # built in the current registry state: the printed form has to denote the same unit under the current table
                    try:
                        esc, edim = uexpr.evaluate(str(t.expr), lambda tok: model.token(tok, builtin))
                        if edim != du or not relclose(esc, su, 1e-9):
                            rec.violation(f"C05:history:simplify:expression-denotes-other-unit:{kd}", f"simplify() of {u!r} (scale {su!r}) prints {t.expr} which evaluates to {esc!r} {dims.show(edim)} in the current registry state", {"plan": pl, "uid": uids[0]})
                        else:
                            rec.ok(("hist", "simplify-expression", kd)); rec.count("history:simplify-expression-checked")
                    except uexpr.ParseError:
                        rec.note("simplify-printed-form-not-evaluable-by-reference")
            elif lawname == "hash-rebuilt":
                d = U[uids[0]]
                if d["gen"] != model.gen or d["route"] not in ("string", "compose", "expr") or d["home"] != "custom":
                    return
                rec.count("history:hash-evals")
                try:
                    h = (hash(u), hash(Unit(hist.spell(d["factors"]), registry=reg)), hash(Unit(u.expr, registry=reg)), hash(u))
                except Exception as e:
                    rec.violation(f"C05:history:hash-rebuilt:raises:{d['route']}", f"hash of {u!r} / a rebuilt twin raised {type(e).__name__}: {e}", {"plan": pl}); return
                if len(set(h)) != 1:
                    rec.violation(f"C05:history:hash-rebuilt:differs:{d['route']}", f"{u!r} built by {d['route']} in the current registry state: hashes of it / of Unit(string) / of Unit(expr) / of it again: {h}", {"plan": pl, "uid": uids[0]})
                else:
                    rec.ok(("hist", "hash-rebuilt", d["route"]))
                intact(uids, lawname)
            elif lawname == "array-power":
                p = par
                if not in_range(P(su, p)):
                    rec.count("discarded:scale-outside-float-range"); return
                fp = form(p, arrays=True)
                judge_q(lawname, uids, lambda: unyt.unyt_quantity(2.0, u) ** fp, (P(2.0 * su, p), dims.power(du, p)), extra_tag=f"p={fp!r}")
            elif lawname == "array-sqrt":
                if not in_range(su ** 0.5):
                    rec.count("discarded:scale-outside-float-range"); return
                judge_q(lawname, uids, lambda: np.sqrt(unyt.unyt_array([4.0, 9.0], u)), (2.0 * su ** 0.5, dims.power(du, Fr(1, 2))))
            elif lawname == "commutative":
                if not in_range(su * sv):
                    rec.count("discarded:scale-outside-float-range"); return
                judge(lawname, uids, [lambda: u * v, lambda: v * u], (su * sv, dims.mul(du, dv)))
            elif lawname == "mul-div-cancel":
                if not in_range(su * sv):
                    rec.count("discarded:scale-outside-float-range"); return
                judge(lawname, uids, [lambda: (u * v) / v, lambda: u], (su, du))
            elif lawname == "div-as-inverse":
                if not in_range(su / sv):
                    rec.count("discarded:scale-outside-float-range"); return
                fm = form(Fr(-1))
                judge(lawname, uids, [lambda: u / v, lambda: u * v ** fm], (su / sv, dims.div(du, dv)))
            elif lawname == "power-of-product":
                p = par
                if not in_range(su * sv, P(su, p), P(sv, p), P(su * sv, p)):
                    rec.count("discarded:scale-outside-float-range"); return
                fp = form(p)
                judge(lawname, uids, [lambda: (u * v) ** fp, lambda: u ** fp * v ** fp], (P(su * sv, p), dims.power(dims.mul(du, dv), p)), extra_tag=f"p={fp!r}")
            elif lawname == "equality":
                kinds = kind(uids[0]) + "-" + kind(uids[1]) + ("+twin" if U[uids[0]]["factors"] == U[uids[1]]["factors"] else "")
                rec.count("history:equality-evals")
                eq, ne, self_eq = (u == v), (u != v), (u == u and not (u != u))
                rel = abs(su - sv) / max(su, sv)
                case = {"operands": (str(u), su, str(v), sv), "kinds": kinds, "plan": pl}
                if eq == ne or not self_eq:
                    rec.violation(f"C05:history:equality:eq-ne-inconsistent:{kinds}", f"{u!r}@{su!r} vs {v!r}@{sv!r}: == {eq}, != {ne}, self-equal {self_eq}", case)
                elif du == dv and rel <= 1e-12:
                    if not eq:
                        rec.violation(f"C05:history:equality:same-unit-unequal:{kinds}", f"{u!r} == {v!r} is False although both have scale {su!r} and the same dimension", case)
                    else:
                        rec.ok(("hist", "equality-equal", kinds))
                elif du != dv or rel >= 1e-6:
                    if eq:
                        rec.violation(f"C05:history:equality:different-unit-equal:{kinds}", f"{u!r} (scale {su!r}, {dims.show(du)}) == {v!r} (scale {sv!r}, {dims.show(dv)}) is True", case)
                    else:
                        rec.ok(("hist", "equality-unequal", kinds))
                else:
                    rec.note("equality-near-boundary-not-judged")
                intact(uids, lawname)
            elif lawname == "array-multiply":
                if not in_range(su * sv):
                    rec.count("discarded:scale-outside-float-range"); return
                judge_q(lawname, uids, lambda: unyt.unyt_quantity(2.0, u) * unyt.unyt_quantity(3.0, v), (6.0 * su * sv, dims.mul(du, dv)))
                judge_q(lawname, uids, lambda: unyt.unyt_array([3.0, 1.0], v) * unyt.unyt_array([2.0, 5.0], u), (6.0 * su * sv, dims.mul(du, dv)), extra_tag="reversed")
            elif lawname == "array-divide":
                if not in_range(su / sv):
                    rec.count("discarded:scale-outside-float-range"); return
                judge_q(lawname, uids, lambda: unyt.unyt_quantity(3.0, u) / unyt.unyt_quantity(2.0, v), (1.5 * su / sv, dims.div(du, dv)))
            elif lawname == "associative-mul":
                if not in_range(su * sv, sv * sw, su * sv * sw):
                    rec.count("discarded:scale-outside-float-range"); return
                judge(lawname, uids, [lambda: (u * v) * w, lambda: u * (v * w)], (su * sv * sw, dims.mul(dims.mul(du, dv), dw)))
            elif lawname == "associative-div":
                if not in_range(su / sv, sv * sw, su / sv / sw):
                    rec.count("discarded:scale-outside-float-range"); return
                judge(lawname, uids, [lambda: (u / v) / w, lambda: u / (v * w)], (su / sv / sw, dims.div(dims.div(du, dv), dw)))

        cur_order = "-"
        phase_is_warm = False
        nsteps = len(pl["steps"])
        for si, st in enumerate(pl["steps"]):
            if st[0] == "build":
                _, uid, factors, route, arg = st
                factors = [tuple(f) for f in factors]
                cur = model.scale(factors, builtin)
                try:
                    if route == "string":
                        u = Unit(hist.spell(factors), registry=reg); ref = cur
                    elif route == "compose":
                        parts = []
                        for tok, e in factors:
                            e = Fr(e)
                            a = Unit(tok, registry=reg)
                            parts.append(a if e == 1 else a ** (int(e) if e.denominator == 1 else e))
                        u = functools.reduce(operator.mul, parts); ref = cur
                    elif route == "expr":
                        u = Unit(U[arg]["u"].expr, registry=reg); ref = cur
                    elif route == "explicit":
                        ref = (cur[0] * arg, cur[1])
                        u = Unit(hist.spell(factors), base_value=ref[0], dimensions=sdim(ref[1]), registry=reg)
                    elif route == "string-default":
                        u = Unit(hist.spell(factors)); ref = cur
                    elif route == "explicit-default":
                        ref = (cur[0] * arg, cur[1])
                        u = Unit(hist.spell(factors), base_value=ref[0], dimensions=sdim(ref[1]))
                    elif route == "copy":
                        u = U[arg]["u"].copy(); ref = U[arg]["ref"]
                    else:
                        u = _copy.deepcopy(U[arg]["u"]); ref = U[arg]["ref"]
                except KeyError:
                    continue                                  # source unit was not constructible
                except Exception as e:
                    rec.violation(f"C05:history:build:raises:{route}", f"building {hist.spell(factors)!r} by route {route} raised {type(e).__name__}: {e}", {"plan": pl, "uid": uid})
                    continue
                rec.count("history:built:" + route)
                if ref is None or not in_range(ref[0]):
                    rec.count("discarded:scale-outside-float-range"); continue
                if udim(u) != ref[1] or not relclose(float(u.base_value), ref[0]) or float(u.base_offset) != 0.0:
                    rec.violation(f"C05:history:build:{'scale' if udim(u) == ref[1] else 'dimension'}:{route}",
                                  f"{hist.spell(factors)!r} built by route {route} after {model.gen} edits carries scale {u.base_value!r} dim {dims.show(udim(u))}; the table at that moment gives {ref[0]!r} {dims.show(ref[1])}", {"plan": pl, "uid": uid})
                    ref = (float(u.base_value), udim(u))
                else:
                    rec.ok(("hist", "build", route))
                home = "default" if route.endswith("-default") else (U[arg]["home"] if route in ("copy", "deepcopy") else "custom")
                U[uid] = {"u": u, "ref": ref, "factors": factors, "route": route, "gen": model.gen, "has_twin": False, "home": home,
                          "snap": (u.base_value, udim(u), str(u.expr), float(u.base_offset), id(u.registry))}
                for o, d in U.items():
                    if o != uid and d["home"] == home and d["factors"] == factors and not relclose(d["ref"][0], ref[0], 1e-6):
                        d["has_twin"] = True; U[uid]["has_twin"] = True
            elif st[0] == "edit":
                _, op, sym, arg = st
                rec.count("history:edit:" + op)
                if op in ("modify-float",):
                    reg.modify(sym, arg)
                elif op == "modify-quantity":
                    reg.modify(sym, unyt.unyt_quantity(arg[0], arg[1], registry=reg))
                elif op == "modify-same":
                    reg.modify(sym, model.t[sym][0])
                elif op == "add":
                    reg.add(sym, arg[1], sdim(dims.D(arg[0])), prefixable=arg[2])
                elif op == "readd":
                    reg.remove(sym); reg.add(sym, arg, sdim(model.t[sym][1]), prefixable=model.t[sym][2])
                elif op == "overwrite":
                    reg.add(sym, arg, sdim(model.t[sym][1]), prefixable=model.t[sym][2])
                elif op == "remove":
                    reg.remove(sym)
                model.apply(op, sym, tuple(arg) if isinstance(arg, list) else arg, builtin)
            else:
                _, order, passes = st
                phase += 1
                phase_is_warm = si != nsteps - 1
                uids = sorted(U)
                if not uids:
                    continue
                entries = []
                per_unit = {}
                for uid in uids:
                    E = [("pow-hom", (uid,), p) for p in exps]
                    E += [(nm, (uid,), None) for nm in ("square", "inverse", "self-division", "sqrt-of-square", "pow0", "pow1", "identity", "simplify", "hash-rebuilt", "array-sqrt")]
                    E += [("power-of-power", (uid,), x) for x in pq]
                    E += [("array-power", (uid,), p) for p in exps[:3]]
                    # partners share the registry family (custom registry and its copies / the default registry): laws across
                    # registries are another property's subject
                    mates = [o for o in uids if U[o]["home"] == U[uid]["home"]]
                    twins = [o for o in mates if o != uid and U[o]["factors"] == U[uid]["factors"]]
                    partners = r.sample(twins, min(2, len(twins))) + r.sample(mates, min(2, len(mates)))
                    for o in partners:
                        E += [(nm, (uid, o), None) for nm in ("commutative", "mul-div-cancel", "div-as-inverse", "equality", "array-multiply", "array-divide")]
                        E.append(("power-of-product", (uid, o), r.choice(exps)))
                    E.append((r.choice(HIST_TERNARY), (uid, r.choice(partners), r.choice(mates)), None))
                    per_unit[uid] = E
                for ps in range(passes):
                    o = order if ps == 0 else "shuffled"
                    cur_order = o if ps == 0 else "second-pass"
                    rec.count("history:use-phase:" + o)
                    if o in ("old-first", "new-first"):
                        seq = [e for uid in (uids if o == "old-first" else uids[::-1]) for e in per_unit[uid]]
                    elif o in ("law-major", "law-major-reversed"):
                        allE = [e for uid in (uids if o == "law-major" else uids[::-1]) for e in per_unit[uid]]
                        lawsq = HIST_UNARY + HIST_BINARY + HIST_TERNARY
                        seq = sorted(allE, key=lambda e: lawsq.index(e[0]))         # stable: unit order kept inside one law
                    else:
                        seq = [e for uid in uids for e in per_unit[uid]]
                        r.shuffle(seq)
                    for e in seq:
                        run_entry(e)


def worker(batch, rec):
    import unyt
    from unyt import Unit
    bid, (kind, payload) = batch
    NULL = Unit()
    res = lut_resolver(unyt)
    if kind == "pairs":
        syms = [s for s in defs.T if s not in OFFSET and s not in LOGS]
        for s1 in payload:
            if s1 in OFFSET or s1 in LOGS:
                continue
            u = Unit(s1)
            law(rec, "identity-right", lambda: u * NULL, lambda: u, (s1,))
            law(rec, "identity-left", lambda: NULL * u, lambda: u, (s1,))
            law(rec, "inverse", lambda: u * u**-1, lambda: NULL, (s1,))
            law(rec, "self-division", lambda: u / u, lambda: NULL, (s1,))
            law(rec, "pow1", lambda: u**1, lambda: u, (s1,))
            law(rec, "pow0", lambda: u**0, lambda: NULL, (s1,))
            for s2 in syms:
                v = Unit(s2)
                p = law(rec, "commutative", lambda: u * v, lambda: v * u, (s1, s2))
                if p is not None:
                    exp = u.base_value * v.base_value
                    if abs(p.base_value - exp) > 4.5e-16 * abs(exp) or udim(p) != dims.mul(defs.T[s1].dim, defs.T[s2].dim):
                        rec.violation("C05:homomorphism:product", f"({s1}*{s2}).base_value={p.base_value!r} vs product of scales {exp!r}; dim {dims.show(udim(p))}", (s1, s2))
                law(rec, "mul-div-cancel", lambda: (u * v) / v, lambda: u, (s1, s2))
                q = law(rec, "div-as-inverse", lambda: u / v, lambda: u * v**-1, (s1, s2))
                if q is not None:
                    exp = u.base_value / v.base_value
                    if abs(q.base_value - exp) > 4.5e-16 * abs(exp) or udim(q) != dims.div(defs.T[s1].dim, defs.T[s2].dim):
                        rec.violation("C05:homomorphism:quotient", f"({s1}/{s2}).base_value={q.base_value!r} vs {exp!r}", (s1, s2))
        rec.sample({"law": "commutative/inverse/homomorphism", "first_symbol": payload[0], "partners": len(syms)})
    elif kind == "equality":
        i, n = payload
        nm = [x for x in all_names() if names.resolve(x) and "°" not in x and x not in ("", "_")]
        r = core.rng(0, "eq", i)
        bydim = {}
        for x in nm:
            f, s, _ = names.resolve(x)
            bydim.setdefault(defs.T[s].dim, []).append(x)
        # same dimension: equal iff same scale and offset
        for dv, lst in bydim.items():
            for a in lst[i::n]:
                ua = Unit(a)
                for b in (lst if len(lst) < 40 else r.sample(lst, 40)):
                    ub = Unit(b)
                    rel = abs(ua.base_value - ub.base_value) / max(abs(ua.base_value), abs(ub.base_value))
                    same_off = float(ua.base_offset) == float(ub.base_offset)
                    got = (ua == ub)
                    if (ua != ub) == got:
                        rec.violation("C05:equality:eq-ne-inconsistent", f"{a} vs {b}: == {got} and != {ua != ub}", (a, b)); continue
                    if rel <= 1e-12 and same_off:
                        if not got:
                            rec.violation("C05:equality:same-unit-unequal", f"{a} == {b} is False (same scale/offset/dimension)", (a, b)); continue
                        if hash(Unit(ua.expr)) != hash(ua):
                            rec.violation("C05:hash:same-expression", f"hash differs for re-built {a}", a); continue
                    elif rel >= 1e-6 or not same_off:
                        if got:
                            rec.violation("C05:equality:different-scale-equal", f"{a} == {b} is True although scales {ua.base_value!r} vs {ub.base_value!r} offsets {ua.base_offset} vs {ub.base_offset}", (a, b)); continue
                    else:
                        rec.note("equality-near-boundary-not-judged"); continue
                    rec.ok(("equality", a, b))
        # different dimension, same scale: must be unequal
        bysc = {}
        for x in nm[i::n]:
            bysc.setdefault(Unit(x).base_value, []).append(x)
        for sc, lst in bysc.items():
            for a in lst[:6]:
                for b in lst[:12]:
                    ua, ub = Unit(a), Unit(b)
                    if udim(ua) != udim(ub):
                        if ua == ub or not (ua != ub):
                            rec.violation("C05:equality:different-dimension-equal", f"{a} == {b} although dimensions differ", (a, b))
                        else:
                            rec.ok(("ineq-dim", a, b))
        # spellings of one unit
        for (a, b) in [("J", "N*m"), ("J", "kg*m**2/s**2"), ("N*m", "kg*m**2/s**2"), ("W", "J/s"), ("Pa", "N/m**2"), ("Hz", "1/s"),
                       ("V", "W/A"), ("erg", "g*cm**2/s**2"), ("dyn", "g*cm/s**2"), ("C", "A*s"), ("T", "Wb/m**2"), ("km/hr", "1000*m/(3600*s)"),
                       ("L", "dm**3"), ("ha", "hm**2"), ("mph", "mile/hr"), ("kt", "nmi/hr"), ("psi", "lbf/inch**2"), ("Ba", "dyn/cm**2")]:
            ua, ub = Unit(a), Unit(b)
            if not (ua == ub) or (ua != ub):
                rec.violation("C05:equality:spellings", f"{a} == {b} is False", (a, b))
            else:
                rec.ok(("spelling", a, b))
        rec.sample({"equality_batch": i, "dimension_classes": len(bydim)})
    elif kind == "triples":
        seed, i, n = payload
        r = core.rng(seed, "triples", i)
        nm = []
        for x in all_names():
            rr = names.resolve(x)
            if rr and "°" not in x and x not in ("", "_") and rr[1] not in OFFSET and rr[1] not in LOGS:
                nm.append(x)
        reg = unyt.UnitRegistry()
        reg.add("cu0", 2.5, unyt.dimensions.length, prefixable=True)
        reg.add("cu1", 4096.0, unyt.dimensions.time)
        extra = {"cu0": (2.5, dims.D("L")), "cu1": (4096.0, dims.D("T")), "kcu0": (2500.0, dims.D("L"))}
        resx = lut_resolver(unyt, extra)
        fr = [Fr(a, b) for b in (1, 2, 3, 4, 5, 6, 8, 12) for a in range(-3 * b, 3 * b + 1) if a != 0 and math.gcd(a, b) == 1 and abs(Fr(a, b)) <= 3]

        def pick(custom):
            if custom and r.random() < 0.4:
                return Unit(r.choice(list(extra)), registry=reg)
            k = r.random()
            if k < 0.6:
                return Unit(r.choice(nm), registry=reg if custom else None)
            a, b = r.choice(nm), r.choice(nm)
            u1, u2 = Unit(a, registry=reg if custom else None), Unit(b, registry=reg if custom else None)
            return u1 * u2 if r.random() < 0.5 else u1 / u2

        def form(p):
            k = r.randrange(5)
            if p.denominator == 1 and k < 2:
                return int(p)
            if k == 2:
                return float(p)
            if k == 3:
                return np.float64(float(p))
            if k == 4 and p.denominator == 1:
                return np.int64(int(p))
            return p

        for k in range(n):
            custom = (k % 4 == 3)
            u, v, w = pick(custom), pick(custom), pick(custom)
            ops = (str(u), str(v), str(w))
            law(rec, "associative-mul", lambda: (u * v) * w, lambda: u * (v * w), ops)
            law(rec, "associative-div", lambda: (u / v) / w, lambda: u / (v * w), ops)
            p, q = r.choice(fr), r.choice(fr)
            fp, fq = form(p), form(q)
            tag = (str(u), str(p), str(q))
            if abs(math.log10(abs(u.base_value)) * float(abs(p * q))) < 250 and abs(math.log10(abs(u.base_value)) * float(abs(p))) < 250:
                law(rec, "power-of-power", lambda: (u**fp)**fq, lambda: u ** form(p * q), tag)
                law(rec, "power-of-product", lambda: (u * v)**fp, lambda: u**fp * v**fp, (str(u), str(v), str(p)))
                # homomorphism for powers
                try:
                    up = u**fp
                    exp = abs(u.base_value) ** float(p)
                    if abs(up.base_value - exp) > 1e-12 * abs(exp) or udim(up) != dims.power(udim(u), p):
                        rec.violation("C05:homomorphism:power", f"({u})**{fp!r}: scale {up.base_value!r} vs {exp!r}, dim {dims.show(udim(up))}", tag)
                    else:
                        rec.ok(("pow-hom",) + tag[:2])
                except Exception as e:
                    rec.violation("C05:power:raises", f"({u})**{fp!r} raised {type(e).__name__}: {e}", tag)
            # simplify / as_coeff_unit denote the same unit
            t = (u * v / w) if r.random() < 0.5 else (u * v)

            def check_simplify(t, cls):
                """cls = structural class of the unit handed to simplify(): '' (product of table units), ':second-call' (the
                object simplify() already returned), ':coefficient-unit' (expression carries a numeric factor from the start)"""
                before = (t.base_value, udim(t), float(t.base_offset))
                try:
                    c, cu = t.as_coeff_unit()
                    if abs(c * cu.base_value - before[0]) > 1e-12 * abs(before[0]) or udim(cu) != before[1]:
                        rec.violation("C05:as_coeff_unit:denotation" + cls, f"{t!r}.as_coeff_unit() -> ({c!r}, {cu!r} scale {cu.base_value!r}); product != {before[0]!r}", str(t))
                    else:
                        rec.ok(("as_coeff_unit" + cls, str(t)))
                    fresh = Unit(t.expr, base_value=t.base_value, dimensions=t.dimensions, registry=t.registry) if cls else Unit(t.expr, registry=t.registry)
                    before = (fresh.base_value, udim(fresh), float(fresh.base_offset))
                    e0, d0 = uexpr.evaluate(str(fresh.expr), resx)
                    if d0 != before[1] or abs(e0 - before[0]) > 1e-9 * abs(before[0]):
                        rec.note("unit-expression-and-scale-disagree-before-simplify" + cls)
                        return None
                    s = fresh.simplify()
                    after = (s.base_value, udim(s), float(s.base_offset))
                    esc, edim = uexpr.evaluate(str(s.expr), resx)
                    if after != before:
                        rec.violation("C05:simplify:changed-value" + cls, f"simplify() of {t!r}: (scale, dim, offset) {before} -> {after}", str(t))
                    elif edim != before[1] or abs(esc - before[0]) > 1e-9 * abs(before[0]):
                        rec.violation("C05:simplify:expression-denotes-other-unit" + cls, f"simplify() of {t!r} prints {s.expr} which evaluates to scale {esc!r} dim {dims.show(edim)}; unit has {before[0]!r}", str(t))
                    else:
                        c2, cu2 = s.as_coeff_unit()
                        e2, d2 = uexpr.evaluate(str(cu2.expr), resx)
                        if abs(c2 * cu2.base_value - before[0]) > 1e-9 * abs(before[0]) or abs(e2 - cu2.base_value) > 1e-9 * abs(e2) or d2 != before[1]:
                            rec.violation("C05:as_coeff_unit:after-simplify" + cls, f"{s!r}.as_coeff_unit() -> ({c2!r}, {cu2!r}); unit scale {cu2.base_value!r} but its expression evaluates to {e2!r}", str(t))
                        else:
                            rec.ok(("simplify" + cls, str(t)))
                            rec.count("simplify-checked" + (cls or ":plain"))
                    if not cls and hash(s) != hash(Unit(s.expr, registry=s.registry)):
                        rec.violation("C05:hash:after-simplify", f"hash of simplified {s!r} differs from hash of a unit built from the same expression", str(t))
                    return s
                except uexpr.ParseError as e:
                    rec.note("simplify-printed-form-not-evaluable-by-reference")
                except Exception as e:
                    rec.violation("C05:simplify:raises" + cls, f"simplify/as_coeff_unit of {t!r} raised {type(e).__name__}: {e}", str(t))
                return None

            s1 = check_simplify(t, "")
            if s1 is not None:
                check_simplify(s1, ":second-call")                 # simplify() mutates and returns self: calling it again is a history
                if k % 3 == 0:
                    check_simplify(s1 * pick(custom), ":product-of-simplified")
            if k % 2 == 0:
                # units whose expression carries a numeric factor from the start: from a string, from a quantity, by arithmetic
                coef = r.choice([2, 100, 1000, 2.5, 0.25, 3600, 12])
                base = u if abs(math.log10(abs(u.base_value))) < 100 else v
                try:
                    route = k % 6
                    if route == 0:
                        cu_ = Unit(f"{coef}*({base.expr})", registry=base.registry)
                    elif route == 2:
                        cu_ = Unit(unyt.unyt_quantity(coef, base), registry=base.registry)
                    else:
                        cu_ = Unit(f"{coef}*({base.expr})", registry=base.registry) * v
                except Exception as e:
                    rec.note(f"coefficient-unit-not-constructible:{type(e).__name__}")
                    cu_ = None
                if cu_ is not None:
                    check_simplify(cu_, ":coefficient-unit")
            if k < 2:
                rec.sample({"u": str(u), "v": str(v), "w": str(w), "p": str(p), "q": str(q)})
    elif kind == "history":
        history_worker(rec, unyt, res, payload)
    elif kind == "expspell":
        espell_mon.run(rec, unyt, payload, lut_resolver)
    elif kind == "refusal":
        others = ["m", "s", "kg", "K", "rad", "degree", "J", "km", "delta_degC"]
        for o in ["degC", "degF", "mdegC", "kdegC", "lat", "lon"]:
            uo = Unit(o)
            law(rec, "identity-right-offset", lambda: uo * NULL, lambda: uo, (o,))
            law(rec, "identity-left-offset", lambda: NULL * uo, lambda: uo, (o,))
            law(rec, "identity-div-offset", lambda: uo / NULL, lambda: uo, (o,))
            for v in others:
                uv = Unit(v)
                law(rec, "commutative-refusal", lambda: uo * uv, lambda: uv * uo, (o, v))
        for o in ["B", "Np", "dB", "mNp"]:
            uo = Unit(o)
            law(rec, "identity-right-log", lambda: uo * NULL, lambda: uo, (o,))
            law(rec, "identity-left-log", lambda: NULL * uo, lambda: uo, (o,))
            for v in others:
                uv = Unit(v)
                law(rec, "commutative-refusal-log", lambda: uo * uv, lambda: uv * uo, (o, v))
        # units with a zero point: simplify()/as_coeff_unit() and the quantity-times-bare-number rule (which simplifies) must return the same
        # unit, zero point included (scale, offset and dimension are what equality is decided by)
        for o in ["degC", "degF", "mdegC", "kdegC", "lat", "lon"]:
            uo = Unit(o)
            want = (float(uo.base_value), float(uo.base_offset), udim(uo))
            forms = (("simplify", lambda: Unit(uo.expr, registry=uo.registry).simplify()),
                     ("simplify-of-product-with-one", lambda: (uo * NULL).simplify()),
                     ("as_coeff_unit", lambda: uo.as_coeff_unit()[1]),
                     ("quantity*bare", lambda: (unyt.unyt_quantity(10.0, uo) * 2).units),
                     ("bare*array", lambda: (2 * unyt.unyt_array([10.0, 20.0], uo)).units))
            for fname, thunk in forms:
                rec.count("offset-unit-forms")
                try:
                    got = thunk()
                except Exception as e:
                    rec.note(f"offset-unit:{fname}:refused:{type(e).__name__}")
                    continue
                have = (float(got.base_value), float(got.base_offset), udim(got))
                if have != want or not (got == uo) or (got != uo):
                    rec.violation(f"C05:offset-unit:{fname}:denotes-other-unit", f"{fname} of {o}: (scale, offset, dimension) {want} -> {have}; == original: {got == uo}", (o, fname))
                else:
                    rec.ok(("offset-unit", fname, o))
        rec.sample({"refusal": "offset/log units x others, both operand orders"})
    elif kind == "hash":
        r = core.rng(payload, "hash")
        nm = [x for x in all_names() if names.resolve(x) and "°" not in x and x not in ("", "_") and names.resolve(x)[1] not in OFFSET | LOGS]
        for k in range(1500):
            a, b = r.choice(nm), r.choice(nm)
            u1 = Unit(a) * Unit(b)
            h0 = hash(u1)                      # hash first (a dict key), then mutate through simplify()
            u2 = Unit(a) * Unit(b)
            if h0 != hash(u2) or hash(Unit(f"({a})*({b})")) != hash(Unit(f"({a})*({b})")):
                rec.violation("C05:hash:same-expression", f"two units built as {a}*{b} hash differently", (a, b)); continue
            u1.simplify()
            twin = Unit(u1.expr)
            if hash(u1) != hash(twin):
                rec.violation("C05:hash:after-simplify", f"{a}*{b}: hashed, then simplify() -> {u1!r}; hash {hash(u1)} != hash of Unit({u1.expr}) {hash(twin)}", (a, b)); continue
            d = {u1: 1}
            if twin not in d and u1.expr == twin.expr:
                rec.violation("C05:hash:dict-lookup", f"dict lookup with an identical-expression twin of {u1!r} misses", (a, b)); continue
            rec.ok(("hash", a, b))
        rec.sample({"hash_cases": 1500})


HIST_EDITS = ("modify-float", "modify-quantity", "add", "readd", "overwrite", "modify-same", "remove")


def extra(tier, seed, results):
    c = {}
    for _, r in results:
        for k, v in r.get("counters", {}).items():
            c[k] = c.get(k, 0) + v
    deciding = ["history:scenarios", "history:scenarios-used-before-edit", "history:laws", "history:array-rule-evals", "history:equality-evals",
                "history:hash-evals", "history:simplify-expression-checked", "history:evals-on-unit-with-other-scale-twin",
                "history:use-phase:shuffled"]
    deciding += ["history:evals-on-" + k for k in HIST_KINDS]
    deciding += ["history:use-phase:" + o for o in hist.ORDERS]
    deciding += ["history:built:" + x for x in ("string", "compose", "expr", "explicit", "copy", "deepcopy", "string-default", "explicit-default")]
    deciding += ["history:edit:" + e for e in HIST_EDITS if tier != "quick" or e != "remove"]
    # exponent / multiplier spellings: every law, value class, array door and spelling must have been observed
    deciding += ["offset-unit-forms", "expspell:cases", "expspell:multiplier-evals"]
    deciding += ["expspell:law:" + x for x in espell_mon.LAWS]
    deciding += ["expspell:vclass:" + x for x in espell.VCLASSES]
    deciding += ["expspell:array-door:" + x for x in espell.ARRAY_DOORS]
    deciding += ["expspell:tried:" + x for x in espell.SPELLINGS]
    deciding += ["expspell:returned:" + x for x in espell_mon.MUST_RETURN]
    zero = [k for k in deciding if not c.get(k)]
    if zero:
        raise core.Inconclusive("sub-monitors-saw-nothing:" + ",".join(zero))
    return {"sub_monitor_counters": {k: c[k] for k in sorted(c)}}
