"""C15 - physical constants are coherent across unit systems and with the unit table.

Observed: every guise of every exported constant (canonical name, each alias, plain/_mks/_cgs, module attribute, top-level
attribute, namespaces built by add_constants for registries with every built-in unit system, for registries with added
or modified symbols and for generated unit systems).  Oracle: own arithmetic on the observed (number, unit expression):
the unit expression tree is walked here, names are resolved by vf/ref/names.py, prefix factors come from vf/ref/defs.py,
dimension vectors from vf/ref/defs.py, scales of atomic symbols are read as DATA from the registry's table (the unit table
itself is C02's subject); published values, the name -> constant map, the Gaussian pairing, the unit sets of the unit
systems and the defining relations are in vf/ref/c15_consts.py.  No conversion routine of unyt is called by the oracle.
Every guise is also *used as a unit* (conversion target of to / in_units / to_value / convert_to_units, divisor, Unit(q)): the
number a probe measures in it is compared with probe/constant computed from the harness's own readings of both objects.
"""
import math
from fractions import Fraction as Fr
from vf import core
from vf.ref import defs, dims, names
from vf.ref import c15_consts as K

RULE = ("one evaluation = one judged observation: (a) guise: a constant under one name x suffix {plain,_mks,_cgs} in one namespace "
        "(unyt.physical_constants, top-level unyt, add_constants(ns, registry) for a registry) has the reference dimension (or its "
        "Gaussian image for charge) and, converted to SI by the harness, the magnitude of unyt.physical_constants.<X>_mks within "
        "4 ulp x (unit factors + 2); (b) system-units: the atoms of its unit belong to the documented unit set of the system the "
        "guise is named for; (c) relation: a defining relation evaluated on SI magnitudes (every namespace) or raw CGS numbers; "
        "(d) published: SI magnitude within the uncertainty class of the published value; (e) double-role: a constant name that "
        "also constructs a Unit of the same dimension has the constant's magnitude; (f) survive: after one driven library call that only "
        "reads its operands, one operand that is a shared constant object (module/top-level guise or a guise of a namespace held since "
        "the start of the history) is byte-for-byte what it was before the call (class, dtype, shape, buffer bytes, writeable flag, name, "
        "unit expression, unit base value, offset, dimensions, registry); every 1000 calls and after each re-materialisation all tracked "
        "objects are compared (bystanders); (g) after-use: at the end of the history each tracked object against the snapshot taken "
        "before the first call, each namespace binding, and (a)-(e) again in the same process (namespace kinds '...:after-use'); "
        "(h) as-unit: one use of a guise as a unit / conversion target - call form {x.to(q), x.in_units(q), x.to_value(q), "
        "x.convert_to_units(q) on a temporary, (x/q).to('dimensionless'), x.to(Unit(q, registry=q's registry))} x probe x {in the units of "
        "each sibling guise plain/_mks/_cgs, in coherent SI base units of the guise's dimension in the default and in the namespace's "
        "registry, in the documented partner unit C/statC for charges}: the number measured equals probe/constant, both read by the "
        "harness (value x unit expression walked here), within 4 ulp x (unit factors of both + 4); the Unit object the library made of "
        "the constant (result units, Unit(q)) has the constant's dimension and size (base_value and expression, read as data); and a "
        "unit of the same name and dimension in the namespace's registry measures the same number as the constant; "
        "(i) non-plain unit systems (offset temperature scale degC/degF in every spelling, coefficient*unit base units, angle/current units "
        "other than rad/A, derived dimensions with their own unit, offset symbols of a private registry; each base unit handed over as "
        "string / Unit / quantity / set after construction): (a)-(c),(h) on the namespace add_constants builds, a pure temperature in a "
        "bare offset unit read as an absolute reading (scale x value - scale x offset, error relative to |scale x value|+|scale x offset|), "
        "an offset symbol inside a product as its interval; unit-size: the unit of the plain guise has the size of the coherent product of "
        "the system's base units; reexpress: one guise sent through one re-expression door {in_base implicit / by name / by object, in_mks, "
        "in_cgs, in_base(another system), convert_to_base on a copy, module constant.in_base(this system)} still reads as the constant; "
        "distinct = (sub-monitor, constant or relation, name, suffix, namespace kind) tuples; for (f) (call template, operand position, "
        "operand kind, kind of the other operand); for (h) (call form, probe kind, constant, suffix, namespace kind); "
        "for reexpress (door, constant, suffix, namespace kind, result kind)")
ASSUMPTIONS = (
    "vf/ref/c15_consts.py (own transcription: CODATA 2018 values, uncertainty classes = spread of CODATA 1986-2018 adjustments, IAU 2015 "
    "nominal GM / CODATA G, planet GM of the NASA fact sheets, which name belongs to which constant, unit sets of the 7 unit systems) is the trusted base",
    "scales of atomic unit symbols are read as data from registry.lut (their correctness is C02's subject: a unit whose table value is a "
    "C02 finding - Mearth, ly, mp - does not re-alarm here); prefix factors, name resolution and dimension vectors are the reference's own",
    "'equal as quantities' = same reference dimension vector and SI magnitudes within 4 ulp x (number of unit factors + 2); a charge in "
    "statC is compared through the documented pairing 1 C <-> c/10 statC (DESIGN O)",
    "'where representable': a constant whose SI dimension contains the ampere outside the five documented EM pairs (mu_0, eps_0) may lack "
    "its _cgs guise and may stay in its SI table unit in a system without a current unit; recorded as notes",
    "unyt treats mol as a pure number, so Na_mks is in 1/mol while Na / Na_cgs are dimensionless; equal through the table value of mol "
    "(the 2e-8 difference between the table's avogadros_number and 1/amu_grams is inside the CODATA class and only noted)",
    "homonyms of different dimension (G = gauss, hbar = hectobar, ...) are notes: the property lists the double-role names it means (DESIGN 4.4)",
    "system-units sub-monitor: X_mks must be written in SI units, X_cgs in CGS units, the plain guise in units of registry.unit_system, as "
    "the add_constants docstring shows; membership is judged on unit atoms only, never on the choice among equivalent spellings",
    "in a generated or code-unit system without a current unit an electromagnetic constant comes back in the Gaussian unit of the documented "
    "pairing (statC) instead of a product of that system's base units: the property only asks for equality, so this is a note",
    "a top-level attribute unyt.<constant name> must denote the constant (a Unit object of the same magnitude would be accepted)",
    "generated unit systems in which the unit of some constant would have a scale outside 1e-150..1e150 (eps_0 in Ypc, m_geom, t_pl) are "
    "not generated: unyt's scale arithmetic under/overflows there (ZeroDivisionError), a float-range artefact, not a property of constants",
    "generated unit systems draw base units from documented unit names; systems that unyt refuses to construct are recorded, not judged",
    "'denotes one physical quantity' holds for the life of the process, not only right after import: the exported constants are shared "
    "objects, so a library call that takes a constant as an operand and is not an explicit in-place request must leave the object "
    "byte-for-byte unchanged (snapshot contract); what the call returns or whether it raises is other properties' subject and not judged here",
    "explicit in-place requests by the caller are not driven on a constant: augmented assignment, out=<the constant>, convert_to_*, "
    "item assignment, inplace=True, templates the shared catalogue tags 'mutator', and writes through documented views (.d, .ndview, "
    "unyt_array(x), np.asarray(x)); the harness does overwrite results the documentation calls copies (.to/.in_units/.in_base/.in_cgs/"
    ".in_mks/.v/.value/.to_ndarray/.copy/copy.copy/pickle, arithmetic results, np.array/np.copy/stack/concatenate results)",
    "an equal but different Unit object attached to a constant is the same quantity (note, not a violation)",
    "as-unit: 'denotes one physical quantity' includes being used as a unit, the documented use of a quantity as a conversion target "
    "(x.to(Msun), x.to_value(c)): the number measured is probe/constant whatever registry or unit system the constant was built for; the "
    "oracle's probe and constant magnitudes are the harness's own readings (number x walked unit expression, atom scales read as data "
    "from the registry table of the object), never a unyt conversion",
    "as-unit: Unit(q) is given the constant's own registry (Unit(q) without one re-reads the spelling of q's units in the default "
    "registry, which is a different question for code units and edited registries)",
    "as-unit: across the two electromagnetic families only the documented pairing is demanded (C <-> statC through 1 C = c/10 statC); a "
    "conversion between families that raises (compound units: unyt documents that only simple E&M units convert) is a note, a raise "
    "within one dimension is a violation; x[C] / q[statC] is not a pure number in unyt's model, so the ratio form is not judged across families",
    "as-unit: a unit of the same name that the registry's owner redefined (registry.modify: table value differs from the default table) "
    "is not compared with the constant; every combination (probe kind x call form) is driven for the canonical names in the enumerated "
    "namespaces (module, top-level, default, 7 built-in systems, added, modified), elsewhere by rotation two combinations per canonical "
    "guise and one per alias guise (thorough tier: alias guises in every fourth generated system only)",
    "non-plain unit systems: a number in a unit whose whole expression is one symbol with a zero-point offset (degC, degF, their "
    "documented spellings, SI-prefixed degC with unyt's convention that the prefix scales the degree and keeps the zero point, a "
    "user-added symbol with offset=) is an absolute reading, base = scale x (reading - offset) with the offset of vf/ref/defs.py (or the one "
    "the harness itself passed to registry.add); inside a product, power or coefficient*symbol the same symbol denotes its interval "
    "(kg*m**2/(degC*s**2) = J/K) - unyt's own documented convention for compound units, not a demand of the check",
    "an absolute reading is compared with an error bound relative to |scale x value| + |scale x offset| (the rounding of -270.424 degC is "
    "relative to 273.15, not to 2.726 K)",
    "a unit object that prints as a bare offset symbol but carries base_offset 0 (what unyt makes of the expression 1.0*degC, which a "
    "base unit handed over as the quantity unyt_quantity(1.0, 'degC') produces) prints as an absolute scale and converts as an interval: "
    "no single reading is defined, such guises are counted (guise-ambiguous-offset-unit) and not judged",
    "a constant that is an absolute reading on an offset scale is not driven as a unit / conversion target (x.to(-270.424 degC) has no "
    "defined meaning); the ratio form refused with InvalidUnitOperation for units containing degC/degF is unyt's documented restriction (note)",
    "unit-size clause: only where every unit atom of the plain guise is a base unit of the system (not for Gaussian fall-backs or "
    "derived-dimension overrides); bound 8 ulp x (atoms + sum of |exponents| + 2); base units of the form coefficient*offset-symbol are "
    "generated (2*degC is read as an interval of 2 K like unyt does) but never with a claim about a zero point",
    "re-expression doors: UnitsNotReducible is accepted as add_constants accepts it; a source guise that is itself off is judged by the "
    "guise monitor only (its re-expressions would be consequences); 'other system' = a built-in system or a non-plain system built "
    "earlier in the same process (never one with private symbols)",
    "unit spellings unyt refuses as a base unit of a UnitSystem are recorded (nonplain-not-constructible:<family>), not judged",
    "a driven call that does not return within 10 s of wall clock (1 s after five such calls) is abandoned and counted, never judged; a "
    "damaged constant is not restored, so later alarms of the same history may be consequences of the first (keys name call and operand)",
)
MIN_EVALS = 200000
TIMEOUT = 900
EXHAUSTIVE = False     # names x suffixes x built-in systems are enumerated completely; generated registries and unit systems are sampled

ULP = 2.220446049250313e-16
SUFFIXES = ("", "_mks", "_cgs")
BUILTIN = ("cgs", "mks", "imperial", "galactic", "solar", "geometrized", "planck")

PREFIXES = ["Y", "Z", "E", "P", "T", "G", "M", "k", "h", "da", "d", "c", "m", "u", "n", "p", "f", "a", "z", "y"]


def _pool(dimspec, skip=()):
    """all non-offset atomic symbols of the reference table with this dimension, each also with SI prefixes when prefixable"""
    dv = dims.D(dimspec)
    plain = [s for s, de in defs.T.items() if de.dim == dv and de.offset == 0.0 and s not in skip]
    pref = [p + s for s in plain if defs.T[s].prefixable for p in PREFIXES]
    pref = [n for n in pref if names.resolve(n) and names.resolve(n)[1] in plain and not names.resolve(n)[2]]
    return plain, pref


POOLS = {"length": _pool("L"), "mass": _pool("M"), "time": _pool("T"), "temperature": _pool("K"), "current": _pool("I")}


# ------------------------------------------------------------------ batches
def _rand_scale(r):
    return float(r.choice([1.0, 2.0, 3.0, 7.0])) * 10.0 ** r.randint(-30, 30) * (1 + r.random())


def _in_float_range(spec):
    """every constant's unit in this system must have a scale well inside float64 (eps_0 in Ypc/m_geom/t_pl units underflows to 0
    and unyt divides by it: a float-range artefact of an absurd system, not a statement about constants)"""
    sc = []
    for k in ("mass", "length", "time", "temperature"):
        f, sym, _ = names.resolve(spec[k])
        sc.append(f * defs.T[sym].value)
    sc += [1.0]
    if spec["current"]:
        f, sym, _ = names.resolve(spec["current"])
        sc.append(f * defs.T[sym].value)
    else:
        sc.append(1.0)
    for c in K.C.values():
        lg = sum(float(c.dim[i]) * math.log10(sc[i]) for i in range(6))
        if abs(lg) > 150:
            return False
    return True


def _custom(i, tag, pick):
    return {"kind": "custom", "name": f"c15_{tag}_{i}", "length": pick("length"), "mass": pick("mass"), "time": pick("time"),
            "temperature": pick("temperature"), "current": pick("current")}


def batches(tier, seed):
    b = [("module", ("module", None)), ("toplevel", ("toplevel", None)), ("relations", ("relations", None)),
         ("published", ("published", None)), ("double-role", ("double-role", None))]
    specs = [{"kind": "plain"}] + [{"kind": "system", "system": s, "how": h} for s in BUILTIN for h in ("name", "object", "lut", "json")]
    specs.append({"kind": "added", "add": [["c15_len", 3.0856775814913674e21, "L"], ["c15_en", 1.0e-7, "M L2 T-2"]]})
    specs.append({"kind": "modified", "modify": [["me", 1.0e-30], ["mp", 2.0e-27], ["c", 3.0e8], ["Msun", 2.0e30], ["E_pl", 2.0e9]]})
    r = core.rng(seed, "C15", "specs")
    ncode, ncust = (16, 160) if tier == "quick" else (1000, 15000)
    for i in range(ncode):
        add = [["code_length", _rand_scale(r), "L"], ["code_mass", _rand_scale(r), "M"], ["code_time", _rand_scale(r), "T"]]
        spec = {"kind": "code", "add": add, "name": f"c15_code_{i}", "temperature": None, "current": r.choice(["A", "A", None])}
        if r.random() < 0.5:
            add.append(["code_temperature", _rand_scale(r), "K"])
            spec["temperature"] = "code_temperature"
        specs.append(spec)
    # enumerated part (ignores the seed): every atomic symbol of each base dimension once, every SI prefix once per dimension
    default = {"length": "m", "mass": "kg", "time": "s", "temperature": "K", "current": "A"}
    k = 0
    for dimname, (plain, pref) in POOLS.items():
        cands = plain + [n for j, n in enumerate(pref) if tier != "quick" or j % 7 == 0]
        for n in cands:
            spec = _custom(k, "enum", lambda d: default[d])
            spec[dimname] = n
            specs.append(spec)
            k += 1
    for i in range(4):
        spec = _custom(i, "nocur", lambda d: default[d])
        spec.update(current=None, length=["m", "cm", "km", "pc"][i], mass=["kg", "g", "lb", "Msun"][i])
        specs.append(spec)

    def pick(d):
        plain, pref = POOLS[d]
        if d == "current" and r.random() < 0.15:
            return None
        if d in ("temperature", "current") and r.random() < 0.5:
            return default[d]
        return r.choice(pref) if (pref and r.random() < 0.3) else r.choice(plain)
    for i in range(ncust):
        spec = _custom(i, "rand", pick)
        if _in_float_range(spec):
            specs.append(spec)
    if tier != "quick":     # as-unit on the alias names of the sampled (generated) systems: every fourth system in the thorough tier
        for i, spec in enumerate(specs):
            if spec["kind"] in ("code", "custom") and i % 4:
                spec["asunit_alias"] = 0
    per = 8 if tier == "quick" else 40
    for i in range(0, len(specs), per):
        b.append(("registries/%d" % (i // per), ("registries", specs[i:i + per])))
    # unit systems whose base units are not plain scalings of named units (offset temperature scales, coefficient*unit, angle and
    # current units other than rad/A, derived dimensions with their own unit, offset symbols of a private registry): enumerated
    # families first, then seeded combinations (vf/gen/c15_nonplain.py)
    from vf.gen import c15_nonplain as NP
    nps = NP.specs(tier, core.rng(seed, "C15", "nonplain"))
    for i, spec in enumerate(nps):          # as-unit on the alias names in every third non-plain system
        if i % 3:
            spec["asunit_alias"] = 0
    per = 6 if tier == "quick" else 12
    for i in range(0, len(nps), per):
        b.append(("nonplain/%d" % (i // per), ("registries", nps[i:i + per])))
    # 'constants survive being used': one history per group of constants (enumerated battery, seeded order), each with the seven
    # built-in namespaces and one generated unit system held for the whole history.  Longest batches first.
    canons = list(K.C)
    group = 5 if tier == "quick" else 1
    ub = []
    for i in range(0, len(canons), group):
        gen = None
        for j in range(40):
            cand = _custom(i * 100 + j, "usage", pick)
            if cand["current"] and _in_float_range(cand):
                gen = cand
                break
        ub.append(("usage/%d" % (i // group), ("usage", {"canons": canons[i:i + group], "other": canons[(i + 7) % len(canons)],
                                                       "tier": tier, "seed": seed, "generated": gen})))
    return ub + b


# ------------------------------------------------------------------ the harness's own reading of a unit expression
class Unreadable(Exception):
    pass


class Ambiguous(Unreadable):
    """the unit has no single defined reading (recorded and counted, never judged)"""


def make_resolver(lut, extra, atoms, offsets=None, offs=None):
    """tok -> (scale, dimvec); scale = reference prefix factor x table value of the atomic symbol (data of this registry).
    A symbol with a zero-point offset (degC, degF, lat, lon: offset of the reference table; a user-added symbol: `offsets`) is
    returned with the size of its interval and reported in `offs` as (tok, prefix factor, table scale, offset); whether the
    reading is absolute is decided by the caller (only when the whole unit expression is that one symbol)."""
    def res(tok):
        if extra and tok in extra:
            atoms.append((1.0, tok))
            if offsets and tok in offsets and offs is not None:
                offs.append((tok, 1.0, extra[tok][0], offsets[tok]))
            return extra[tok]
        r = names.resolve(tok)
        if r is None:
            raise Unreadable(f"unit name {tok!r} unknown to the reference resolver")
        f, sym, _ = r
        de = defs.T[sym]
        ent = lut.get(sym) if lut is not None else None
        base = float(ent[0]) if ent is not None else de.value
        if de.offset != 0.0:
            if offs is None:
                raise Unreadable(f"offset unit {tok!r} in a constant")
            offs.append((tok, f, base, float(de.offset)))
        atoms.append((f, sym))
        return f * base, de.dim
    return res


def si_resolver(atoms):
    """published values are quoted in coherent SI units and per mol: exact reference scales, mol counted as 1"""
    def res(tok):
        r = names.resolve(tok)
        if r is None:
            raise Unreadable(f"unit name {tok!r} unknown to the reference resolver")
        f, sym, _ = r
        atoms.append((f, sym))
        if (f, sym) not in K.SI_TABLE_UNITS:
            raise Unreadable(f"{tok!r} is not an SI unit")
        return (1.0, dims.ZERO) if sym == "mol" else (f * defs.T[sym].value, defs.T[sym].dim)
    return res


def eval_expr(e, res):
    """(scale, dimvec) of a sympy unit expression, walked here (no printer, no unyt conversion code)"""
    import sympy
    if e == 1:
        return 1.0, dims.ZERO
    if isinstance(e, sympy.Symbol):
        return res(e.name)
    if isinstance(e, sympy.Number):
        return float(e), dims.ZERO
    if isinstance(e, sympy.Pow):
        s, d = eval_expr(e.args[0], res)
        p = e.args[1]
        if p.is_Rational:
            q = Fr(int(p.p), int(p.q))
        elif p.is_Float:
            q = Fr(float(p)).limit_denominator(1000)
        else:
            raise Unreadable(f"exponent {p!r}")
        return float(s) ** float(q), dims.power(d, q)
    if isinstance(e, sympy.Mul):
        s, d = 1.0, dims.ZERO
        for a in e.args:
            s2, d2 = eval_expr(a, res)
            s, d = s * s2, dims.mul(d, d2)
        return s, d
    raise Unreadable(f"expression node {type(e).__name__}")


def observe(unyt, obj, lut, extra, si=False, offsets=None):
    """-> dict(value, scale, dim, atoms, unit, mag, affine, span, offset_atoms) of a quantity (or of a Unit taken as 1 unit).
    affine: the unit expression is one bare symbol with a zero-point offset and obj is a quantity, so the number is an absolute
    reading on that scale: mag = scale*value - (table scale)*offset (base = scale*(reading - offset); an SI-prefixed degC keeps its
    zero point, vf/ref/defs.to_base).  Anywhere else (product, power, coefficient*symbol) an offset symbol stands for its interval.
    span = |scale*value| + |table scale*offset|: the size the rounding error of an affine reading is relative to (0.0 otherwise)."""
    import numpy as np
    import sympy
    if isinstance(obj, unyt.Unit):
        value, u = 1.0, obj
    else:
        arr = np.asarray(obj.d)
        if arr.shape != ():
            raise Unreadable(f"shape {arr.shape}")
        value, u = float(arr), obj.units
    atoms, offs = [], []
    scale, dim = eval_expr(u.expr, si_resolver(atoms) if si else make_resolver(lut, extra, atoms, offsets, offs))
    o = {"value": value, "scale": scale, "dim": dim, "atoms": atoms, "unit": str(u.expr), "mag": value * scale, "affine": False,
         "span": 0.0, "offset_atoms": [t[0] for t in offs]}
    if offs and isinstance(u.expr, sympy.Symbol) and not isinstance(obj, unyt.Unit):
        tok, f, base, off = offs[0]
        if float(getattr(u, "base_offset", 0.0) or 0.0) == 0.0:
            # a unit object that prints as an offset scale but converts as an interval (Unit(1.0*degC expression)): no defined reading
            raise Ambiguous(f"unit {str(u.expr)!r} is an offset symbol but the unit object carries base_offset 0")
        o["affine"] = True
        o["mag"] = scale * value - base * off
        o["span"] = abs(scale * value) + abs(base * off)
    return o


def relerr(a, b):
    if a == b:
        return 0.0
    if not (math.isfinite(a) and math.isfinite(b)):
        return float("inf")
    return abs(a - b) / max(abs(a), abs(b))


def relerr_span(a, b, span):
    """relerr for a magnitude read through an affine map: the rounding of -270.424 degC is relative to 273.15, not to 2.726"""
    if a == b:
        return 0.0
    if not (math.isfinite(a) and math.isfinite(b)):
        return float("inf")
    return abs(a - b) / max(abs(a), abs(b), span)


# ------------------------------------------------------------------ sub-monitors
def anchors(unyt, rec):
    """SI magnitude of unyt.physical_constants.<X>_mks for every reference constant"""
    import unyt.physical_constants as pc
    lut = unyt.unit_registry.default_unit_registry.lut
    A = {}
    for canon, c in K.C.items():
        q = getattr(pc, canon + "_mks", None)
        if q is None or not isinstance(q, unyt.unyt_quantity):
            rec.violation(f"C15:guise:missing:_mks:module:{canon}", f"unyt.physical_constants.{canon}_mks is {q!r}", canon)
            continue
        try:
            o = observe(unyt, q, lut, None)
        except Unreadable as e:
            rec.violation(f"C15:guise:unit-unreadable:_mks:module:{canon}", f"unyt.physical_constants.{canon}_mks = {q!r}: {e}", canon)
            continue
        if o["dim"] != c.dim:
            rec.violation(f"C15:guise:dimension-differs:_mks:module:{canon}",
                          f"unyt.physical_constants.{canon}_mks = {q!r} has dimension {dims.show(o['dim'])}; {canon} is {dims.show(c.dim)}", canon)
            continue
        A[canon] = o["mag"]
    return A


def judge_guise(unyt, rec, A, obj, canon, name, suffix, ns, system_units, lut, extra, has_current, track, ctx=None):
    """one guise of constant `canon` found under `name+suffix` in namespace kind `ns`; ctx = {"offsets": zero-point offsets of
    user-added symbols, "sysinfo": base-unit sizes of a non-plain unit system (vf/gen/c15_nonplain.build)} or None"""
    c = K.C[canon]
    sfx = suffix or "plain"
    where = f"{ns}:{name}{suffix}"
    case = {"constant": canon, "name": name + suffix, "namespace": ns}
    if obj is None:
        if suffix == "_cgs" and not K.representable_without_current(c.dim):
            rec.note(f"cgs-guise-absent:not-representable:{canon}")
            return None
        rec.violation(f"C15:guise:missing:{sfx}:{ns}:{canon}", f"{where} does not exist", case)
        return None
    if not isinstance(obj, (unyt.unyt_quantity, unyt.Unit)):
        rec.violation(f"C15:guise:not-a-quantity:{sfx}:{ns}:{canon}", f"{where} is {type(obj).__name__} {obj!r}", case)
        return None
    try:
        o = observe(unyt, obj, lut, extra, offsets=(ctx or {}).get("offsets"))
    except Ambiguous:
        rec.note(f"guise:offset-symbol-on-a-unit-object-without-offset:not-judged:{sfx}")
        rec.count("guise-ambiguous-offset-unit")
        return None
    except Unreadable as e:
        rec.violation(f"C15:guise:unit-unreadable:{sfx}:{ns}:{canon}", f"{where} = {obj!r}: {e}", case)
        return None
    case.update(value=o["value"], unit=o["unit"])
    if canon not in A:
        return o
    want = A[canon]
    if o["dim"] == c.dim:
        route = "direct"
    elif c.dim in K.EM_PAIR and o["dim"] == K.EM_PAIR[c.dim][0]:
        want = want * K.EM_PAIR[c.dim][1]
        route = "gaussian"
    else:
        rec.violation(f"C15:guise:dimension-differs:{sfx}:{ns}:{canon}",
                      f"{where} = {obj!r} has dimension {dims.show(o['dim'])}; {canon} is {dims.show(c.dim)}", case)
        return o
    tol = 4 * ULP * (len(o["atoms"]) + 2)
    err = relerr_span(o["mag"], want, o["span"])
    track["max_guise_relerr_ulp"] = max(track.get("max_guise_relerr_ulp", 0.0), err / ULP)
    if err > tol:
        how = (" [absolute reading on an offset scale: value x scale - scale x offset]" if o["affine"] else
               (" [offset symbols %s read as intervals inside a product]" % o["offset_atoms"] if o["offset_atoms"] else ""))
        rec.violation(f"C15:guise:value-differs:{sfx}:{ns}:{canon}" + (":offset-scale" if o["affine"] else ""),
                      f"{where} = {obj!r} is {o['mag']!r} in SI-coherent units{how} but unyt.physical_constants.{canon}_mks is {want!r} "
                      f"(rel {err:.3g}, allowed {tol:.2g}, route {route})", case)
        return o
    rec.ok(("guise", canon, name, sfx, ns) + (("offset-scale",) if o["affine"] else ()))
    rec.count("guise:" + sfx)
    rec.count("guise-route:" + route)
    if o["affine"]:
        rec.count("guise-affine:" + sfx)
    elif o["offset_atoms"]:
        rec.count("guise-offset-interval:" + sfx)
    # (b) unit atoms belong to the system the guise is named for
    allowed = K.SI_TABLE_UNITS if suffix == "_mks" else (K.SYSTEM_UNITS["cgs"] if suffix == "_cgs" else system_units)
    cur = True if suffix == "_mks" else (False if suffix == "_cgs" else has_current)
    bad = [a for a in o["atoms"] if a not in allowed]
    if isinstance(obj, unyt.Unit):
        rec.note("guise-is-a-Unit-object:" + ns)      # same magnitude as the constant: accepted, unit-set membership not applicable
    elif not bad:
        rec.ok(("system-units", canon, sfx, ns))
        rec.count("system-units:" + sfx)
    elif (not cur) and not K.representable_without_current(c.dim) and all(a in K.SI_TABLE_UNITS for a in o["atoms"]):
        rec.note(f"left-in-SI:not-representable:{canon}:{sfx}")
    elif (not cur) and all(a in K.GAUSSIAN_UNITS for a in bad):
        rec.note(f"gaussian-unit-in-system-without-current:{canon}:{sfx}")
    else:
        rec.violation(f"C15:guise:not-in-system-units:{sfx}:{ns}:{canon}",
                      f"{where} = {obj!r}: unit atoms {bad} are not units of the system this guise is named for", case)
    # (b') in a system whose base units carry coefficients (10*m, 2.5*s) the unit of the plain guise has the size of the coherent
    # product of that system's base units (judged only when every atom is a base unit of the system)
    info = (ctx or {}).get("sysinfo")
    if info is not None and suffix == "" and not bad and isinstance(obj, unyt.unyt_quantity):
        from vf.gen import c15_nonplain as NP
        want_sc = NP.expected_unit_scale(info, o["dim"]) if all(a in info["base_atoms"] for a in o["atoms"]) else None
        if want_sc is None:
            rec.count("system-scale:not-applicable")
        else:
            npow = sum(abs(float(x)) for x in o["dim"])
            e2 = relerr(o["scale"], want_sc)
            if e2 > 8 * ULP * (len(o["atoms"]) + npow + 2):
                rec.violation(f"C15:guise:unit-size-not-of-the-system:{sfx}:{ns}:{canon}",
                              f"{where} = {obj!r}: one unit {o['unit']!r} is {o['scale']!r} in coherent SI units, the coherent product of the "
                              f"base units of this unit system (sizes {info['base_scale'][:6]}) for {dims.show(o['dim'])} is {want_sc!r} "
                              f"(rel {e2:.3g})", case)
            else:
                rec.ok(("system-scale", canon, sfx, ns))
                rec.count("system-scale:" + sfx)
    return o


def judge_namespace(unyt, rec, A, get, ns, system_units, lut, extra, has_current, track, asunit=None, ctx=None):
    """all reference names x suffixes in one namespace; get(name) -> object or None. Returns SI magnitudes of the _mks guises
    and raw numbers of the _cgs guises (canonical names) for the relation monitor.  asunit = {"reg": registry of the namespace,
    "full": bool} switches on the 'constant used as a unit' sub-monitor for every guise of the namespace."""
    mks, cgs = {}, {}
    for canon, c in K.C.items():
        for name in c.names:
            sib = {}
            for suffix in SUFFIXES:
                obj = get(name + suffix)
                o = judge_guise(unyt, rec, A, obj, canon, name, suffix, ns, system_units, lut, extra, has_current, track, ctx)
                if o is not None and isinstance(obj, unyt.unyt_quantity):
                    sib[suffix] = (obj, o)
                if o is not None and name == canon:
                    if suffix == "_mks":
                        mks[canon] = o["mag"]
                    elif suffix == "_cgs":
                        cgs[canon] = (o["value"], o["atoms"])
            if asunit is not None:
                for suffix in sib:
                    judge_as_unit(unyt, rec, canon, name, suffix, sib, ns, asunit, lut, extra, track)
        rec.reach("constant:" + canon)
    for legacy, (canon, suffix) in K.LEGACY.items():
        judge_guise(unyt, rec, A, get(legacy), canon, legacy, suffix, ns, system_units, lut, extra, has_current, track, ctx)
    return mks, cgs


# ------------------------------------------------------------------ 'a constant used as a unit'
AS_FORMS = ("to", "in_units", "to_value", "convert_to_units", "ratio", "Unit")
SI_BASE = ("kg", "m", "s", "K", "rad", "A", "cd", None)
PROBE_K = (3.0, 0.75, 7.0, 2.5, 1.0, 1.0e3, 0.1)


def si_spelling(dim):
    """coherent SI base-unit spelling of a dimension vector ('kg**(1/2)*m**(3/2)/s' style; Gaussian images have half powers)"""
    parts = []
    for i, x in enumerate(dim):
        if x == 0:
            continue
        if SI_BASE[i] is None:
            return None
        parts.append(SI_BASE[i] if x == 1 else "%s**(%d/%d)" % (SI_BASE[i], x.numerator, x.denominator))
    return "*".join(parts) or "dimensionless"


def expected_measure(po, o):
    """(number the probe must measure in the constant, family) from the harness's own readings of both; None if not commensurable"""
    if po["dim"] == o["dim"]:
        return po["mag"] / o["mag"], "same-dimension"
    if po["dim"] in K.EM_PAIR and K.EM_PAIR[po["dim"]][0] == o["dim"]:
        return po["mag"] * K.EM_PAIR[po["dim"]][1] / o["mag"], "si-probe-gaussian-constant"
    if o["dim"] in K.EM_PAIR and K.EM_PAIR[o["dim"]][0] == po["dim"]:
        return po["mag"] / K.EM_PAIR[o["dim"]][1] / o["mag"], "gaussian-probe-si-constant"
    return None, None


def as_unit_probes(unyt, canon, suffix, sib, reg, lut, extra, dlut, rot, offsets=None):
    """-> [(probe kind, thunk building a fresh probe quantity, harness reading of it)]; probes are temporaries of the harness"""
    uq = unyt.unyt_quantity
    obj, o = sib[suffix]
    out = []

    def add(kind, value, units, registry, plut, pextra):
        try:
            mk = (lambda: uq(value, units, registry=registry)) if registry is not None else (lambda: uq(value, units))
            po = observe(unyt, mk(), plut, pextra, offsets=offsets if pextra is not None else None)
        except Exception:
            return
        if po["affine"]:
            return
        out.append((kind, mk, po))
    k = PROBE_K[rot % len(PROBE_K)]
    # the value in the units of each sibling guise (own units, the SI spelling, the CGS/Gaussian spelling), same registry
    for s2, (obj2, o2) in sib.items():
        if o2["affine"]:
            continue        # k x (an absolute reading on an offset scale) is not k x the quantity
        kind = "own-units" if s2 == suffix else "units-of-" + (s2 or "plain").strip("_") + "-guise"
        add(kind, k * o2["value"], obj2.units, None, lut, extra)
    # coherent SI base units of the constant's own dimension (a Gaussian guise: kg**(1/2)*m**(3/2)/s), default and same registry
    sp = si_spelling(o["dim"])
    if sp is not None and o["mag"] != 0 and math.isfinite(o["mag"]):
        add("si-base:default-registry", 0.75 * k * o["mag"], sp, unyt.unit_registry.default_unit_registry, dlut, None)
        add("si-base:same-registry", 7.0 * k * o["mag"], sp, reg, lut, extra)
    # the documented partner family (only charges among the constants): C <-> statC
    cd = K.C[canon].dim
    if cd in K.EM_PAIR and cd == dims.D("I T"):
        if o["dim"] == cd:
            add("paired:statC", 2.5 * k * o["mag"] * K.EM_PAIR[cd][1] / (defs.T["statC"].value), "statC", reg, lut, extra)
        else:
            add("paired:C", 2.5 * k * o["mag"] / K.EM_PAIR[cd][1], "C", reg, lut, extra)
    return out


def as_unit_call(unyt, form, mk, q):
    """one use of the constant q as a unit / conversion target -> (number measured, Unit object to judge or None)"""
    p = mk()
    if form == "to":
        r = p.to(q)
        return float(r.d), r.units
    if form == "in_units":
        r = p.in_units(q)
        return float(r.d), r.units
    if form == "to_value":
        return float(p.to_value(q)), None
    if form == "convert_to_units":
        p.convert_to_units(q)          # in place on the harness's temporary; the constant is only read
        return float(p.d), p.units
    if form == "ratio":
        return float((p / q).to("dimensionless").d), None
    if form == "Unit":
        u = unyt.Unit(q, registry=q.units.registry)
        return float(p.to(u).d), u
    raise ValueError(form)


def as_unit_cfg(unyt, reg, full, reduced, alias=1, offsets=None):
    """full: every probe x every call form for the canonical names (aliases: `reduced` (form, probe) pairs by rotation);
    otherwise `reduced` pairs by rotation for the canonical names and `alias` pairs for the alias names"""
    return {"reg": reg, "dlut": unyt.unit_registry.default_unit_registry.lut, "full": full, "reduced": reduced, "alias": alias,
            "offsets": offsets}


def judge_as_unit(unyt, rec, canon, name, suffix, sib, ns, cfg, lut, extra, track):
    """the guise name+suffix of one namespace used as a unit: a probe measured in it must give probe/constant (both read by the
    harness), the Unit the library makes of it must carry the constant's size, and a unit of the same name must agree"""
    obj, o = sib[suffix]
    sfx = suffix or "plain"
    if not (o["mag"] != 0 and math.isfinite(o["mag"])):
        return
    if o["affine"]:
        rec.count("as-unit:not-driven:absolute-reading-on-offset-scale")       # see ASSUMPTIONS
        return
    rot = cfg["_rot"] = cfg.get("_rot", -1) + 1
    reg = cfg["reg"]
    dlut = cfg["dlut"]
    probes = as_unit_probes(unyt, canon, suffix, sib, reg, lut, extra, dlut, rot, cfg.get("offsets"))
    full = cfg["full"] and name == canon
    if full:
        plan = [(f, pr) for pr in probes for f in AS_FORMS]
    else:
        n = len(probes)
        npairs = cfg["reduced"] if (name == canon or cfg["full"]) else cfg["alias"]
        if npairs == 0:
            return
        plan = [(AS_FORMS[(rot + j * 3) % 6], probes[(rot + j * 2) % n]) for j in range(npairs)] if n else []
    q = obj
    nat = len(o["atoms"])
    for form, (pk, mk, po) in plan:
        want, fam = expected_measure(po, o)
        if want is None:
            rec.count("as-unit:probe-not-commensurable")
            continue
        if form == "ratio" and fam != "same-dimension":
            rec.note("as-unit:ratio-across-EM-families-is-not-a-pure-number-in-unyt")       # x[C] / q[statC] keeps the unit C/statC
            continue
        case = {"constant": canon, "name": name + suffix, "namespace": ns, "form": form, "probe": pk, "probe_is": f"{po['value']!r} {po['unit']}",
                "constant_is": f"{o['value']!r} {o['unit']}"}
        try:
            got, u = as_unit_call(unyt, form, mk, q)
        except Exception as e:
            if fam != "same-dimension":
                rec.note(f"as-unit:{form}:raises:{type(e).__name__}:{fam}")      # limited E&M conversion support (documented)
                rec.count("as-unit-raised:cross-family")
                continue
            if form == "ratio" and type(e).__name__ == "InvalidUnitOperation" and (o["offset_atoms"] or po["offset_atoms"]):
                rec.note("as-unit:ratio:refused:unit-with-zero-point-offset-cannot-be-multiplied")     # documented restriction of unyt
                rec.count("as-unit-raised:offset-unit-in-arithmetic")
                continue
            rec.violation(f"C15:as-unit:{form}:raises:{type(e).__name__}:{sfx}:{ns}:{pk}",
                          f"{ns}:{name}{suffix} = {obj!r} used as a unit: {form} of a probe {po['value']!r} {po['unit']} raised "
                          f"{type(e).__name__}: {str(e)[:200]}", case)
            continue
        tol = 4 * ULP * (nat + len(po["atoms"]) + 4)
        err = relerr(got, want)
        track["max_as_unit_relerr_ulp"] = max(track.get("max_as_unit_relerr_ulp", 0.0), min(err / ULP, 1e18))
        if err > tol:
            rec.violation(f"C15:as-unit:{form}:measure-differs:{sfx}:{ns}:{pk}:{fam}",
                          f"{ns}:{name}{suffix} = {obj!r} used as a unit: a probe of {po['value']!r} {po['unit']} ({po['mag']!r} in coherent "
                          f"base units; the constant is {o['mag']!r}) measures {got!r} by '{form}', expected {want!r} (rel {err:.3g}, "
                          f"allowed {tol:.2g})", case)
        else:
            rec.ok(("as-unit", form, pk, canon, sfx, ns))
            rec.count("as-unit:" + form)
            rec.count("as-unit-family:" + fam)
            rec.count("as-unit-probe:" + pk.split(":")[0])
        if u is not None:
            # the Unit object the library made of the constant (result units of to/in_units/convert_to_units, Unit(constant))
            bad = None
            try:
                atoms = []
                sc, dm = eval_expr(u.expr, make_resolver(lut, extra, atoms, cfg.get("offsets"), []))
                ud = dims.of_expr(u.dimensions)
                bv = float(u.base_value)
                if dm != o["dim"] or ud != o["dim"]:
                    bad = ("unit-dimension-differs", f"dimension {dims.show(ud)} (expression reads {dims.show(dm)}), the constant has {dims.show(o['dim'])}")
                elif relerr(bv, o["mag"]) > tol:
                    bad = ("unit-base-value-differs", f"base_value {bv!r}, the constant is {o['mag']!r} in coherent base units (rel {relerr(bv, o['mag']):.3g})")
                elif relerr(sc, o["mag"]) > tol:
                    bad = ("unit-expression-differs", f"expression {str(u.expr)!r} reads as {sc!r} in coherent base units, the constant is {o['mag']!r}")
            except Unreadable as e:
                bad = ("unit-unreadable", str(e))
            if bad:
                rec.violation(f"C15:as-unit:{form}:{bad[0]}:{sfx}:{ns}", f"{ns}:{name}{suffix} = {obj!r} used as a unit by '{form}' gives the "
                              f"Unit {u!r}: {bad[1]}", case)
            else:
                rec.ok(("as-unit-unit", form, canon, sfx, ns))
                rec.count("as-unit-unit:" + form)
    # ---- a unit of the same name in the registry of the namespace must measure the same number
    cache = cfg.setdefault("_units", {})
    if name not in cache:
        try:
            un = unyt.Unit(name, registry=reg)
            if not isinstance(un, unyt.Unit):
                un = None
        except Exception:
            un = None
        if un is not None:
            r_ = names.resolve(name)
            if r_ is not None and dlut.get(r_[1]) is not None and lut.get(r_[1]) is not None and lut[r_[1]][0] != dlut[r_[1]][0]:
                rec.note("as-unit:unit-of-same-name-redefined-in-this-registry")
                un = None
        cache[name] = un
    un = cache[name]
    if un is None or not probes:
        return
    if dims.of_expr(un.dimensions) != o["dim"]:
        rec.count("as-unit:same-name-unit-of-other-dimension")
        return
    for pk, mk, po in (probes if full else probes[rot % len(probes):][:1]):
        if po["dim"] != o["dim"]:
            continue
        try:
            n_c = float(mk().to_value(q))
            n_u = float(mk().to_value(un))
        except Exception as e:
            rec.violation(f"C15:as-unit:unit-of-same-name:raises:{type(e).__name__}:{sfx}:{ns}", f"{ns}:{name}{suffix} = {obj!r} and the unit "
                          f"{name!r}: to_value raised {type(e).__name__}: {str(e)[:200]}", {"name": name + suffix, "namespace": ns})
            continue
        tol = 4 * ULP * (nat + len(po["atoms"]) + 4)
        err = relerr(n_c, n_u)
        if err > tol:
            rec.violation(f"C15:as-unit:unit-of-same-name:measure-differs:{canon}",
                          f"a probe of {po['value']!r} {po['unit']} measures {n_c!r} in the constant {ns}:{name}{suffix} = {obj!r} and {n_u!r} "
                          f"in the unit {name!r} of the same registry (rel {err:.3g}): same name, different quantity",
                          {"name": name + suffix, "namespace": ns, "probe": pk})
        else:
            rec.ok(("as-unit-same-name", canon, name, sfx, ns, pk))
            rec.count("as-unit:unit-of-same-name")


def judge_relations(rec, vals, ns, form, track, only=None):
    for rname, needs, fn in K.RELATIONS:
        if only is not None and rname not in only:
            continue
        if any(n not in vals for n in needs):
            rec.note(f"relation-operand-missing:{rname}:{form}")
            continue
        try:
            lhs, rhs = fn(vals)
        except Exception as e:     # e.g. sqrt of a negative number after a sign flip
            rec.violation(f"C15:relation:{rname}:not-evaluable:{form}", f"{rname} on {ns}: {type(e).__name__}: {e}", {"relation": rname})
            continue
        err = relerr(lhs, rhs)
        track["max_relation_resid_ulp"] = max(track.get("max_relation_resid_ulp", 0.0), err / ULP)
        if err > 8 * ULP:
            rec.violation(f"C15:relation:{rname}:residual:{form}",
                          f"{rname} evaluated on the {form} magnitudes of {ns}: lhs {lhs!r} rhs {rhs!r} (rel {err:.3g} > 8 ulp)",
                          {"relation": rname, "namespace": ns, "operands": {n: vals[n] for n in needs}})
        else:
            rec.ok(("relation", rname, form, ns))
            rec.count("relation:" + form)
            rec.reach("relation:" + rname)


def judge_double_role(unyt, rec, A, get, src, where):
    """every constant name that also yields a Unit of the same dimension must carry the constant's magnitude"""
    for name, canon in K.NAME2CANON.items():
        c = K.C[canon]
        try:
            u = get(name)
        except Exception:
            u = None
        if u is None or not isinstance(u, unyt.Unit):
            rec.count("double-role:not-a-unit")
            continue
        d = dims.of_expr(u.dimensions)
        if d != c.dim:
            rec.note(f"homonym-of-different-dimension:{name}")
            continue
        if canon not in A:
            continue
        listed = "listed" if canon in K.DOUBLE_ROLE_LISTED else "unlisted"
        err = relerr(float(u.base_value), A[canon])
        if err > 4 * ULP:
            rec.violation(f"C15:double-role:value-differs:{canon}",
                          f"the unit {name!r} ({src}, {where} registry) is {float(u.base_value)!r} in SI base units, the constant {name} is "
                          f"{A[canon]!r} (rel {err:.3g}); same name, same dimension, different quantity",
                          {"name": name, "source": src, "listed": listed, "registry": where})
        else:
            rec.ok(("double-role", canon, name, src, where))
            rec.count("double-role:" + listed)
            rec.reach("double-role:" + canon)


def judge_published(unyt, rec, pc, counter="published"):
    """SI magnitude of every <X>_mks within the uncertainty class of the published value"""
    for canon, c in K.C.items():
        q = getattr(pc, canon + "_mks", None)
        case = {"constant": canon, "guise": repr(q)}
        try:
            o = observe(unyt, q, None, None, si=True)
        except Exception as e:
            rec.violation(f"C15:published:not-in-SI-units:{canon}", f"unyt.physical_constants.{canon}_mks = {q!r}: {e}", case)
            continue
        if o["dim"] != c.dim:
            rec.violation(f"C15:published:dimension:{canon}", f"{canon}_mks = {q!r}: dimension {dims.show(o['dim'])}, published quantity "
                          f"has {dims.show(c.dim)}", case)
            continue
        err = relerr(o["mag"], c.value)
        if err > c.tol:
            rec.violation(f"C15:published:out-of-class:{canon}",
                          f"{canon}_mks = {q!r}; published value {c.value!r} (class '{c.cls}' rel {c.tol:g}); off by rel {err:.3g}", case)
        else:
            rec.ok((counter, canon, c.cls))
            rec.count(counter)


def si_bare_values(unyt, pc):
    """bare numbers of the *_mks guises (coherent SI, every scale is exactly 1)"""
    vals = {}
    for canon in K.C:
        q = getattr(pc, canon + "_mks", None)
        try:
            o = observe(unyt, q, None, None, si=True)
        except Exception:
            continue
        if canon != "Na":
            vals[canon] = o["value"] * o["scale"]
    return vals


def cgs_raw(cgs):
    """raw CGS numbers of the mechanical constants (all atoms are cgs units by the system-units monitor)"""
    return {k: v for k, (v, atoms) in cgs.items() if all(a in K.SYSTEM_UNITS["cgs"] for a in atoms)}


def build_registry(unyt, spec):
    """-> (registry, extra resolver entries, allowed unit atoms for plain guises, has_current, namespace kind)"""
    from unyt.unit_systems import UnitSystem
    kind = spec["kind"]
    udim = {"L": unyt.dimensions.length, "M": unyt.dimensions.mass, "T": unyt.dimensions.time, "K": unyt.dimensions.temperature,
            "M L2 T-2": unyt.dimensions.energy}
    extra = {}
    if kind == "plain":
        return unyt.UnitRegistry(), extra, K.SYSTEM_UNITS["mks"], True, "registry:default"
    if kind == "system":
        s, how = spec["system"], spec["how"]
        if how == "name":
            reg = unyt.UnitRegistry(unit_system=s)
        elif how == "object":
            reg = unyt.UnitRegistry(unit_system=getattr(unyt.unit_systems, s + "_unit_system"))
        elif how == "lut":
            reg = unyt.UnitRegistry(lut=dict(unyt.unit_registry.default_unit_registry.lut), unit_system=s)
        else:   # a registry restored from its JSON form; the unit system is not part of that form and is set again by the user
            reg = unyt.UnitRegistry.from_json(unyt.UnitRegistry(unit_system=s).to_json())
            reg.unit_system = unyt.unit_systems.unit_system_registry[s]
        return reg, extra, K.SYSTEM_UNITS[s], s != "cgs", "registry:" + s
    if kind == "added":
        reg = unyt.UnitRegistry()
        for sym, sc, dspec in spec["add"]:
            reg.add(sym, sc, udim[dspec])
            extra[sym] = (sc, dims.D(dspec))
        return reg, extra, K.SYSTEM_UNITS["mks"], True, "registry:added-symbols"
    if kind == "modified":
        reg = unyt.UnitRegistry()
        for sym, val in spec["modify"]:
            reg.modify(sym, val)
        return reg, extra, K.SYSTEM_UNITS["mks"], True, "registry:modified-homonyms"
    if kind == "code":
        reg = unyt.UnitRegistry()
        for sym, sc, dspec in spec["add"]:
            reg.add(sym, sc, udim[dspec])
            extra[sym] = (sc, dims.D(dspec))
        kw = {}
        if spec["temperature"]:
            kw["temperature_unit"] = spec["temperature"]
        kw["current_mks_unit"] = spec["current"]
        us = UnitSystem(spec["name"], "code_length", "code_mass", "code_time", registry=reg, **kw)
        reg.unit_system = us
        allowed = set(K._common) | {(1.0, s[0]) for s in spec["add"]} | ({(1.0, "K")} if not spec["temperature"] else set())
        if spec["current"]:
            allowed.add((1.0, "A"))
        return reg, extra, allowed, bool(spec["current"]), "registry:code-units" + ("" if spec["current"] else "-nocurrent")
    if kind == "custom":
        UnitSystem(spec["name"], spec["length"], spec["mass"], spec["time"], temperature_unit=spec["temperature"],
                   current_mks_unit=spec["current"])
        reg = unyt.UnitRegistry(unit_system=spec["name"])
        allowed = set(K._common)
        for k in ("length", "mass", "time", "temperature", "current"):
            if spec[k]:
                f, sym, _ = names.resolve(spec[k])
                allowed.add((f, sym))
        return reg, extra, allowed, bool(spec["current"]), "registry:generated-system" + ("" if spec["current"] else "-nocurrent")
    raise ValueError(kind)


# ------------------------------------------------------------------ non-plain unit systems: re-expression doors
RE_DOORS = ("in_base", "in_base:named", "in_base:object", "in_mks", "in_cgs", "in_base:other-system", "convert_to_base:copy",
            "module-constant:in_base:named")


def reexpress_call(unyt, door, q, sysname, other):
    from unyt.unit_systems import unit_system_registry
    if door == "in_base":
        return q.in_base()
    if door == "in_base:named":
        return q.in_base(unit_system=sysname)
    if door == "in_base:object":
        return q.in_base(unit_system_registry[sysname])
    if door == "in_mks":
        return q.in_mks()
    if door == "in_cgs":
        return q.in_cgs()
    if door == "in_base:other-system":
        return q.in_base(unit_system=other)
    if door == "convert_to_base:copy":
        t = q.copy()                       # in place on the harness's own copy; the constant is only read
        t.convert_to_base(unit_system=sysname)
        return t
    raise ValueError(door)


def judge_reexpress(unyt, rec, A, get, ns, sysname, others, lut, extra, offsets, track, private_registry):
    """every guise of the namespace of a non-plain unit system re-expressed through the routes add_constants itself uses (in_base
    with the system given implicitly / by name / as an object, in_mks, in_cgs, the in-place twin on a copy) and into another unit
    system, and the module constant reduced into this system: the result, read by the harness (absolute reading when its unit is one
    bare offset symbol), is still the constant.  UnitsNotReducible is accepted as add_constants accepts it."""
    import unyt.physical_constants as pc
    dlut = unyt.unit_registry.default_unit_registry.lut
    rot = 0
    for canon, c in K.C.items():
        if canon not in A:
            continue
        heavy = c.dim[3] != 0 or c.dim[5] != 0          # temperature or current in the dimension: every door for every guise
        for suffix in SUFFIXES:
            sfx = suffix or "plain"
            for source in ("namespace", "module"):
                if source == "namespace":
                    q, qlut, qextra, qoff = get(canon + suffix), lut, extra, offsets
                    doors = RE_DOORS[:7]
                else:
                    if private_registry:
                        continue        # the symbols of a private registry are unknown to the default registry of the module constant
                    q, qlut, qextra, qoff = getattr(pc, canon + suffix, None), dlut, None, None
                    doors = RE_DOORS[7:]
                if not isinstance(q, unyt.unyt_quantity):
                    continue
                try:
                    so = observe(unyt, q, qlut, qextra, offsets=qoff)
                except Unreadable:
                    continue
                swant = A[canon] * (K.EM_PAIR[c.dim][1] if (c.dim in K.EM_PAIR and so["dim"] == K.EM_PAIR[c.dim][0]) else 1.0)
                if relerr_span(so["mag"], swant, so["span"]) > 4 * ULP * (len(so["atoms"]) + 2):
                    rec.count("reexpress:source-guise-already-off")        # judged by the guise monitor; its re-expressions are consequences
                    continue
                if not heavy and source == "namespace":
                    rot += 1
                    doors = (doors[rot % 7], doors[(rot * 3 + 1) % 7])
                for door in doors:
                    other = others[rot % len(others)] if others else "mks"
                    rot += door == "in_base:other-system"
                    case = {"constant": canon, "name": canon + suffix, "namespace": ns, "door": door, "source": [so["value"], so["unit"]],
                            "other_system": other if door == "in_base:other-system" else None}
                    try:
                        if source == "module":
                            r = q.in_base(unit_system=sysname)
                        else:
                            r = reexpress_call(unyt, door, q, sysname, other)
                    except Exception as e:
                        if type(e).__name__ == "UnitsNotReducible":
                            rec.note(f"reexpress:not-reducible:{canon}:{door}")
                            rec.count("reexpress-not-reducible")
                            continue
                        rec.violation(f"C15:reexpress:{door}:raises:{type(e).__name__}:{sfx}:{ns}",
                                      f"{ns}:{canon}{suffix} = {q!r} ({source} guise): {door} raised {type(e).__name__}: {str(e)[:200]}", case)
                        continue
                    try:
                        o = observe(unyt, r, qlut, qextra, offsets=qoff)
                    except Ambiguous:
                        rec.note(f"reexpress:{door}:offset-symbol-on-a-unit-object-without-offset:not-judged")
                        rec.count("reexpress-ambiguous-offset-unit")
                        continue
                    except Unreadable as e:
                        rec.violation(f"C15:reexpress:{door}:result-unreadable:{sfx}:{ns}", f"{ns}:{canon}{suffix} = {q!r}: {door} gives {r!r}: {e}", case)
                        continue
                    want = A[canon]
                    if o["dim"] == c.dim:
                        route = "direct"
                    elif c.dim in K.EM_PAIR and o["dim"] == K.EM_PAIR[c.dim][0]:
                        want, route = want * K.EM_PAIR[c.dim][1], "gaussian"
                    else:
                        rec.violation(f"C15:reexpress:{door}:dimension-differs:{sfx}:{ns}",
                                      f"{ns}:{canon}{suffix} = {q!r}: {door} gives {r!r} of dimension {dims.show(o['dim'])}; {canon} is "
                                      f"{dims.show(c.dim)}", case)
                        continue
                    tol = 4 * ULP * (len(o["atoms"]) + len(so["atoms"]) + 4)
                    err = relerr_span(o["mag"], want, max(o["span"], so["span"]))
                    track["max_reexpress_relerr_ulp"] = max(track.get("max_reexpress_relerr_ulp", 0.0), min(err / ULP, 1e18))
                    kind = "offset-scale" if o["affine"] else ("offset-interval" if o["offset_atoms"] else "plain-scaling")
                    if err > tol:
                        rec.violation(f"C15:reexpress:{door}:value-differs:{sfx}:{ns}:{kind}",
                                      f"{ns}:{canon}{suffix} = {q!r} ({source} guise, {so['mag']!r} in coherent SI units): {door}"
                                      f"{'(' + other + ')' if door == 'in_base:other-system' else ''} gives {r!r} which is {o['mag']!r} in coherent "
                                      f"SI units ({kind}); unyt.physical_constants.{canon}_mks is {want!r} (rel {err:.3g}, allowed {tol:.2g}, "
                                      f"route {route})", case)
                    else:
                        rec.ok(("reexpress", door, canon, sfx, ns, kind))
                        rec.count("reexpress:" + door)
                        rec.count("reexpress-result:" + kind)


def run_nonplain(unyt, rec, A, spec, track, state):
    """one unit system of vf/gen/c15_nonplain.py: construction, add_constants, every coherence monitor, the re-expression doors"""
    from unyt.unit_systems import add_constants
    from vf.gen import c15_nonplain as NP
    fam = spec["family"]
    ns = "registry:nonplain:" + fam

    def resolve(name):
        r = names.resolve(name)
        if r is None:
            raise KeyError(name)
        return r[0], r[1]

    def table_scale(lut, sym):
        ent = lut.get(sym)
        return float(ent[0]) if ent is not None else float(defs.T[sym].value)
    try:
        reg, extra, offsets, allowed, has_current, info = NP.build(unyt, spec, resolve, table_scale)
    except Exception as e:
        rec.note(f"registry-not-constructible:nonplain:{fam}:{type(e).__name__}")
        rec.count("registry-not-constructible")
        rec.count("nonplain-not-constructible:" + fam)
        return
    space = {}
    try:
        add_constants(space, reg)
    except Exception as e:
        rec.violation(f"C15:add_constants:raises:{ns}:{type(e).__name__}", f"add_constants(ns, registry) for {spec} raised "
                      f"{type(e).__name__}: {e}", spec)
        return
    ctx = {"offsets": offsets, "sysinfo": info}
    mks, cgs = judge_namespace(unyt, rec, A, space.get, ns, allowed, reg.lut, extra, has_current, track,
                               asunit=as_unit_cfg(unyt, reg, False, 2, spec.get("asunit_alias", 1), offsets), ctx=ctx)
    judge_relations(rec, mks, ns, "SI", track)
    judge_relations(rec, cgs_raw(cgs), ns, "raw-CGS", track, only=K.MECHANICAL)
    judge_reexpress(unyt, rec, A, space.get, ns, spec["name"], state["others"], reg.lut, extra, offsets, track, bool(spec["code"]))
    if not spec["code"]:
        state["others"].append(spec["name"])
    rec.count("registries")
    rec.count("nonplain:" + fam)
    for d, b in spec["base"].items():
        if b is not None and (b["coeff"] is not None or b["unit"] != NP.DEFAULT[d]):
            rec.count("nonplain-door:" + b["how"])
    rec.reach("namespace:" + ns)
    rec.sample({"registry": spec, "Tcmb": repr(space.get("Tcmb")), "kb": repr(space.get("kb")), "qp": repr(space.get("qp"))}, limit=2)


# ------------------------------------------------------------------ 'constants survive being used'
FULL_EVERY = 1000      # full snapshot comparison of every tracked object after this many calls


CALL_LIMIT = 10.0      # seconds of wall clock one driven call may take; longer calls are abandoned and counted, never judged


class _CallTimeout(BaseException):
    pass


def _on_alarm(sig, frame):
    raise _CallTimeout()


class Guard:
    """runs one driven call under an interval timer: a call that does not come back (sympy raising a unit to the 6e23rd power) is
    abandoned; after five such calls the limit drops to one second"""

    def __init__(self):
        import signal
        self.signal = signal
        self.limit = CALL_LIMIT
        self.timeouts = 0
        signal.signal(signal.SIGALRM, _on_alarm)

    def __call__(self, fn, *a, **k):
        sig = self.signal
        try:
            sig.setitimer(sig.ITIMER_REAL, self.limit)
            try:
                fn(*a, **k)
                return "returned"
            except Exception:
                return "raised"
            finally:
                sig.setitimer(sig.ITIMER_REAL, 0)
        except _CallTimeout:
            self.timeouts += 1
            if self.timeouts >= 5:
                self.limit = 1.0
            return "timeout"


def _sfx(n):
    if n in K.LEGACY:
        return K.LEGACY[n][1]
    return "_mks" if n.endswith("_mks") else ("_cgs" if n.endswith("_cgs") else "plain")


def run_usage(unyt, rec, A, bid, payload, track):
    """one history: snapshot every guise -> battery of read-only library calls with constants as operands -> byte-for-byte comparison
    and the coherence monitors once more, in the same process"""
    import warnings
    import numpy as np
    import unyt.physical_constants as pc
    from unyt.unit_systems import add_constants
    from vf.gen import c15_usage as UG
    from vf.monitors.c15_snapshot import Tracker, show
    warnings.simplefilter("ignore")
    np.seterr(all="ignore")
    tier, seed = payload["tier"], payload["seed"]
    r = core.rng(seed, "C15", bid)
    dlut = unyt.unit_registry.default_unit_registry.lut
    # ---- namespaces held for the whole history
    held = {}
    specs = [{"kind": "system", "system": s, "how": "name"} for s in BUILTIN] + ([payload["generated"]] if payload.get("generated") else [])
    for spec in specs:
        label = "sys-" + spec["system"] if spec["kind"] == "system" else "sys-generated"
        try:
            reg, extra_, allowed, has_current, ns = build_registry(unyt, spec)
            space = {}
            add_constants(space, reg)
        except Exception as e:
            rec.note(f"usage:held-namespace-not-constructible:{label}:{type(e).__name__}")
            continue
        held[label] = (reg, space, extra_, allowed, has_current, ns)
    # ---- snapshot before
    tr = Tracker()
    for n, v in list(vars(pc).items()):
        if not n.startswith("_") and isinstance(v, unyt.unyt_array):
            tr.track(v, "module:" + _sfx(n), "unyt.physical_constants." + n)
            tr.bound("module", lambda k: getattr(pc, k, None), n, v)
            t = getattr(unyt, n, None)
            if isinstance(t, unyt.unyt_array):
                tr.track(t, "toplevel:" + _sfx(n), "unyt." + n)
                tr.bound("toplevel", lambda k: getattr(unyt, k, None), n, t)
    for label, h in held.items():
        for n, v in h[1].items():
            if isinstance(v, unyt.unyt_array):
                tr.track(v, label + ":" + _sfx(n), f"add_constants[{label}].{n}")
                tr.bound(label, h[1].get, n, v)
    rec.count("usage:tracked-objects", len(tr.objs))
    T = UG.templates(unyt)
    N = UG.nullary(unyt)
    nc, cat = UG.catalogue_cases()
    heldns = {label: (h[0], h[1]) for label, h in held.items()}
    # ---- the cases (enumerated), then a seeded order
    cases = []
    per_canon = {}
    for ci, canon in enumerate(payload["canons"]):
        c = K.C[canon]
        x = getattr(pc, canon, None)
        if x is None or not tr.tracked(x):
            rec.note("usage:constant-absent:" + canon)
            continue
        other = getattr(pc, payload["other"], None)
        P = UG.partners(unyt, pc, heldns, canon, c.names, other, x)
        if tier != "quick":
            P += [("alias", getattr(pc, n)) for n in c.names[2:] if getattr(pc, n, None) is not None]
            P += [(label + "_mks", h[1][canon + "_mks"]) for label, h in held.items() if canon + "_mks" in h[1] and label in ("sys-cgs", "sys-generated")]
        G = [(k, o) for k, o in P if k != "same-object" and tr.tracked(o)]
        G.insert(0, ("plain", x))
        Tm = [(k, o) for k, o in P if not tr.tracked(o)]
        per_canon[canon] = (G, Tm)
        for ti, (tname, fam, arity, fn) in enumerate(T):
            if arity == 1:
                cases += [("T", ti, canon, gi, None) for gi in range(len(G))]
                continue
            if tier == "quick":
                pairs = [(0, j) for j in range(len(G))] + [(j, 0) for j in range(1, len(G))]
                pairs += [(r.randrange(len(G)), r.randrange(len(G))) for _ in range(3)]
                tp = [(0, -1 - j) for j in range(len(Tm))] + [(-1 - j, 0) for j in range(len(Tm))]
            else:
                pairs = [(i, j) for i in range(len(G)) for j in range(len(G))]
                tp = [(i, -1 - j) for i in range(len(G)) for j in range(len(Tm))] + [(-1 - j, i) for i in range(len(G)) for j in range(len(Tm))]
            cases += [("T", ti, canon, i, j) for i, j in pairs + tp]
    canons = list(per_canon)
    if not canons:
        return
    for k in range(len(N)):
        cases.append(("N", k))
    for k in range(len(cat)):
        for canon in (canons if tier != "quick" else [canons[k % len(canons)]]):
            cases.append(("C", k, canon))
    rounds = 1 if tier == "quick" else 2
    recent = []

    def judge_operand(tname, fam, i, obj, kinds, labels):
        d, before, after = tr.changed(obj)
        if d == ["unit-object"]:
            rec.note(f"usage:equal-unit-object-attached:{tname}")
            d = []
        me = kinds[i]
        oth = "+".join(k for j, k in enumerate(kinds) if j != i) or "alone"
        if d:
            rec.violation(f"C15:survive:{tname}:arg{i}:{'+'.join(d)}:{me}-with-{oth}",
                          f"{labels[i]} was {show(before)} and is {show(after)} after the read-only call {tname}({', '.join(labels)}) "
                          f"[operand kinds {', '.join(kinds)}]; the shared constant object no longer denotes the same quantity",
                          {"template": tname, "operands": labels, "kinds": kinds, "changed": labels[i]})
        else:
            rec.ok(("survive", tname, "arg%d" % i, me, oth))
            rec.count("survive:" + fam)

    def full_check(why):
        for i, o in tr.objs.items():
            d, before, after = tr.changed(o)
            if d and d != ["unit-object"]:
                rec.violation(f"C15:survive:{why}:bystander:{'+'.join(d)}:{tr.kind[i]}",
                              f"{tr.label[i]} was {show(before)} and is {show(after)}; it was not an operand of any call since the last full "
                              f"comparison (calls since then include {sorted(set(recent))[:12]})",
                              {"object": tr.label[i], "recent": sorted(set(recent))[:40]})
        rec.ok(("survive-bystanders", why))
        rec.count("survive:bystanders", len(tr.objs))
        del recent[:]

    def lab(o, kind):
        return tr.label[id(o)] if tr.tracked(o) else f"<{kind}>"

    ncalls = 0
    guard = Guard()
    for rnd in range(rounds):
        r.shuffle(cases)
        for case in cases:
            ncalls += 1
            if case[0] == "T":
                _, ti, canon, i, j = case
                tname, fam, arity, fn = T[ti]
                G, Tm = per_canon[canon]
                pick = lambda k: G[k] if k >= 0 else Tm[-1 - k]
                ops = [pick(i)] if j is None else [pick(i), pick(j)]
                kinds = [k for k, _ in ops]
                objs = [o for _, o in ops]
                if len(objs) == 2 and objs[0] is objs[1]:
                    kinds[1] = "same-object"
                labels = [lab(o, k) for k, o in ops]
                how = guard(fn, *objs)
                rec.count(f"usage-{how}:{fam}")
                if how == "timeout":
                    rec.note("usage:call-abandoned-after-limit:" + tname)
                recent.append(tname)
                seen = set()
                for k, o in enumerate(objs):
                    if tr.tracked(o) and id(o) not in seen:
                        seen.add(id(o))
                        judge_operand(tname, fam, k, o, kinds, labels)
            elif case[0] == "N":
                tname, fn = N[case[1]]
                rec.count("usage-%s:rematerialise" % guard(fn))
                recent.append(tname)
                full_check(tname)
                rec.count("survive:rematerialise")
            else:
                _, k, canon = case
                t = cat[k]
                G, Tm = per_canon[canon]
                x = G[0][1]
                pk, p = G[(k + rnd) % len(G)]
                y = getattr(pc, payload["other"], None)
                try:
                    call = t.build(nc.Gen(r, "f8", "0d", "gen"))
                    args, kwargs, leaves = UG.realise_with_constants(nc, unyt, call, x, p, y)
                except Exception:
                    rec.count("usage:catalogue-not-built")
                    continue
                how = guard(lambda: t.observe(args, kwargs, t.invoke(args, kwargs)))
                rec.count("usage-%s:numpy-catalogue" % how)
                tname = "np-catalogue:" + t.tid
                if how == "timeout":
                    rec.note("usage:call-abandoned-after-limit:" + tname)
                recent.append(tname)
                tl = [(path, o) for path, q, o in leaves if tr.tracked(o)]
                kinds = [("plain" if o is x else (pk if o is p else "other-constant")) for _, o in tl]
                labels = [tr.label[id(o)] for _, o in tl]
                seen = set()
                for n_, (path, o) in enumerate(tl):
                    if id(o) not in seen:
                        seen.add(id(o))
                        judge_operand(tname, "numpy-catalogue", n_, o, kinds, labels)
            if ncalls % FULL_EVERY == 0:
                full_check("battery")
        full_check("battery")
    rec.count("usage:calls", ncalls)
    # ---- after the battery: byte-for-byte against the first look, bindings, and every coherence monitor once more
    for i, o in tr.objs.items():
        d, before, after = tr.drift(o)
        if d and d != ["unit-object"]:
            rec.violation(f"C15:after-use:snapshot-differs:{'+'.join(d)}:{tr.kind[i]}",
                          f"{tr.label[i]} was {show(before)} when unyt was imported and is {show(after)} after {ncalls} read-only library "
                          f"calls that took constants as operands", {"object": tr.label[i]})
        else:
            rec.ok(("after-use-snapshot", tr.kind[i]))
            rec.count("after-use:snapshot")
    for nslabel, name, was, now in tr.rebound():
        rec.violation(f"C15:after-use:rebound:{nslabel}:{_sfx(name)}", f"{nslabel} name {name} was bound to {was!r} and is now bound to {now!r}",
                      {"namespace": nslabel, "name": name})
    if not tr.rebound():
        rec.ok(("after-use-bindings",))
        rec.count("after-use:bindings", len(tr.bind))
    e0 = rec.evals
    mks, cgs = judge_namespace(unyt, rec, A, lambda n: getattr(pc, n, None), "module:after-use", K.SYSTEM_UNITS["mks"], dlut, None, True, track)
    judge_relations(rec, mks, "module:after-use", "SI:after-use", track)
    judge_relations(rec, cgs_raw(cgs), "module:after-use", "raw-CGS:after-use", track, only=K.MECHANICAL)
    mks, cgs = judge_namespace(unyt, rec, A, lambda n: getattr(unyt, n, None), "toplevel:after-use", K.SYSTEM_UNITS["mks"], dlut, None, True, track)
    judge_relations(rec, mks, "toplevel:after-use", "SI:after-use", track)
    for label, (reg, space, extra_, allowed, has_current, ns) in held.items():
        mks, cgs = judge_namespace(unyt, rec, A, space.get, ns + ":after-use", allowed, reg.lut, extra_, has_current, track)
        judge_relations(rec, mks, ns + ":after-use", "SI:after-use", track)
        judge_relations(rec, cgs_raw(cgs), ns + ":after-use", "raw-CGS:after-use", track, only=K.MECHANICAL)
    judge_relations(rec, si_bare_values(unyt, pc), "module:after-use", "SI-bare:after-use", track)
    judge_published(unyt, rec, pc, counter="published:after-use")
    judge_double_role(unyt, rec, A, lambda n: unyt.Unit(n), "Unit(str)", "default:after-use")
    rec.count("after-use:coherence", rec.evals - e0)
    rec.sample({"usage": bid, "calls": ncalls, "tracked": len(tr.objs), "G": repr(pc.G), "G_cgs": repr(pc.G_cgs)}, limit=1)


# ------------------------------------------------------------------ worker
def worker(batch, rec):
    import unyt
    import unyt.physical_constants as pc
    from unyt.unit_systems import add_constants
    bid, (kind, payload) = batch
    track = {}
    A = anchors(unyt, rec)
    dlut = unyt.unit_registry.default_unit_registry.lut
    if kind == "module":
        mks, cgs = judge_namespace(unyt, rec, A, lambda n: getattr(pc, n, None), "module", K.SYSTEM_UNITS["mks"], dlut, None, True, track,
                                   asunit=as_unit_cfg(unyt, unyt.unit_registry.default_unit_registry, True, 2))
        judge_relations(rec, mks, "module", "SI", track)
        judge_relations(rec, cgs_raw(cgs), "module", "raw-CGS", track, only=K.MECHANICAL)
        # names exported by the module that the reference does not know
        known = {n + s for n in K.NAME2CANON for s in SUFFIXES} | set(K.LEGACY)
        for n, v in vars(pc).items():
            if not n.startswith("_") and isinstance(v, unyt.unyt_quantity) and n not in known:
                rec.note("exported-name-unknown-to-reference:" + n)
        rec.sample({"constant": "me", "guises": {n: repr(getattr(pc, n, None)) for n in ("me", "electron_mass_mks", "mass_electron_cgs")}})
    elif kind == "toplevel":
        mks, cgs = judge_namespace(unyt, rec, A, lambda n: getattr(unyt, n, None), "toplevel", K.SYSTEM_UNITS["mks"], dlut, None, True, track,
                                   asunit=as_unit_cfg(unyt, unyt.unit_registry.default_unit_registry, True, 2))
        judge_relations(rec, mks, "toplevel", "SI", track)
        rec.sample({"toplevel": {n: repr(getattr(unyt, n, None)) for n in ("G", "hbar", "c", "mp", "Msun_cgs")}})
    elif kind == "relations":
        # the relations once more on the bare numbers of the *_mks guises (coherent SI, every scale is exactly 1)
        vals = si_bare_values(unyt, pc)
        judge_relations(rec, vals, "module", "SI-bare", track)
        rec.sample({"relation": "eps_0*mu_0*c**2", "value": vals.get("eps_0", 0) * vals.get("mu_0", 0) * vals.get("c", 0) ** 2})
    elif kind == "published":
        judge_published(unyt, rec, pc)
        rec.sample({"published": {"G": [repr(pc.G_mks), K.C["G"].value, "grav"]}})
    elif kind == "double-role":
        import unyt.unit_symbols as us
        judge_double_role(unyt, rec, A, lambda n: unyt.Unit(n), "Unit(str)", "default")
        judge_double_role(unyt, rec, A, lambda n: getattr(us, n, None), "unit_symbols", "default")
        # unjudged: unyt's mol is the pure number 1/amu_grams while Na comes from avogadros_number
        na = getattr(pc, "Na", None)
        if na is not None and relerr(float(na.d), 1.0) > 4 * ULP:
            rec.note("Na-times-mol-differs-from-1(two-table-ratios,inside-CODATA-class)")
        rec.sample({"double-role": {"me": [repr(unyt.Unit("me").base_value), repr(pc.me)]}})
    elif kind == "usage":
        run_usage(unyt, rec, A, bid, payload, track)
    elif kind == "registries":
        state = {"others": list(BUILTIN)}
        for spec in payload:
            if spec["kind"] == "nonplain":
                run_nonplain(unyt, rec, A, spec, track, state)
                continue
            try:
                reg, extra, allowed, has_current, ns = build_registry(unyt, spec)
            except Exception as e:
                rec.note(f"registry-not-constructible:{spec['kind']}:{type(e).__name__}")
                rec.count("registry-not-constructible")
                continue
            space = {}
            try:
                add_constants(space, reg)
            except Exception as e:
                rec.violation(f"C15:add_constants:raises:{ns}:{type(e).__name__}", f"add_constants(ns, registry) for {spec} raised "
                              f"{type(e).__name__}: {e}", spec)
                continue
            full = spec["kind"] in ("plain", "added", "modified") or (spec["kind"] == "system" and spec["how"] == "name")
            mks, cgs = judge_namespace(unyt, rec, A, space.get, ns, allowed, reg.lut, extra, has_current, track,
                                       asunit=as_unit_cfg(unyt, reg, full, 2, spec.get("asunit_alias", 1)))
            judge_relations(rec, mks, ns, "SI", track)
            judge_relations(rec, cgs_raw(cgs), ns, "raw-CGS", track, only=K.MECHANICAL)
            if spec["kind"] in ("plain", "system", "added") or (spec["kind"] in ("code", "custom") and spec["name"].endswith("0")):
                judge_double_role(unyt, rec, A, lambda n: unyt.Unit(n, registry=reg), "Unit(str,registry)", ns.split(":", 1)[1])
            rec.count("registries")
            rec.reach("namespace:" + ns)
            rec.sample({"registry": spec, "G": repr(space.get("G")), "qp": repr(space.get("qp"))}, limit=1)
    for k, v in track.items():
        rec.reach("%s<=%d" % (k, math.ceil(min(v, 1e18)) if v == v else 10 ** 18))     # merged by max in extra()


CATALOGUE = (["constant:" + c for c in K.C] + ["relation:" + r[0] for r in K.RELATIONS] +
             ["double-role:" + c for c in K.DOUBLE_ROLE_LISTED] +
             ["namespace:registry:" + s for s in BUILTIN + ("default", "added-symbols", "modified-homonyms", "code-units",
                                                            "generated-system", "generated-system-nocurrent")] +
             ["namespace:registry:nonplain:" + f for f in
              ("offset-temperature", "scaled-base", "angle", "current", "derived-override", "offset-code-unit", "mixed")])


def extra(tier, seed, results):
    reached, counters, maxes = set(), {}, {}
    for bid, r in results:
        for name in r.get("reached", []):
            if name.startswith("max_") and "<=" in name:
                k, _, v = name.partition("<=")
                maxes[k] = max(maxes.get(k, 0), int(v))
            else:
                reached.add(name)
        for k, v in r.get("counters", {}).items():
            counters[k] = counters.get(k, 0) + v
    need = ("guise:plain", "guise:_mks", "guise:_cgs", "guise-route:gaussian", "system-units:plain", "system-units:_cgs", "relation:SI",
            "relation:raw-CGS", "relation:SI-bare", "published", "double-role:listed", "registries")
    # 'constants survive being used': every family of calls must have been driven (returned at least once) and judged, and the
    # comparisons and monitors after the battery must have run
    from vf.gen import c15_usage as UG
    fams = UG.FAMILIES + ("numpy-catalogue", "rematerialise")
    need += tuple("survive:" + f for f in fams) + tuple("usage-returned:" + f for f in fams)
    # 'a constant used as a unit': every call form, every probe family, the Unit objects made of constants and the same-name units
    need += tuple("as-unit:" + f for f in AS_FORMS) + tuple("as-unit-unit:" + f for f in ("to", "in_units", "convert_to_units", "Unit"))
    need += ("as-unit-family:same-dimension", "as-unit-family:si-probe-gaussian-constant", "as-unit-family:gaussian-probe-si-constant",
             "as-unit-probe:own-units", "as-unit-probe:si-base", "as-unit-probe:paired", "as-unit-probe:units-of-mks-guise",
             "as-unit-probe:units-of-cgs-guise", "as-unit-probe:units-of-plain-guise", "as-unit:unit-of-same-name")
    need += ("survive:bystanders", "after-use:snapshot", "after-use:bindings", "after-use:coherence", "relation:SI:after-use",
             "relation:raw-CGS:after-use", "relation:SI-bare:after-use", "published:after-use")
    # non-plain unit systems: every family built and judged, every door a base unit can come through, pure temperatures read as
    # absolute readings on an offset scale, offset symbols inside products, the unit-size clause, every re-expression door
    from vf.gen import c15_nonplain as NP
    need += tuple("nonplain:" + f for f in NP.FAMILIES) + tuple("nonplain-door:" + h for h in NP.HOWS)
    need += ("guise-affine:plain", "guise-offset-interval:plain", "system-scale:plain", "reexpress-result:offset-scale",
             "reexpress-result:offset-interval", "reexpress-result:plain-scaling") + tuple("reexpress:" + d for d in RE_DOORS)
    zero = [n for n in need if counters.get(n, 0) == 0]
    viol = any(r.get("viol") for _, r in results)
    if zero and not viol:
        raise core.Inconclusive("sub-monitors-evaluated-0-times:" + ",".join(zero))
    return {"unreached": sorted(set(CATALOGUE) - reached), "monitor_calls": {k: counters[k] for k in sorted(counters)},
            "max_observed": maxes}
