"""C17 - conversions and mixed-unit arithmetic never truncate to integers.

Oracle: exact rational conversion (vf/ref/c17_exact.py: Fraction scales from vf/ref/defs.py) compared with the observed
result at the spacing of the IEEE formats on the route (result format for conversions, per-operand formats for binary
ufuncs); dtype rule max(2, itemsize) for integer input, width kept
for float/complex; copy and in-place routes compared with each other; warnings recorded with warnings.catch_warnings.
History monitor (batches hist/<dtype>/<route>): one child converts each ordered unit pair first with one dtype through one
route and then with every dtype through every route; every later result is judged by the same oracle at its own float
type, and a failing observation is repeated by a pristine twin process (vf/monitors/c17_pristine.py) to decide whether it
depends on what was converted before (key C17:history:...:after-<first dtype>-first) or not (the ordinary key)."""
import math
import warnings
from fractions import Fraction as Fr

import numpy as np

from vf import core
from vf.ref import c17_exact as X

RULE = ("one evaluation = one observed result object (array, 0-d array or quantity; or one required-warning observation; or one "
        "copy/in-place pair) judged against the exact rational conversion rounded to the float format(s) of the route, "
        "its dtype rule, and the RuntimeWarning rule.  distinct cell = (sub-monitor, route or ufunc/form, input dtype(s), unit "
        "pair, container form) with at least one non-zero, non-identity value.  History batches: one evaluation = one such "
        "result observed in a process whose FIRST conversion of that ordered unit pair was made with a named dtype through a named "
        "route (the first conversion is itself judged); distinct cell = (history, first dtype, first route) + the cell above.  "
        "Caller-owned buffers (batches outbuf/<dtype>): one call of a mixed-unit binary ufunc with out= a bare ndarray or a unyt "
        "buffer of any integer/float/complex width - by keyword, as 1-tuple or positionally; plain, where=-masked, ufunc.outer, "
        "strided or 0-d - gives TWO evaluations, the returned object and the caller's buffer, each owed float dtype of the "
        "buffer's item size and the exact values (masked-out elements: the number held before); a refusal is one evaluation; "
        "where= without out= judges the addressed elements only; ufunc.at judges the first operand afterwards.  "
        "Value axis (batches valaxis/<dtype>): one group = one (ufunc, call form, operand position, operand spelling, dtypes, unit "
        "pair); its control call (ordinary reading 3 in the same spelling) is one evaluation; every special value (zero, one, "
        "minus-one, dtype max/min) gives one dtype evaluation (floating kind, the dtype of the control, no refusal) and one value "
        "evaluation; distinct cell = (ufunc, form, position, spelling, value class, dtypes)")
ASSUMPTIONS = (
    "trusted base: NumPy casting/promotion, Python Fraction arithmetic, vf/ref/defs.py exact unit definitions, "
    "vf/ref/names.py name resolution; the unit *label* of a result is read from str(result.units) and interpreted by the reference",
    "conversion values: |observed - exact| <= K ulp of the result's float format (K=8 conversions, 16 equivalences), ulp taken "
    "at the largest intermediate magnitude (scaled value, offsets); exact values beyond the format's maximum must be +-inf "
    "(IEEE rounding of the mathematically converted value)",
    "mixed-unit binary ufuncs: each operand is modelled as a float of its *own* item size (the second one after conversion "
    "into the first one's unit, where it may be subnormal or exceed the format: then +-inf and IEEE arithmetic are the "
    "expected result, counted under binary:operand-overflows-own-float-width); tolerance K=16 times the sum of the operands' "
    "and the result's ulps; remainder/fmod/floor_divide/comparisons within that tolerance of a discontinuity or tie are "
    "skipped (notes binary-near-*)",
    "float16 range effects are findings, keyed by mechanism rather than by ufunc/dtype pair: factor-outside-float-range "
    "(conversion factor itself not a normal float16), constant-overflows-float (c in an equivalence formula), "
    "int-exceeds-float-max (uint16 >= 65520 cast before scaling), raw-quotient-out-of-float-range (a/b before the "
    "dimensionless factor)",
    "dtype rule for conversions is exact: integer kinds -> float of max(2, itemsize); float/complex keep their dtype; for "
    "mixed-unit binary ufuncs the item size is a lower bound (NumPy promotion is outside unyt, DESIGN 4.2) and exact only "
    "when both operands are float/complex (result component width = the wider operand's)",
    "a raise is accepted ('or raises when no such float type exists') only where an 8-bit integer *buffer* would have to hold "
    "the result (in-place conversion routes, out=/in-place operators on an int8/uint8 first operand); recorded as note "
    "refused:8bit:*; any other raise (copy routes, an 8-bit second operand: float16 exists, 'at least 16 bits') is a violation",
    "RuntimeWarning clause judged one-directionally: a RuntimeWarning (any) must be recorded whenever some integer element is "
    "not exactly representable in the float type of the observed result; warnings that were not required are notes; the "
    "workload for this clause uses factors < 1 so that NumPy's own float-overflow warnings cannot satisfy it by accident",
    "RuntimeWarning clause is judged on the conversion routes named by the quantifier; for mixed-unit binary ufuncs and list "
    "coercion (the statement says 'are converted') absence of the warning is recorded as a note, not judged",
    "a (family,width) that does not warn far beyond the limit is reported once as ...:beyond-limit; the at-limit+1 probe is "
    "then the same mechanism and only noted",
    "converting to the *same* unit, integer multiply (a*b keeps int, no conversion involved), divmod (no rescaling at all: "
    "C04's subject) and __setitem__ into an integer buffer (NumPy assignment semantics, outside the quantifier) are not judged; "
    "setitem truncation is recorded as a note",
    "copy/in-place agreement: same dtype and values within 2K ulp (each route has its own rounding sequence); a dtype "
    "disagreement already reported as a dtype violation of one of the two routes is not reported twice",
    "longdouble/clongdouble results are judged at float64 spacing (the conversion factor is a float64)",
    "dtype histories: the property quantifies over inputs, not over process states, so a result owes the same exact value at "
    "its own float type whatever the process converted before; the history batches use the same oracle and tolerances as the "
    "isolated ones (no bit-identity demand between histories: a leak below K ulp of the result's own type is not a violation)",
    "history control: a failing observation is repeated, from the same plain data, in a grandchild of a twin process forked "
    "before the batch converted anything; identical key in the twin -> reported under the ordinary key (not history dependent, "
    "so known findings keep their keys); twin holds or fails differently -> C17:history:<ordinary key>:after-<first dtype "
    "class>-first; twin unavailable -> reported under the history key with that remark (never dropped).  The twin is asked once "
    "per (key, unit pair) and batch, once per key for dtype keys (the key names the whole observable)",
    "history workload: first dtypes float16/float32/int16/int32 (narrow) and float64/complex128/int64/uint64 (wide), thorough "
    "also complex64/uint16/uint32/int8/uint8; first routes to, in_units, to_value, convert_to_units, in_base, convert_to_base, "
    "mixed-unit add, floor_divide and Unit.get_conversion_factor(other, dtype) (a public call that is only a driver, its return "
    "value is not judged); base routes start a history only on pairs whose destination is the mks base equivalent, binary "
    "ufuncs only on pairs without offset/EM units; equivalence routes have no per-pair factor and are not part of histories",
    "caller-owned out= buffers: the rule for a buffer is the rule for in-place conversion of data of the buffer's dtype - both the "
    "returned object and the buffer end as float of max(2, buffer itemsize) (complex buffers stay complex) holding the exact "
    "values at K=16 ulp of the operands' own formats and the buffer's format; a raise is accepted for 8-bit integer buffers (no "
    "float8) and for a *bare* integer ndarray of any width (the buffer belongs to the caller: refusing to retype it is the other "
    "outcome the property licenses; note refused:plain-int-buffer), not for unyt buffers of >= 16 bits nor for float buffers; "
    "NumPy's own refusal to store a complex result in a real buffer is a note",
    "elements masked out by where= (or not addressed by ufunc.at) still owe the number the buffer held before, as a float of the "
    "buffer's new type (an integer buffer is retyped as a whole): key ...:unaddressed-element:changed; when the new content is the "
    "old one times the quotient's dimensionless unit factor the key is C17:true_divide/out:unaddressed-element:scaled-by-unit-factor "
    "(one mechanism whatever dtypes/buffer); with where= and no out= the unaddressed elements are uninitialised and not judged",
    "a buffer wider than both operands: NumPy evaluates in the promoted float type of the operands (int8 with float16 -> float16) "
    "and stores afterwards; inf for a result beyond that narrower type's range is NumPy's promotion, not unyt's (counter "
    "outbuf:overflow-in-numpy-loop-type); for true_divide the raw quotient formed in that type before unyt's unit factor is the "
    "known raw-quotient-out-of-float-range mechanism",
    "known mechanisms of the second operand's rescaling (int-exceeds-float-max, factor-outside-float-range, raw-quotient-...) keep "
    "their binary/out and true_divide/out keys whoever owns the buffer (same code path); ordinary failures through caller-owned "
    "buffers are keyed <ufunc>/out-nd[-buffer] (bare ndarray) and <ufunc>/out-un[-buffer] (unyt buffer), dtype failures by buffer class",
    "ufunc.at on unit-carrying data is not implemented by unyt (RuntimeError: three inputs): a refusal cannot truncate and is "
    "recorded as note refused:ufunc.at; if it ever returns, the first operand is judged like an out= buffer of its own dtype; "
    "ufunc.outer accepts out= by keyword/tuple only (NumPy signature)",
    "true_divide whose dimensionless unit factor (J/erg) is not a normal number of the narrow float holding the quotient is the "
    "factor-outside-float-range mechanism (keyed like the conversion routes), not a plain value failure",
    "value axis: the dtype of a mixed-unit result is owed as a function of the operands' dtypes, units, spellings and shapes alone. "
    "NumPy's own promotion is value independent (NEP 50; the workload passes no bare Python scalars), so a dtype that differs "
    "between a special value (zero, one, minus-one, dtype max/min) and the control (reading 3, everything else identical) is unyt's "
    "doing: an integer result is keyed <ufunc>/value-axis:int-result, another float width <ufunc>/value-axis:dtype-depends-on-value "
    "(at most one of the two widths is 'the same item size'), a refusal where the control returns <ufunc>/value-axis:raises; a "
    "control that itself fails is reported under the ordinary <ufunc>/call key and its group is not judged; values of special "
    "operands are judged by the ordinary binary oracle and keep the ordinary keys",
    "value axis, operators: `array < quantity` is dispatched by Python to the reflected method of the subclass first "
    "(np.greater(quantity, array)), so there the ARRAY is the operand unyt rescales; the reference models the call the interpreter "
    "really makes (counter valaxis:reflected-comparison-dispatch), arithmetic operators keep their order; ufunc.reduce/accumulate "
    "take one unit-carrying operand (no mixed units) and are not part of the value axis",
    "value axis: nextafter and heaviside follow the same unit rule as add but have no exact model here: judged for dtype only",
)
MIN_EVALS = 20000
TIMEOUT = 1500

INTS = ["i1", "i2", "i4", "i8", "u1", "u2", "u4", "u8"]
FLOATS = ["f2", "f4", "f8"]
CPLX = ["c8", "c16"]
EXTRA_DT = ["g", "G", ">i4", ">f4", ">u2"]          # thorough only: longdouble, clongdouble, big-endian
MANT = {2: 11, 4: 24, 8: 53}

# (source, destination) with exactly defined scales; the last ones carry an offset
# ... ("J","N*m"), ("Hz","1/s"): distinct units of identical scale (factor exactly 1: still "another unit", still float)
PAIRS_QUICK = [("km", "m"), ("m", "km"), ("ft", "m"), ("inch", "cm"), ("degC", "degF"), ("km/hr", "m/s"), ("J", "erg"), ("T", "G"),
               ("J", "N*m"), ("Hz", "1/s")]
PAIRS_MORE = [("mile", "km"), ("lb", "kg"), ("hr", "min"), ("min", "hr"), ("degC", "K"), ("degF", "degC"), ("K", "degC"),
              ("g/cm**3", "kg/m**3"), ("delta_degF", "delta_degC"), ("yd", "inch"), ("mm", "m"), ("G", "T"), ("C", "statC"),
              ("statA", "A"), ("W", "J/s"), ("Pa", "N/m**2"), ("delta_degC", "K"), ("L", "dm**3")]
BASE_SRC_QUICK = ["km", "ft", "lb", "degC", "km/hr", "G"]
BASE_SRC_MORE = ["hr", "mile", "J", "inch", "erg", "degF", "mm", "T", "statC"]
EQS = [("spectral", "m", "1/cm", "recip"), ("spectral", "km", "Hz", "c_over"), ("mass_energy", "g", "J", "mc2"),
       # nonlinear formulas: the first step of the library's chain (x**4, x*x) is where integer data could wrap around
       ("effective_temperature", "K", "W/m**2", "sigmaT4"), ("sound_speed", "m/s", "K", "cs2")]
NONLINEAR = ("sigmaT4", "cs2")
_LIBCONST = {}


def lib_const(name):
    """the library's own constant (C15's subject) as an exact rational of its SI float"""
    if name not in _LIBCONST:
        import unyt
        q = getattr(unyt.physical_constants, name)
        _LIBCONST[name] = Fr(float(q.in_mks().d) if hasattr(q, "in_mks") else float(q))
    return _LIBCONST[name]
C_LIGHT = Fr(299792458)

COPY_ROUTES = ("to", "in_units", "to_value", "to(Unit)")
INPLACE_ROUTES = ("convert_to_units",)
BASE_COPY = ("in_base", "in_base(cgs)", "in_cgs", "in_mks", "in_base(imperial)")
BASE_INPLACE = ("convert_to_base", "convert_to_base(cgs)", "convert_to_cgs", "convert_to_mks", "convert_to_base(imperial)")
EQ_COPY = ("to_equivalent", "to(equivalence)", "in_units(equivalence)", "to_value(equivalence)")
EQ_INPLACE = ("convert_to_equivalent", "convert_to_units(equivalence)")
FAMILY = {}
for _r in COPY_ROUTES:
    FAMILY[_r] = "in_units"
for _r in INPLACE_ROUTES + BASE_INPLACE:
    FAMILY[_r] = "convert_to_units"
for _r in BASE_COPY:
    FAMILY[_r] = "in_base"
for _r in EQ_COPY:
    FAMILY[_r] = "to_equivalent"
for _r in EQ_INPLACE:
    FAMILY[_r] = "convert_to_equivalent"
AGREE = [("to", "convert_to_units"), ("in_base", "convert_to_base"), ("in_base(cgs)", "convert_to_base(cgs)"),
         ("in_cgs", "convert_to_cgs"), ("in_mks", "convert_to_mks"), ("in_base(imperial)", "convert_to_base(imperial)"),
         ("to_equivalent", "convert_to_equivalent"), ("to(equivalence)", "convert_to_units(equivalence)")]

UF_QUICK = ["add", "subtract", "maximum", "less", "hypot", "remainder", "true_divide"]
UF_MORE = ["minimum", "fmax", "fmin", "fmod", "greater", "less_equal", "greater_equal", "equal", "not_equal", "arctan2",
           "floor_divide"]
COMPARE = {"less", "greater", "less_equal", "greater_equal", "equal", "not_equal"}
CPLX_OK = {"add", "subtract", "true_divide", "equal", "not_equal"}
OPER = {"add": "+", "subtract": "-", "less": "<", "greater": ">", "less_equal": "<=", "greater_equal": ">=", "equal": "==",
        "not_equal": "!=", "remainder": "%", "true_divide": "/", "floor_divide": "//"}
INPLACE_OP = {"add", "subtract", "remainder", "true_divide", "floor_divide"}
BIN_UNITS = [("m", "inch"), ("inch", "m"), ("km", "m"), ("min", "hr")]
ALL_ROUTES = COPY_ROUTES + INPLACE_ROUTES + BASE_COPY + BASE_INPLACE + EQ_COPY + EQ_INPLACE


# ------------------------------------------------------------------ dtype helpers
def dts(tier):
    return INTS + FLOATS + CPLX + (EXTRA_DT if tier == "thorough" else [])


def cls_of(dt):
    d = np.dtype(dt)
    if d.kind in "iu":
        return "int%d" % (8 * d.itemsize)
    return d.newbyteorder("=").name


def comp_size(d):
    d = np.dtype(d)
    if d.kind == "c":
        return d.itemsize // 2
    if d.kind in "iub":
        return max(2, d.itemsize)
    return d.itemsize


def finfo_for(d):
    """reference float format of the components of dtype d (longdouble judged as float64)"""
    return X.BY_SIZE[min(8, comp_size(d))]


def expected_conv_dtype(dt):
    d = np.dtype(dt)
    if d.kind in "iu":
        return np.dtype("f%d" % max(2, d.itemsize))
    return d.newbyteorder("=")


def same_dtype(a, b):
    return np.dtype(a).newbyteorder("=") == np.dtype(b).newbyteorder("=")


# ------------------------------------------------------------------ value generators
def int_values(dt, r, nrand):
    d = np.dtype(dt)
    ii = np.iinfo(d)
    vals = [0, 1, 3, 7, 100]
    if ii.min < 0:
        vals += [-1, -3, -100]
    for p in (11, 24, 53):
        for dd in (-1, 0, 1, 3):
            v = 2 ** p + dd
            if v <= ii.max:
                vals.append(v)
                if ii.min < 0 and dd in (1, 3):
                    vals.append(-v)
    vals += [int(ii.max), int(ii.max) - 1, int(ii.min)]
    for _ in range(nrand):
        bl = r.randint(1, ii.bits - (1 if ii.min < 0 else 0))
        v = r.getrandbits(bl)
        if ii.min < 0 and r.random() < 0.4:
            v = -v
        vals.append(max(int(ii.min), min(int(ii.max), v)))
    out = []
    for v in vals:
        if v not in out:
            out.append(v)
    return out


def float_values(dt, r, nrand, specials=True):
    d = np.dtype(dt)
    fi = np.finfo(d)
    nm = min(fi.nmant, 52)
    vals = [0.0, 1.0, -1.0, 0.5, 1.5, 3.25, 1.0 / 3.0, 100.0, float(2 ** (nm + 1) - 1), float(2 ** (nm + 1)),
            float(fi.max) if d.itemsize <= 8 else 1e300, -float(fi.max) if d.itemsize <= 8 else -1e300,
            float(fi.tiny) if d.itemsize <= 8 else 1e-300, float(fi.smallest_subnormal) if d.itemsize <= 8 else 1e-310]
    for _ in range(nrand):
        vals.append(r.choice([-1, 1]) * r.uniform(1, 2) * 2.0 ** r.randint(-12, 14))
    if specials:
        vals += [float("inf"), float("-inf"), float("nan")]
    # round through the dtype so that the exact model starts from what is really stored
    with np.errstate(all="ignore"):
        arr = np.array(vals, dtype=d.newbyteorder("="))
    return [float(x) for x in arr]


def complex_values(dt, r, nrand):
    d = np.dtype(dt)
    part = "f%d" % (d.itemsize // 2) if d.itemsize <= 16 else "g"
    vals = [1 + 2j, 0.5 - 3.25j, -7 + 0j, 1j, 100 + (1.0 / 3.0) * 1j, 3 - 4j]
    for _ in range(nrand):
        vals.append(complex(r.uniform(-1, 1) * 2.0 ** r.randint(-8, 10), r.uniform(-1, 1) * 2.0 ** r.randint(-8, 10)))
    arr = np.array(vals, dtype=d)
    return [complex(float(np.asarray(z.real, dtype=part)), float(np.asarray(z.imag, dtype=part))) for z in arr]


def values_for(dt, r, nrand, specials=True):
    k = np.dtype(dt).kind
    if k in "iu":
        return int_values(dt, r, nrand)
    if k == "f":
        return float_values(dt, r, nrand, specials)
    return complex_values(dt, r, nrand)


def to_exact(v):
    """stored value -> (re, im) with Fraction or special strings; im None for real data"""
    def one(x):
        if isinstance(x, int):
            return Fr(x)
        if x != x:
            return "nan"
        if x in (float("inf"), float("-inf")):
            return "+inf" if x > 0 else "-inf"
        return Fr(x)
    if isinstance(v, complex):
        return one(v.real), one(v.imag)
    return one(v), None


def make_array(dt, vals):
    d = np.dtype(dt)
    if d.kind in "iu":
        return np.array([int(v) for v in vals], dtype=object).astype(d)
    with np.errstate(all="ignore"):
        return np.array(vals, dtype=d)


# ------------------------------------------------------------------ expectations
def conv_expect(vals, src, dst):
    """list of (re_exact, im_exact_or_None, mags)"""
    out = []
    for v in vals:
        re, im = to_exact(v)
        if isinstance(re, str):
            out.append((re, im, ()))
            continue
        e, mags = X.convert_exact(re, src, dst)
        ime = None
        if im is not None:
            ime = im if isinstance(im, str) else X.convert_scale_exact(im, src, dst)
        out.append((e, ime, mags))
    return out


def equiv_expect(vals, src, dst, how):
    s1, _ = X.unit_exact(src)
    s2, _ = X.unit_exact(dst)
    out = []
    for v in vals:
        re, im = to_exact(v)
        if im is None:
            if how == "sigmaT4":
                e = lib_const("stefan_boltzmann_constant_mks") * (re * s1) ** 4 / s2
            elif how == "cs2":            # T = mu*mh*v**2/(gamma*kb) with the documented defaults mu=0.6, gamma=5/3
                e = Fr(6, 10) * lib_const("mass_hydrogen_mks") * (re * s1) ** 2 / (Fr(5, 3) * lib_const("boltzmann_constant_mks")) / s2
            elif how == "recip":
                e = 1 / (re * s1) / s2
            elif how == "c_over":
                e = C_LIGHT / (re * s1) / s2
            else:
                e = re * s1 * C_LIGHT * C_LIGHT / s2
            out.append((e, None, ()))
        else:
            if how == "mc2":
                k = s1 * C_LIGHT * C_LIGHT / s2
                out.append((re * k, im * k, ()))
            else:
                k = (1 if how == "recip" else C_LIGHT) / s1 / s2
                n = re * re + im * im
                out.append((k * re / n, -k * im / n, (abs(k * re / n), abs(k * im / n))))
    return out


# ------------------------------------------------------------------ containers
def forms_for(tier):
    return ["arr1d", "arr2d", "strided", "0d", "quantity"]


def build(unyt, form, dt, vals, unit):
    """-> list of (object, indices of vals held in C order)"""
    d = np.dtype(dt)
    n = len(vals)
    if form == "arr1d":
        return [(unyt.unyt_array(make_array(dt, vals), unit), list(range(n)))]
    if form == "arr2d":
        m = n - (n % 2)
        return [(unyt.unyt_array(make_array(dt, vals[:m]).reshape(2, m // 2), unit), list(range(m)))]
    if form == "strided":
        zero = 0 if d.kind in "iu" else (0j if d.kind == "c" else 0.0)
        inter = []
        for v in vals:
            inter += [v, zero]
        return [(unyt.unyt_array(make_array(dt, inter), unit)[::2], list(range(n)))]
    if form == "0d":
        a = make_array(dt, vals)
        return [(unyt.unyt_array(a[i].reshape(()).copy(), unit), [i]) for i in range(n)]
    if form == "quantity":
        a = make_array(dt, vals)
        return [(unyt.unyt_quantity(a[i], unit), [i]) for i in range(n)]
    raise ValueError(form)


def call_route(unyt, route, obj, dst, eq=None):
    """run the real entry point; returns the object holding the result (obj itself for in-place routes)"""
    if route == "to":
        return obj.to(dst)
    if route == "in_units":
        return obj.in_units(dst)
    if route == "to_value":
        return obj.to_value(dst)
    if route == "to(Unit)":
        return obj.to(unyt.Unit(dst))
    if route == "convert_to_units":
        obj.convert_to_units(dst)
        return obj
    if route == "in_base":
        return obj.in_base()
    if route == "in_base(cgs)":
        return obj.in_base("cgs")
    if route == "in_base(imperial)":
        return obj.in_base("imperial")
    if route == "in_cgs":
        return obj.in_cgs()
    if route == "in_mks":
        return obj.in_mks()
    if route == "convert_to_base":
        obj.convert_to_base()
        return obj
    if route == "convert_to_base(cgs)":
        obj.convert_to_base("cgs")
        return obj
    if route == "convert_to_base(imperial)":
        obj.convert_to_base("imperial")
        return obj
    if route == "convert_to_cgs":
        obj.convert_to_cgs()
        return obj
    if route == "convert_to_mks":
        obj.convert_to_mks()
        return obj
    if route == "to_equivalent":
        return obj.to_equivalent(dst, eq)
    if route == "to(equivalence)":
        return obj.to(dst, equivalence=eq)
    if route == "in_units(equivalence)":
        return obj.in_units(dst, equivalence=eq)
    if route == "to_value(equivalence)":
        return obj.to_value(dst, equivalence=eq)
    if route == "convert_to_equivalent":
        obj.convert_to_equivalent(dst, eq)
        return obj
    if route == "convert_to_units(equivalence)":
        obj.convert_to_units(dst, equivalence=eq)
        return obj
    raise ValueError(route)


def observe(fn):
    """run fn under a recording warnings filter -> (result or None, exception or None, list of warning category names)"""
    with warnings.catch_warnings(record=True) as w:
        warnings.simplefilter("always")
        with np.errstate(all="warn"):
            try:
                r, e = fn(), None
            except Exception as ex:          # noqa: BLE001 - "raises" = any Exception (DESIGN 1.10)
                r, e = None, ex
    return r, e, [(x.category.__name__, str(x.message)[:60]) for x in w if not issubclass(x.category, DeprecationWarning)]


def flat(res):
    """observed result -> (dtype or None for python scalars, list of python float/complex)"""
    if isinstance(res, (float, int, complex)) and not isinstance(res, np.generic):
        return None, [res]
    a = np.asarray(res)
    if a.dtype.kind == "c":
        return a.dtype, [complex(z) for z in a.ravel()]
    if a.dtype.kind in "iub":
        return a.dtype, [int(z) for z in a.ravel()]
    return a.dtype, [float(z) for z in a.ravel()]


# ------------------------------------------------------------------ judging one conversion result
def judge_values(gotvals, exps, fi, K, complex_in):
    """-> None or (index, failure kind, got, (re, im))"""
    for i, (g, (re, im, mags)) in enumerate(zip(gotvals, exps)):
        if complex_in:
            if not isinstance(g, complex):
                return i, "imag-dropped", g, (re, im)
            f = X.judge(g.real, re, fi, K, mags)
            if f:
                return i, f, g, (re, im)
            f = X.judge(g.imag, im, fi, K, mags + ((abs(im),) if isinstance(im, Fr) else ()))
            if f:
                return i, ("imag-dropped" if g.imag == 0 and im != 0 else "imag-" + f), g, (re, im)
        else:
            if isinstance(g, complex):
                if g.imag != 0:
                    return i, "spurious-imag", g, (re, im)
                g = g.real
            f = X.judge(float(g), re, fi, K, mags)
            if f:
                return i, f, g, (re, im)
    return None


def show(e):
    if isinstance(e, tuple):
        return "(" + ", ".join(show(x) for x in e if x is not None) + ")"
    if isinstance(e, Fr):
        return repr(float(e)) if abs(e) < Fr(10) ** 300 else "~1e%d" % (len(str(abs(e.numerator))) - len(str(e.denominator)))
    return str(e)


def judge_conversion(rec, route, dt, form, src, dst_label, res, idxs, exps_all, K, ratio, state, invals=None, const=None, nonlinear=False):
    """apply kind / dtype / value rules to one result; returns True when everything held"""
    fam = FAMILY[route]
    cl = cls_of(dt)
    din = np.dtype(dt)
    gdt, gvals = flat(res)
    exps = [exps_all[i] for i in idxs]
    case = {"route": route, "dtype": dt, "form": form, "from": src, "to": dst_label}
    want = expected_conv_dtype(dt)
    if gdt is None:
        # python scalar from to_value on a quantity: holds any float format exactly; only kind and values are judged
        if din.kind == "c" and not isinstance(gvals[0], complex):
            rec.violation(f"C17:{fam}:complex-lost:{cl}", f"{route} of {dt} quantity {src}->{dst_label} returned {type(gvals[0]).__name__} {gvals[0]!r}", case)
            return False
        if isinstance(gvals[0], int):
            rec.violation(f"C17:{fam}:int-result:{cl}", f"{route} of {dt} quantity {src}->{dst_label} returned int {gvals[0]!r}", case)
            return False
        fi = finfo_for(want)
    else:
        if gdt.kind in "iub":
            ex0 = exps[0][0]
            rec.violation(f"C17:{fam}:int-result:{cl}", f"{route} ({form}) of {dt} data {src}->{dst_label} returned integer dtype {gdt} "
                          f"values {gvals[:4]} (exact {[show(e[0]) for e in exps[:4]]})", case)
            return False
        if din.kind == "c" and gdt.kind != "c":
            rec.violation(f"C17:{fam}:complex-lost:{cl}", f"{route} ({form}) of {dt} data {src}->{dst_label} returned {gdt}", case)
            return False
        ok_dt = same_dtype(gdt, want)
        if not ok_dt:
            state["dtype_bad"].add(route)
            rec.violation(f"C17:{fam}:dtype:{cl}->{gdt.newbyteorder('=').name}", f"{route} ({form}) of {dt} data {src}->{dst_label} returned dtype {gdt}; "
                          f"the rule (and the in_units route) gives {want}", case)
        fi = finfo_for(gdt)
    bad = judge_values(gvals, exps, fi, K, din.kind == "c")
    if bad:
        i, kind, g, ex = bad
        vin = invals[idxs[i]] if invals is not None else None
        if ratio is not None and (ratio > fi.max or ratio < Fr(2) ** fi.minexp):
            kind = "factor-outside-float-range"      # the conversion factor itself is not a normal number of the data's float type
        elif const is not None and const > fi.max:
            kind = "constant-overflows-float"        # the physical constant of the equivalence formula is not representable
        elif isinstance(vin, int) and abs(vin) >= fi.max + X.ulp(fi.max, fi) / 2:
            kind = "int-exceeds-float-max"           # the integer itself rounds to inf in the float of its item size
        state["value_bad"].add(route)
        if nonlinear and din.itemsize < 8 and kind in ("inf", "truncated", "value", "nan"):
            # a nonlinear formula chain (x*x, x**4, products with 1e-27 / 1e-23 constants) evaluated in the data's own narrow
            # float width: one mechanism whatever the narrow dtype, keyed by what the narrow arithmetic did to the result
            rec.violation(f"C17:{fam}:narrow-width-nonlinear-chain:{kind}", f"{route} ({form}) of {dt} data {src}->{dst_label}: element {idxs[i]} came back {g!r} "
                          f"({gdt}); exact conversion gives {show(ex)}", case)
            return False
        rec.violation(f"C17:{fam}:{kind}:{cl}", f"{route} ({form}) of {dt} data {src}->{dst_label}: element {idxs[i]} came back {g!r} "
                      f"({gdt}); exact conversion gives {show(ex)}", case)
        return False
    if gdt is not None and not same_dtype(gdt, want):
        return False
    return True


def agree(rec, a, b, fi, K, exps):
    """copy vs in-place observed values -> None or description.  Tolerance 2K ulp at the largest intermediate magnitude
    of the exact model (scaled value, offsets), because each route has its own rounding sequence."""
    (da, va), (db, vb) = a, b
    if len(va) != len(vb):
        return "shape"
    inf = float("inf")
    for x, y, (re, im, mags) in zip(va, vb, exps):
        parts = ((x.real, y.real, re), (x.imag, y.imag, im)) if isinstance(x, complex) or isinstance(y, complex) else ((x, y, re),)
        for p_, q_, e in parts:
            if p_ != p_ or q_ != q_:
                if (p_ != p_) != (q_ != q_):
                    return f"{x!r} vs {y!r}"
                continue
            if p_ == q_:
                continue
            ms = [m for m in mags] + ([abs(e)] if isinstance(e, Fr) else [])
            if abs(p_) == inf or abs(q_) == inf:
                fin = q_ if abs(p_) == inf else p_
                if abs(fin) == inf or abs(Fr(fin)) < fi.max - 2 * K * X.ulp(fi.max, fi):
                    return f"{x!r} vs {y!r}"
                continue
            tol = 2 * K * max([X.ulp(Fr(p_), fi), X.ulp(Fr(q_), fi)] + [X.ulp(m, fi) for m in ms])
            if abs(Fr(p_) - Fr(q_)) > tol:
                return f"{x!r} vs {y!r}"
    return None


# ------------------------------------------------------------------ batches
def batches(tier, seed):
    b = []
    for dt in dts(tier):
        b.append((f"conv/{dt}", ("conv", dt, tier, seed)))
        b.append((f"base/{dt}", ("base", dt, tier, seed)))
        b.append((f"equiv/{dt}", ("equiv", dt, tier, seed)))
        b.append((f"binary/{dt}", ("binary", dt, tier, seed)))
        b.append((f"outbuf/{dt}", ("outbuf", dt, tier, seed)))
    for dt in INTS:
        # value axis: the batch dtype is the dtype of the operand that holds the special value
        b.append((f"valaxis/{dt}", ("valaxis", dt, tier, seed)))
    if tier == "thorough":
        # extra derived random streams (the batch id seeds the generator) for the parts with random values
        for k in (1, 2):
            for dt in INTS + FLOATS + CPLX:
                b.append((f"conv/{dt}#{k}", ("conv", dt, tier, seed)))
                b.append((f"binary/{dt}#{k}", ("binary", dt, tier, seed)))
    for w in (2, 4, 8):
        b.append((f"warn/{w}", ("warn", w, tier, seed)))
    b.append(("misc", ("misc", None, tier, seed)))
    # dtype histories: one child per (dtype, route) that is the FIRST to convert each unit pair in that process
    thorough = tier == "thorough"
    for fdt in HIST_FIRST_DT_QUICK + (HIST_FIRST_DT_MORE if thorough else []):
        for fr in HIST_FIRST_QUICK + (HIST_FIRST_MORE if thorough else []):
            if np.dtype(fdt).kind == "c" and ":" in fr and fr.split(":")[1] not in CPLX_OK:
                continue
            b.append((f"hist/{fdt}/{fr}", ("hist", [fdt, fr], tier, seed)))
    return b


def worker(batch, rec):
    import unyt
    from vf.monitors import c17_taps
    taps = c17_taps.install(unyt)
    bid, (kind, arg, tier, seed) = batch
    r = core.rng(seed, bid)
    try:
        if kind in ("conv", "base", "equiv"):
            run_conversions(unyt, rec, kind, arg, tier, r)
        elif kind == "binary":
            run_binary(unyt, rec, arg, tier, r)
        elif kind == "outbuf":
            run_outforms(unyt, rec, arg, tier, r)
        elif kind == "valaxis":
            run_valaxis(unyt, rec, arg, tier, r)
        elif kind == "warn":
            run_warn(unyt, rec, arg, tier, r)
        elif kind == "hist":
            run_history(unyt, rec, arg[0], arg[1], tier, seed, r)
        else:
            run_misc(unyt, rec, tier, r)
    finally:
        for k, v in taps.calls.items():
            rec.count("tap:" + k.split(":")[0], v)
            rec.reach("entry:" + k.split(":")[0] + ":" + (k.split(":")[1] if not k.startswith("__array_ufunc__") else "ufunc"))
        rec.count("passive_evals", taps.passive_evals)
        for (name, din, dout, u0, u1) in taps.passive_bad:
            rec.violation(f"C17:passive:{name}:int-result:{cls_of(din)}", f"{name} on {din} data relabelled {u0}->{u1} left integer dtype {dout} "
                          f"(seen by the entry-point tap during batch {bid})", {"entry": name, "dtype": din})
        if taps.passive_evals > len(taps.passive_bad):
            rec.ok(("passive-kind-contract", kind), n=taps.passive_evals - len(taps.passive_bad))


def run_conversions(unyt, rec, kind, dt, tier, r):
    thorough = tier == "thorough"
    nrand = 12 if thorough else 3
    d = np.dtype(dt)
    vals = values_for(dt, r, nrand)
    forms = forms_for(tier)
    if kind == "conv":
        jobs = [(s, t, None) for (s, t) in PAIRS_QUICK + (PAIRS_MORE if thorough else [])]
        copy_routes, inpl_routes, K = COPY_ROUTES, INPLACE_ROUTES, 8
    elif kind == "base":
        jobs = [(s, None, None) for s in BASE_SRC_QUICK + (BASE_SRC_MORE if thorough else [])]
        copy_routes = BASE_COPY if thorough else BASE_COPY[:4]
        inpl_routes = BASE_INPLACE if thorough else BASE_INPLACE[:4]
        K = 8
    else:
        jobs = [(s, t, (eq, how)) for (eq, s, t, how) in EQS]
        copy_routes, inpl_routes, K = EQ_COPY, EQ_INPLACE, 16
    scalar_cap = None if thorough else 14
    for (src, dst, eqinfo) in jobs:
        use_vals = vals
        if eqinfo and eqinfo[1] in NONLINEAR:
            if d.kind == "c":
                continue                 # the formulas are for real temperatures / speeds
            use_vals = [v for v in vals if v == v and v not in (float("inf"), float("-inf")) and (eqinfo[1] != "sigmaT4" or v >= 0)]
        elif eqinfo and eqinfo[1] != "mc2":
            use_vals = [v for v in vals if v == v and v not in (0, float("inf"), float("-inf"))]
        elif eqinfo:
            use_vals = [v for v in vals if not (isinstance(v, float) and (v != v or v in (float("inf"), float("-inf"))))]
        exp_cache = {}
        for form in forms:
            fvals = use_vals if (form not in ("0d", "quantity") or scalar_cap is None) else pick(use_vals, scalar_cap)
            state = {"dtype_bad": set(), "value_bad": set()}
            seen = {}
            for route in copy_routes + inpl_routes:
                per_obj = []
                gidx_all = []
                refused = False
                try:
                    objs = build(unyt, form, dt, fvals, src)
                except Exception as e:                       # constructing the input is not the subject
                    rec.note(f"build-failed:{form}:{cls_of(dt)}:{type(e).__name__}")
                    break
                for (obj, idxs) in objs:
                    res, exc, ws = observe(lambda: call_route(unyt, route, obj, dst, eqinfo[0] if eqinfo else None))
                    rec.count("calls:" + FAMILY[route])
                    rec.reach("route:" + route)
                    if exc is not None:
                        if d.kind in "iu" and d.itemsize == 1 and route in inpl_routes:
                            # the 8-bit buffer cannot be relabelled as any float: "raises when no such float type exists"
                            rec.note(f"refused:8bit:{route}:{type(exc).__name__}")
                            rec.ok(("refused-8bit", route, dt, form))
                            rec.count("evals:refusal")
                            refused = True
                            continue
                        rec.violation(f"C17:{FAMILY[route]}:raises:{cls_of(dt)}:{type(exc).__name__}",
                                      f"{route} ({form}) of {dt} data {src}->{dst} raised {type(exc).__name__}: {str(exc)[:120]}",
                                      {"route": route, "dtype": dt, "form": form, "from": src, "to": dst})
                        refused = True
                        continue
                    # destination label: given for direct routes, observed for base routes
                    if dst is not None:
                        label = dst
                    else:
                        label = str(res.units) if hasattr(res, "units") else None
                    if label is None:
                        rec.note("no-unit-label:" + route)
                        continue
                    if kind == "base" and label == str(unyt.Unit(src)):
                        rec.note("base-is-source:" + src)
                        continue
                    key = (label,)
                    if key not in exp_cache:
                        try:
                            if eqinfo:
                                exp_cache[key] = (equiv_expect(use_vals, src, label, eqinfo[1]), None)
                            else:
                                exp_cache[key] = (conv_expect(use_vals, src, label), X.ratio_exact(src, label))
                        except X.Unparsed as e:
                            exp_cache[key] = None
                            rec.note(f"unit-label-not-interpreted:{label}")
                    if exp_cache[key] is None:
                        continue
                    exps_all, ratio = exp_cache[key]
                    # map indices of fvals back into use_vals
                    gidx = [index_of(use_vals, fvals[i]) for i in idxs]
                    const = None if not eqinfo else {"recip": None, "c_over": C_LIGHT, "mc2": C_LIGHT * C_LIGHT}.get(eqinfo[1])
                    ok = judge_conversion(rec, route, dt, form, src, label, res, gidx, exps_all, K, ratio, state, use_vals, const,
                                          nonlinear=bool(eqinfo and eqinfo[1] in NONLINEAR))
                    sub = "copy" if route in copy_routes else "inplace"
                    rec.count(f"evals:{kind}:{sub}")
                    if ok:
                        rec.ok((kind, route, dt, src, label, form))
                    per_obj.append(flat(res))
                    gidx_all += gidx
                if not refused and per_obj:
                    dts_ = {str(p[0]) for p in per_obj}
                    seen[route] = (per_obj[0][0] if len(dts_) == 1 else None, [v for p in per_obj for v in p[1]], label,
                                   [exps_all[k] for k in gidx_all])
            # copy / in-place agreement
            for (rc, ri) in AGREE:
                if rc in seen and ri in seen and seen[rc][2] == seen[ri][2]:
                    (dc, vc, _, ec), (di, vi, _, _) = seen[rc], seen[ri]
                    rec.count("evals:agree")
                    if dc is None or di is None or not same_dtype(dc, di):
                        if rc in state["dtype_bad"] or ri in state["dtype_bad"]:
                            rec.note(f"agree:dtype-differs-explained-by-dtype-violation:{FAMILY[rc]}")
                        else:
                            rec.violation(f"C17:agree:{rc}|{ri}:dtype:{cls_of(dt)}", f"{rc} gives {dc} but {ri} gives {di} for {dt} data {src}->{seen[rc][2]} ({form})",
                                          {"dtype": dt, "from": src, "form": form})
                        continue
                    fi = finfo_for(dc) if comp_size(dc) <= comp_size(di) else finfo_for(di)
                    why = agree(rec, (dc, vc), (di, vi), fi, K, ec)
                    if why and (rc in state["value_bad"] or ri in state["value_bad"]):
                        rec.note(f"agree:value-differs-explained-by-value-violation:{FAMILY[rc]}|{FAMILY[ri]}")
                    elif why:
                        rec.violation(f"C17:agree:{rc}|{ri}:value:{cls_of(dt)}", f"{rc} and {ri} disagree for {dt} data {src}->{seen[rc][2]} ({form}): {why}",
                                      {"dtype": dt, "from": src, "form": form})
                    else:
                        rec.ok(("agree", rc, ri, dt, src, form))
    rec.sample({"batch": kind, "dtype": dt, "values": [repr(v) for v in vals[:12]], "forms": forms})


def index_of(lst, v):
    if isinstance(v, float) and v != v:
        for i, x in enumerate(lst):
            if isinstance(x, float) and x != x:
                return i
    for i, x in enumerate(lst):
        if type(x) is type(v) and x == v and (not isinstance(v, float) or math.copysign(1, x) == math.copysign(1, v)):
            return i
    return lst.index(v)


def pick(vals, n):
    """deterministic thinning that keeps both ends (small values and the dtype limits)"""
    if len(vals) <= n:
        return list(vals)
    step = (len(vals) - 1) / (n - 1)
    out = []
    for k in range(n):
        v = vals[round(k * step)]
        if not any((v is x) or (v == x) for x in out):
            out.append(v)
    return out


# ------------------------------------------------------------------ RuntimeWarning clause
def run_warn(unyt, rec, w, tier, r):
    p = MANT[w]
    fams = {
        "in_units": [("to", "m"), ("in_units", "m"), ("to_value", "m")],
        "convert_to_units": [("convert_to_units", "m"), ("convert_to_base", None), ("convert_to_mks", None)],
        "in_base": [("in_base", None), ("in_mks", None), ("in_cgs", None)],
        "to_equivalent": [("to_equivalent", "1/m"), ("to(equivalence)", "1/m")],
        "convert_to_equivalent": [("convert_to_equivalent", "1/m"), ("convert_to_units(equivalence)", "1/m")],
    }
    src = "mm"
    for sign in ("i", "u"):
        dt = f"{sign}{w}"
        ii = np.iinfo(dt)
        beyond = [[2 ** p + 3], [int(ii.max)], [1, 2 ** p + 3, 5], [2 ** p + 5, 2 ** p + 7]]
        lim = [[2 ** p + 1], [1, 2 ** p + 1]]
        below = [[2 ** p - 1, 2 ** p], [1, 2, 3]]
        if sign == "i":
            beyond += [[-(2 ** p + 3)], [int(ii.min) + 1]]
            lim += [[-(2 ** p + 1)]]
        if tier == "thorough":
            for _ in range(12):
                beyond.append([r.randrange(2 ** p + 2, int(ii.max)) | 1])
        for fam, routes in fams.items():
            for (route, dst) in routes:
                for form in ("arr1d", "quantity", "0d"):
                    missing_beyond = False
                    for posname, sets in (("beyond-limit", beyond), ("at-limit+1", lim), ("below", below)):
                        for vals in sets:
                            if form != "arr1d":
                                vals = [max(vals, key=abs)]        # scalar containers hold the deciding element
                            objs = build(unyt, form, dt, vals, src)
                            obj = objs[0][0]
                            res, exc, ws = observe(lambda: call_route(unyt, route, obj, dst, "spectral" if "equiv" in fam else None))
                            rec.reach("warn-route:" + route)
                            if exc is not None:
                                rec.violation(f"C17:{fam}:raises:int{8 * w}:{type(exc).__name__}", f"{route} ({form}) of {dt} {vals} {src} raised {type(exc).__name__}: {str(exc)[:100]}",
                                              {"route": route, "dtype": dt, "vals": vals})
                                continue
                            gdt, _ = flat(res)
                            if gdt is None or gdt.kind not in "fc":
                                gdt = expected_conv_dtype(dt)
                            fi = finfo_for(gdt)
                            required = any(not X.int_representable(v, fi) for v in vals)
                            warned = any(c == "RuntimeWarning" for (c, m) in ws)
                            if posname == "below" or not required:
                                if warned:
                                    rec.note(f"warning-not-required-but-issued:{fam}:int{8 * w}")
                                else:
                                    rec.count("warn:not-required-and-absent")
                                continue
                            rec.count("evals:warn-required")
                            rec.count(f"evals:warn-required:{fam}")
                            if warned:
                                rec.ok(("warn", route, dt, posname, form))
                            elif posname == "at-limit+1" and missing_beyond:
                                rec.note(f"no-warning-at-limit+1-same-mechanism-as-beyond:{fam}:int{8 * w}")
                            else:
                                if posname == "beyond-limit":
                                    missing_beyond = True
                                rec.violation(f"C17:{fam}:no-warning:int{8 * w}:{posname}",
                                              f"{route} ({form}) of {dt} values {vals} {src}->{dst or 'base'}: result {gdt} cannot hold "
                                              f"{[v for v in vals if not X.int_representable(v, fi)][0]} exactly (2**{p}+1 is the first such integer) "
                                              f"but no RuntimeWarning was issued (warnings seen: {ws})", {"route": route, "dtype": dt, "vals": vals, "form": form})
    rec.sample({"batch": "warn", "width": w, "limit": 2 ** p})


# ------------------------------------------------------------------ mixed-unit binary ufuncs
def bvals(dt, r, n, nonzero):
    d = np.dtype(dt)
    if d.kind in "iu":
        ii = np.iinfo(d)
        fixed = [1, 3, 7, 100, 100]
        pool = [v for v in int_values(dt, r, 6) if v not in fixed and (v != 0 or not nonzero)]
        if ii.min < 0:
            fixed[1] = -3
    elif d.kind == "f":
        fixed = [1.0, -3.25, 7.5, 100.0, 2.0 ** -10]     # the last one makes int/float16 quotients leave the float16 range
        fi_ = np.finfo(d)
        lim = min(float(fi_.max), 1e300) / 1e3
        pool = [v for v in float_values(dt, r, 8, specials=False)
                if v not in fixed and (v != 0 or not nonzero) and (v == 0 or 1e3 * max(float(fi_.tiny), 1e-300) < abs(v) < lim)]
    else:
        fixed = [1 + 2j, -3.25 + 0.5j, 7.5 - 1j, 100 + 3j, 0.5 + 0.25j]
        pool = [v for v in complex_values(dt, r, 6) if v not in fixed]
    r.shuffle(pool)
    out = fixed + pool[:max(0, n - len(fixed))]
    if d.kind == "f":
        with np.errstate(all="ignore"):
            out = [float(x) for x in np.array(out, dtype=d.newbyteorder("="))]
    return out


def as_fr(v):
    if isinstance(v, complex):
        return Fr(v.real), Fr(v.imag)
    return Fr(v), None


def bin_expected(uf, A, B):
    """A, B: exact operands on a common absolute scale ((re, im) tuples) -> ('num', re, im|None) | ('bool', x) | ('skip', why)"""
    (ar, ai), (br, bi) = A, B
    cplx = ai is not None or bi is not None
    ai = ai or Fr(0)
    bi = bi or Fr(0)
    if uf == "add":
        return ("num", ar + br, (ai + bi) if cplx else None)
    if uf == "subtract":
        return ("num", ar - br, (ai - bi) if cplx else None)
    if uf == "true_divide":
        if cplx:
            n = br * br + bi * bi
            if n == 0:
                return ("skip", "div0")
            return ("num", (ar * br + ai * bi) / n, (ai * br - ar * bi) / n)
        if br == 0:
            return ("skip", "div0")
        return ("num", ar / br, None)
    if uf in ("equal", "not_equal"):
        eq = (ar == br and ai == bi)
        return ("bool", eq if uf == "equal" else not eq, max(abs(ar - br), abs(ai - bi)))
    if cplx:
        return ("skip", "complex")
    if uf in ("maximum", "fmax"):
        return ("num", max(ar, br), None)
    if uf in ("minimum", "fmin"):
        return ("num", min(ar, br), None)
    if uf in COMPARE:
        val = {"less": ar < br, "greater": ar > br, "less_equal": ar <= br, "greater_equal": ar >= br}[uf]
        return ("bool", val, abs(ar - br))
    if uf == "hypot":
        s = ar * ar + br * br
        return ("num", fr_sqrt(s), None)
    if uf == "remainder":
        if br == 0:
            return ("skip", "div0")
        return ("mod", ar - br * math.floor(ar / br), abs(br))
    if uf == "fmod":
        if br == 0:
            return ("skip", "div0")
        return ("mod", ar - br * math.trunc(ar / br), abs(br))
    if uf == "floor_divide":
        if br == 0:
            return ("skip", "div0")
        q = ar / br
        return ("floor", Fr(math.floor(q)), q)
    if uf == "arctan2":
        return ("angle", ar, br)
    return ("skip", "no-model")


def fr_sqrt(s):
    """sqrt of a non-negative Fraction to ~1e-30 relative (integer square roots, no floats)"""
    if s == 0:
        return Fr(0)
    sh = 220
    n = (s.numerator << sh) // s.denominator
    return Fr(math.isqrt(n << sh), 1 << sh)


def run_binary(unyt, rec, d0, tier, r):
    thorough = tier == "thorough"
    ufs = UF_QUICK + UF_MORE
    units = BIN_UNITS if thorough else BIN_UNITS[:2]
    n = 10 if thorough else 8
    K = 16
    k0 = np.dtype(d0).kind
    for d1 in dts(tier):
        k1 = np.dtype(d1).kind
        for (u0, u1) in units:
            s0, _ = X.unit_exact(u0)
            s1, _ = X.unit_exact(u1)
            av = bvals(d0, r, n, False)
            bv = bvals(d1, r, n, True)
            m = min(len(av), len(bv))
            av, bv = av[:m], bv[:m]
            A = [tuple(None if c is None else c * s0 for c in as_fr(v)) for v in av]
            B = [tuple(None if c is None else c * s1 for c in as_fr(v)) for v in bv]
            for uf in ufs:
                if ("c" in (k0, k1)) and uf not in CPLX_OK:
                    continue
                forms = ["ufunc", "scalar"]
                if uf in OPER:
                    forms.append("operator")
                if uf not in COMPARE:
                    forms.append("out")
                    if thorough:
                        forms.append("out-float")
                if uf in INPLACE_OP and uf in OPER:
                    forms.append("inplace-op")
                if thorough:
                    forms += ["arr-q", "q-arr"]
                    if uf in ("add", "subtract", "maximum", "less"):
                        forms.append("outer")
                for form in forms:
                    do_binary(unyt, rec, uf, form, d0, d1, u0, u1, av, bv, A, B, s0, s1, K)
    rec.sample({"batch": "binary", "d0": d0, "ufuncs": ufs, "units": units})


def do_binary(unyt, rec, ufname, form, d0, d1, u0, u1, av, bv, A, B, s0, s1, K):
    uf = getattr(np, ufname)
    a = unyt.unyt_array(make_array(d0, av), u0)
    b = unyt.unyt_array(make_array(d1, bv), u1)
    outbuf = None
    idx = [(i, i) for i in range(len(av))]
    if form == "ufunc":
        fn = lambda: uf(a, b)
    elif form == "operator":
        op = OPER[ufname]
        fn = lambda: eval("a %s b" % op, {"a": a, "b": b})
    elif form in ("out", "out-float"):
        bdt = d0 if form == "out" else expected_conv_dtype(d0)
        outbuf = unyt.unyt_array(np.zeros(len(av), dtype=bdt), u0)
        fn = lambda: (uf(a, b, out=outbuf), outbuf)[1]
    elif form == "inplace-op":
        outbuf = a
        def fn():
            x = a
            if ufname == "add":
                x += b
            elif ufname == "subtract":
                x -= b
            elif ufname == "remainder":
                x %= b
            elif ufname == "true_divide":
                x /= b
            else:
                x //= b
            return x
    elif form == "scalar":
        qa = unyt.unyt_quantity(make_array(d0, av)[1], u0)
        qb = unyt.unyt_quantity(make_array(d1, bv)[2], u1)
        idx = [(1, 2)]
        fn = lambda: uf(qa, qb)
    elif form == "arr-q":
        qb = unyt.unyt_quantity(make_array(d1, bv)[2], u1)
        idx = [(i, 2) for i in range(len(av))]
        fn = lambda: uf(a, qb)
    elif form == "q-arr":
        qa = unyt.unyt_quantity(make_array(d0, av)[1], u0)
        idx = [(1, j) for j in range(len(bv))]
        fn = lambda: uf(qa, b)
    elif form == "outer":
        idx = [(i, j) for i in range(len(av)) for j in range(len(bv))]
        fn = lambda: uf.outer(a, b)
    else:
        raise ValueError(form)
    fclass = "out" if form in ("out", "out-float", "inplace-op") else "call"
    c0, c1 = cls_of(d0), cls_of(d1)
    case = {"ufunc": ufname, "form": form, "d0": d0, "d1": d1, "u0": u0, "u1": u1}
    res, exc, ws = observe(fn)
    rec.count("calls:binary")
    rec.reach(f"ufunc:{ufname}:{form}")
    kk0, kk1 = np.dtype(d0), np.dtype(d1)
    if exc is not None:
        if fclass == "out" and kk0.kind in "iu" and kk0.itemsize == 1 and form != "out-float":
            # the caller's 8-bit integer buffer cannot be relabelled as any float: "raises when no such float type exists"
            rec.note(f"refused:8bit:out-buffer:{type(exc).__name__}")
            rec.ok(("refused-8bit", ufname, fclass, d0, d1))
            rec.count("evals:refusal")
            return
        if kk1.kind in "iu" and kk1.itemsize == 1:
            # float16 exists for 8-bit data ("at least 16 bits"): a raise is not licensed here
            rec.violation(f"C17:binary/{fclass}:raises:second-operand-int8:{type(exc).__name__}", f"np.{ufname} ({form}) of {d0} {u0} and {d1} {u1} raised "
                          f"{type(exc).__name__}: {str(exc)[:120]} (with the operands swapped it returns a float result)", case)
            return
        if (fclass == "out" and kk1.kind == "c" and kk0.kind != "c" and isinstance(exc, TypeError)
                and "cast" in str(exc).lower()):
            # NumPy refuses to write a complex result into the caller's real buffer: its casting rule, not unyt's
            rec.note(f"numpy-casting-refusal:{form}")
            return
        rec.violation(f"C17:{ufname}/{fclass}:raises:{c0}+{c1}:{type(exc).__name__}", f"np.{ufname} ({form}) of {d0} {u0} and {d1} {u1} raised "
                      f"{type(exc).__name__}: {str(exc)[:120]}", case)
        return
    # unit label of the result, interpreted by the reference
    label = str(res.units) if hasattr(res, "units") else ""
    judge_binary(rec, ufname, form, fclass, d0, d1, u0, u1, av, bv, A, B, s0, s1, K, idx, res, label, ws)


def judge_binary(rec, ufname, form, fclass, d0, d1, u0, u1, av, bv, A, B, s0, s1, K, idx, res, label, ws,
                 bufdt=None, kclass=None, ctr="evals:binary", what=""):
    """dtype rule and values of one observed result of a mixed-unit binary ufunc.  idx: per result element (i, j) = operand
    pair, None = not judged (element left uninitialised by where= without out=), or ("keep", reading, scale|None) = element
    masked out / not addressed: the buffer's earlier number must still be there (as a float).  bufdt: dtype the out= buffer
    had before the call (default: the first operand's); kclass: form class used in ordinary keys (default fclass).
    -> True when everything held"""
    uf = getattr(np, ufname)
    kk0, kk1 = np.dtype(d0), np.dtype(d1)
    c0, c1 = cls_of(d0), cls_of(d1)
    kclass = kclass or fclass
    case = {"ufunc": ufname, "form": form, "d0": d0, "d1": d1, "u0": u0, "u1": u1}
    if bufdt is not None:
        case["buffer"] = str(bufdt)
    rdt, rvals = flat(res)
    if rdt is None:
        rdt = np.asarray(res).dtype
    try:
        sout, oo = X.unit_exact(label)
    except X.Unparsed:
        rec.note(f"unit-label-not-interpreted:{label}")
        return False
    rec.count(ctr)
    cplx_in = "c" in (kk0.kind, kk1.kind)
    # ---- dtype rule
    if ufname in COMPARE:
        if rdt.kind != "b":
            rec.violation(f"C17:{ufname}/{kclass}:dtype:{c0}+{c1}->{rdt.name}", f"np.{ufname} ({form}) returned dtype {rdt}", case)
            return False
    else:
        if rdt.kind in "iub":
            # through a caller-owned buffer the integer result is decided by the buffer, not by the operand pair
            ikey = f"{c0}+{c1}" if bufdt is None else "buf-" + cls_of(bufdt)
            rec.violation(f"C17:{ufname}/{kclass}:int-result:{ikey}", f"np.{ufname} ({form}) of {d0} {av[:4]} {u0} and {d1} {bv[:4]} {u1} returned integer "
                          f"dtype {rdt}{what}: {rvals[:4]} {label}", case)
            return False
        if cplx_in and rdt.kind != "c":
            rec.violation(f"C17:{ufname}/{kclass}:complex-lost:{c0}+{c1}", f"np.{ufname} ({form}) of {d0} and {d1} returned {rdt}", case)
            return False
        need = max(comp_size(kk0), comp_size(kk1))
        if fclass == "out":
            want_buf = expected_conv_dtype(bufdt if bufdt is not None else d0)
            if not same_dtype(rdt, want_buf):
                dkey = f"{c0}+{c1}" if bufdt is None else "buf-" + cls_of(bufdt)
                rec.violation(f"C17:{ufname}/{kclass}:dtype:{dkey}->{rdt.newbyteorder('=').name}", f"np.{ufname} ({form}) into a "
                              f"{bufdt if bufdt is not None else d0} buffer left dtype {rdt}{what}; the float of the buffer's item size is {want_buf}", case)
                return False
        elif comp_size(rdt) < need or (kk0.kind in "fc" and kk1.kind in "fc" and comp_size(rdt) != need):
            opc = f"width{8 * need}" if (kk0.kind in "fc" and kk1.kind in "fc") else f"{c0}+{c1}"
            rec.violation(f"C17:{ufname}/{fclass}:dtype:{opc}->{rdt.newbyteorder('=').name}", f"np.{ufname} ({form}) of {d0} and {d1} returned {rdt}; "
                          f"component width must be {'=' if kk0.kind in 'fc' and kk1.kind in 'fc' else '>='} {need} bytes", case)
            return False
    # ---- values
    def fmt(k):
        return X.BY_SIZE[min(8, comp_size(k))]
    F0, F1 = fmt(kk0), fmt(kk1)                     # float formats of the operands' own item sizes
    Fres = fmt(rdt) if rdt.kind in "fc" else X.F8
    if fclass == "out":
        F0 = F0 if F0.nmant <= Fres.nmant else Fres    # the first operand's contribution ends up in the buffer's format
    converts = ufname not in ("true_divide",)       # true_divide rescales the quotient, not an operand
    degree1 = ufname in ("add", "subtract", "maximum", "minimum", "fmax", "fmin", "hypot", "remainder", "fmod")
    if len(rvals) != len(idx):
        rec.violation(f"C17:{ufname}/{kclass}:shape:{c0}+{c1}", f"np.{ufname} ({form}) returned {len(rvals)} elements for {len(idx)} operand pairs", case)
        return False
    judged = 0
    for ent, g in zip(idx, rvals):
        if ent is None:
            continue                                 # where= without out=: NumPy leaves the element uninitialised
        if ent[0] == "keep":
            # masked out / not addressed: the number the buffer held before is still owed (now as a float)
            want = Fr(ent[1]) * (ent[2] / sout if ent[2] is not None else 1)
            gk = g.real if isinstance(g, complex) and g.imag == 0 else g
            if isinstance(gk, complex) or X.judge(float(gk), want, Fres, K) is not None:
                fac = s0 / s1 / sout                  # the dimensionless factor of the two units (quotient forms)
                if (ufname == "true_divide" and fac != 1 and not isinstance(gk, complex)
                        and X.judge(float(gk), want * fac, Fres, K, tol=K * (Fres.eps + F1.eps) * abs(want * fac)) is None):
                    # one mechanism whatever the dtypes and the buffer: the quotient's unit factor is applied to the whole buffer
                    key = f"C17:{ufname}/out:unaddressed-element:scaled-by-unit-factor"
                else:
                    key = f"C17:{ufname}/{kclass}:unaddressed-element:changed:{c0}+{c1}"
                rec.violation(key, f"np.{ufname} ({form}) of {d0} {u0} and {d1} {u1}{what}: "
                              f"an element the call did not address held {show(want)} before and holds {g!r} ({rdt}) afterwards", case)
                return False
            continue
        i, j = ent
        ex = bin_expected(ufname, A[i], B[j])
        tag = ex[0]
        if tag == "skip":
            rec.note("binary-not-modelled:" + ex[1])
            continue
        aL = max(abs(c) for c in A[i] if c is not None) / sout      # operand magnitudes as readings in the result's unit
        bL = max(abs(c) for c in B[j] if c is not None) / sout
        real_case = A[i][1] is None and B[j][1] is None
        b_conv = B[j][0] / s0                        # second operand expressed in the first operand's unit (exact)
        # rounding of the operands: a in its own format; b in its own format *after* conversion into a's unit (where it
        # may be subnormal), expressed in the result's unit
        uA = X.ulp(aL, F0)
        uB = X.ulp(bL * sout / s0, F1) * s0 / sout if converts else X.ulp(bL, F1)
        rel0 = F0.eps
        rel1 = (X.ulp(b_conv, F1) / abs(b_conv)) if (converts and b_conv != 0) else F1.eps
        b_over = converts and abs(b_conv) > F1.max + X.ulp(F1.max, F1) / 2
        a_over = form == "inplace-op" and kk0.kind in "iu" and abs(A[i][0] / s0) > Fres.max + X.ulp(Fres.max, Fres) / 2
        if (b_over or a_over) and not real_case:
            rec.note("binary-complex-operand-overflows-own-float-skipped")
            continue
        fail = None
        shown = None
        if tag == "bool":
            if ex[2] <= K * (uA + uB) * sout:
                rec.note("binary-near-tie-skipped")
                continue
            if bool(g) != bool(ex[1]):
                fail, shown = "value", ex[1]
        elif tag == "num":
            re, im = ex[1] / sout, (None if ex[2] is None else ex[2] / sout)
            if ufname == "true_divide":
                mag = max(abs(re), abs(im or 0))
                tol = K * (F0.eps + F1.eps + Fres.eps) * mag + K * Fres.tiny_sub
            else:
                tol = K * (uA + uB + X.ulp(max(abs(re), abs(im or 0)), Fres))
            if im is None:
                if isinstance(g, complex):
                    g = g.real if g.imag == 0 else g
                fail = "spurious-imag" if isinstance(g, complex) else X.judge(float(g), re, Fres, K, tol=tol)
            else:
                if not isinstance(g, complex):
                    fail = "imag-dropped"
                else:
                    fail = X.judge(g.real, re, Fres, K, tol=tol) or X.judge(g.imag, im, Fres, K, tol=tol)
                    if fail and g.imag == 0 and im != 0:
                        fail = "imag-dropped"
            shown = (re, im)
        elif tag == "mod":
            rem, modulus = ex[1] / sout, ex[2] / sout
            q = abs(A[i][0] / B[j][0])
            tol = K * (uA + uB * (q + 1) + X.ulp(max(aL, bL), Fres))
            if not (b_over or a_over) and (abs(rem) <= tol or abs(modulus - abs(rem)) <= tol):
                rec.note("binary-near-discontinuity-skipped")
                continue
            fail = X.judge(float(g), rem, Fres, K, tol=tol)
            shown = rem
        elif tag == "floor":
            q = ex[2]
            relq = K * (rel0 + rel1 + Fres.eps) * abs(q)
            if not (b_over or a_over) and (abs(q - round(q)) <= relq or abs(q) > Fres.max):
                if relq < Fr(1, 4):
                    rec.note("binary-near-discontinuity-skipped")
                    continue
                # quotient so large that its rounding error exceeds 1: only closeness to the exact quotient is decidable
                fail = X.judge(float(g), q / sout, Fres, K, tol=(relq + 1) / sout)
            else:
                fail = X.judge(float(g), ex[1] / sout, Fres, K, tol=(relq + K * X.ulp(ex[1], Fres)) / sout)
            shown = ex[1] / sout
        elif tag == "angle":
            y, x = ex[1], ex[2]
            if x == 0 and y == 0:
                continue
            sc = max(abs(x), abs(y))
            ang = math.atan2(float(y / sc), float(x / sc))
            want = Fr(ang) / sout
            tol = K * (rel0 + rel1 + Fr(1, 2 ** 50)) / sout + K * X.ulp(want, Fres)
            fail = X.judge(float(g), want, Fres, K, tol=tol)
            shown = want
        judged += 1
        if fail and (b_over or a_over):
            # each operand becomes a float of its *own* item size (that is what the property prescribes); when the
            # converted operand itself exceeds that format it is +-inf there and the result follows IEEE arithmetic
            xa = (math.inf if A[i][0] > 0 else -math.inf) if a_over else float(A[i][0] / s0)
            xb = (math.inf if b_conv > 0 else -math.inf) if b_over else float(b_conv)
            with np.errstate(all="ignore"):
                alt = uf(np.float64(xa), np.float64(xb))
            if ufname in COMPARE:
                alt_ok = bool(alt) == bool(g)
            else:
                alt = float(alt)
                gf = float(g)
                if alt != alt:
                    alt_ok = gf != gf
                elif alt in (math.inf, -math.inf):
                    alt_ok = gf == alt
                else:
                    want = Fr(alt) * (s0 / sout if degree1 else 1)
                    alt_ok = X.judge(gf, want, Fres, K, tol=K * (uA + X.ulp(want, Fres) + X.ulp(want, F0))) is None
            if alt_ok:
                rec.count("binary:operand-overflows-own-float-width(IEEE-consistent)")
                fail = None
        if fail == "inf" and fclass == "out" and bufdt is not None and ufname != "true_divide":
            # a caller's buffer wider than both operands: NumPy evaluates in the promoted float type of the operands (int8 with
            # float16 -> float16) and stores afterwards; a result beyond *that* type's range is inf by NumPy's promotion rule
            k1f = np.result_type(kk1, np.float16) if ufname == "floor_divide" else (np.dtype("f%d" % comp_size(kk1)) if kk1.kind in "iu" else kk1)
            Floop = fmt(np.result_type(kk0, k1f))
            sv = shown[0] if isinstance(shown, tuple) else shown
            if Floop.nmant < Fres.nmant and isinstance(sv, Fr) and abs(sv) * (sout / s0 if degree1 else 1) >= Floop.max - K * X.ulp(Floop.max, Floop):
                rec.count("outbuf:overflow-in-numpy-loop-type(narrower-than-buffer)")
                fail = None
        if fail:
            key = f"C17:{ufname}/{kclass}:{fail}:{c0}+{c1}"
            raw_b = abs(as_fr(bv[j])[0]) if not isinstance(bv[j], complex) else None
            raw_q = None
            if ufname == "true_divide" and real_case and B[j][0] != 0:
                raw_q = abs(Fr(av[i]) / Fr(bv[j]))
                Fq = fmt(np.result_type(kk0, kk1, np.float16))          # float type NumPy forms the raw quotient in
                if fclass == "out" and Fres.nmant < Fq.nmant:
                    Fq = Fres                                           # ... and the buffer it is stored in before the factor
            if kk1.kind in "iu" and converts and raw_b is not None and raw_b > F1.max + X.ulp(F1.max, F1) / 2:
                # the integer is cast to the float of its item size *before* scaling although the scaled value fits
                key = f"C17:binary/{fclass}:int-exceeds-float-max:{c1}"
            elif converts and (s1 / s0 > F1.max or s1 / s0 < Fr(2) ** F1.minexp):
                key = f"C17:binary/{fclass}:factor-outside-float-range:{c1}"
            elif raw_q is not None and (raw_q > Fq.max or (raw_q != 0 and raw_q < Fr(2) ** Fq.minexp)):
                # the unscaled quotient is rounded into the narrow float before the dimensionless factor is applied
                key = f"C17:true_divide/{fclass}:raw-quotient-out-of-float-range:float{8 * int(Fq.name[1:])}"
            elif raw_q is not None and (s0 / s1 / sout > Fq.max or s0 / s1 / sout < Fr(2) ** Fq.minexp):
                # the dimensionless factor of the two units (J/erg = 1e7, erg/J = 1e-7) is itself not a normal number of the
                # narrow float the quotient is held in: same mechanism as the conversion routes' factor-outside-float-range
                key = f"C17:true_divide/{fclass}:factor-outside-float-range:float{8 * int(Fq.name[1:])}"
            rec.violation(key, f"np.{ufname} ({form}) of {av[i]!r} {u0} ({d0}) and {bv[j]!r} {u1} ({d1}) gave {g!r} {label} "
                          f"({rdt}){what}; exact: {show(shown) if not isinstance(shown, bool) else shown}", case)
            return False
    if judged:
        rec.ok(("binary", ufname, form, d0, d1, u0, u1) + ((what,) if what else ()))
        rec.count(f"{ctr}:{fclass}")
    # ---- warning clause for binary: recorded, not judged (see ASSUMPTIONS)
    if kk1.kind in "iu" and rdt.kind in "fc":
        fiw = finfo_for(rdt)
        if any(not X.int_representable(v, fiw) for v in bv) and not any(c == "RuntimeWarning" for (c, m) in ws):
            rec.note("not-judged:binary:no-warning-for-unrepresentable-int")
    return True


# ------------------------------------------------------------------ rarely used call forms: caller-owned out= buffers
# The binary matrix above writes into a unyt buffer of the first operand's dtype, passed as out=<buffer>.  NumPy offers the
# same call in more shapes, and the buffer does not have to be a unyt_array nor match an operand: a bare ndarray of any
# integer width, a bare float ndarray of another width, a unyt buffer of another integer width; given by keyword, as a
# 1-tuple, or positionally; with a where= mask; through ufunc.outer; strided or 0-d buffers; ufunc.at on the first operand.
# Whatever the form, BOTH the returned object and the caller's buffer owe the exactly combined values in the float of the
# buffer's item size - or the call raises.
OUT_UFS = [u for u in UF_QUICK + UF_MORE if u not in COMPARE]
OUT_PASS = ("kw", "tuple", "pos")
OUT_VARIANTS = ("plain", "where", "plain", "outer", "strided", "0d", "plain")     # cycled (period 7, coprime to 3 and 8)
OUT_BUF_DT = INTS + FLOATS
OUT_HOLDERS = ("nd", "un")               # bare numpy.ndarray / unyt_array labelled with an unrelated unit


def buf_kind(holder, bdt):
    return holder + "-" + {"i": "int", "u": "int", "f": "float", "c": "complex"}[np.dtype(bdt).kind]


def do_outform(unyt, rec, ufname, holder, bdt, how, variant, d0, d1, u0, u1, av, bv, A, B, s0, s1, K):
    uf = getattr(np, ufname)
    n = len(av)
    kb = np.dtype(bdt)
    a = unyt.unyt_array(make_array(d0, av), u0)
    b = unyt.unyt_array(make_array(d1, bv), u1)
    call, shape = uf, (n,)
    idx = [(i, i) for i in range(n)]
    if variant == "outer":
        call, shape = uf.outer, (n, n)
        idx = [(i, j) for i in range(n) for j in range(n)]
        how = "kw" if how == "pos" else how          # ufunc.outer takes exactly two positional arguments
    elif variant == "0d":
        a = unyt.unyt_quantity(make_array(d0, av)[1], u0)
        b = unyt.unyt_quantity(make_array(d1, bv)[2], u1)
        shape, idx = (), [(1, 2)]
    size = 1
    for m in shape:
        size *= m
    prior = [3 + (k % 5) for k in range(size)]                      # what the caller's buffer holds before the call
    if variant == "strided":
        base = np.zeros(2 * n, dtype=kb)
        base[::2] = prior
        if holder == "un":
            base = unyt.unyt_array(base, "s")
        o = base[::2]
    else:
        o = np.array(prior, dtype=kb).reshape(shape)
        if holder == "un":
            o = unyt.unyt_array(o, "s")
    kwargs = {}
    if variant == "where":
        mask = [k % 3 != 1 for k in range(n)]
        kwargs["where"] = np.array(mask)
        idx = [e if m else ("keep", prior[k], None) for k, (e, m) in enumerate(zip(idx, mask))]
    if how == "kw":
        fn = lambda: call(a, b, out=o, **kwargs)
    elif how == "tuple":
        fn = lambda: call(a, b, out=(o,), **kwargs)
    else:
        fn = lambda: call(a, b, o, **kwargs)
    form = f"{variant}:out-{how}:{buf_kind(holder, bdt)}"
    kclass = "out-" + holder
    c0, c1, cb = cls_of(d0), cls_of(d1), cls_of(bdt)
    case = {"ufunc": ufname, "form": form, "buffer": str(bdt), "d0": d0, "d1": d1, "u0": u0, "u1": u1}
    res, exc, ws = observe(fn)
    rec.count("calls:outbuf")
    rec.reach(f"outbuf:{ufname}:{variant}:{how}:{holder}")
    if exc is not None:
        rec.count("evals:outbuf:refusal")
        if kb.kind in "iu" and kb.itemsize == 1:
            rec.note(f"refused:8bit:out-buffer:{holder}:{type(exc).__name__}")          # no 8-bit float exists
            rec.ok(("refused-8bit", ufname, kclass, variant, how, bdt))
            return
        if (kb.kind != "c" and "c" in (np.dtype(d0).kind, np.dtype(d1).kind) and isinstance(exc, TypeError) and "cast" in str(exc).lower()):
            rec.note(f"numpy-casting-refusal:{variant}:{buf_kind(holder, bdt)}")          # complex result, real buffer: NumPy's rule
            return
        if kb.kind in "iu" and holder == "nd":
            # a bare integer ndarray belongs to the caller; refusing to retype it is the other licensed outcome
            rec.note(f"refused:plain-int-buffer:{type(exc).__name__}:{str(exc)[:50]}")
            rec.ok(("refused-plain-int-buffer", ufname, variant, how, bdt))
            return
        rec.violation(f"C17:{ufname}/{kclass}:raises:buf-{cb}:{type(exc).__name__}", f"np.{ufname} ({form}) of {d0} {u0} and {d1} {u1} into a {bdt} "
                      f"buffer raised {type(exc).__name__}: {str(exc)[:120]}", case)
        return
    label = str(res.units) if hasattr(res, "units") else None
    if label is None:
        rec.violation(f"C17:{ufname}/{kclass}:unit-lost:buf-{cb}", f"np.{ufname} ({form}) of {d0} {u0} and {d1} {u1} returned {type(res).__name__} "
                      f"without units", case)
        return
    if holder == "un" and str(o.units) != label:
        rec.note(f"outbuf:buffer-label-differs-from-returned:{ufname}")
    held = 0
    if res is o:
        rec.count("outbuf:returned-object-is-the-buffer")      # still two observables: judged through both names
    for sub, what, obj in (("returned", " [returned object]", res), ("buffer", " [caller's buffer]", o)):
        ok = judge_binary(rec, ufname, form, "out", d0, d1, u0, u1, av, bv, A, B, s0, s1, K, idx, obj, label, ws,
                          bufdt=kb, kclass=kclass + ("" if sub == "returned" else "-buffer"), ctr="evals:outbuf:" + sub, what=what)
        held += bool(ok)
    # evaluated (not: held) per workload dimension - a dimension whose every evaluation failed has still been judged
    for name in ("kind:" + buf_kind(holder, bdt), "pass:" + how, "variant:" + variant, "width:%d" % (8 * kb.itemsize)):
        rec.count("evals:outbuf:" + name, 2)
        rec.count("held:outbuf:" + name, held)


def do_rareform(unyt, rec, ufname, form, d0, d1, u0, u1, av, bv, A, B, s0, s1, K):
    """where= without out= (unmasked elements only are owed a value) and ufunc.at on the first operand"""
    uf = getattr(np, ufname)
    n = len(av)
    a = unyt.unyt_array(make_array(d0, av), u0)
    b = unyt.unyt_array(make_array(d1, bv), u1)
    c0, c1 = cls_of(d0), cls_of(d1)
    case = {"ufunc": ufname, "form": form, "d0": d0, "d1": d1, "u0": u0, "u1": u1}
    if form == "where-noout":
        mask = [k % 3 != 1 for k in range(n)]
        idx = [(k, k) if m else None for k, m in enumerate(mask)]
        res, exc, ws = observe(lambda: uf(a, b, where=np.array(mask)))
        rec.count("calls:rareform")
        rec.reach(f"rareform:{ufname}:{form}")
        if exc is not None:
            if np.dtype(d1).kind in "iu" and np.dtype(d1).itemsize == 1:
                rec.violation(f"C17:binary/call:raises:second-operand-int8:{type(exc).__name__}", f"np.{ufname} ({form}) of {d0} {u0} and {d1} {u1} raised "
                              f"{type(exc).__name__}: {str(exc)[:120]}", case)
                return
            rec.violation(f"C17:{ufname}/where:raises:{c0}+{c1}:{type(exc).__name__}", f"np.{ufname} ({form}) of {d0} {u0} and {d1} {u1} raised "
                          f"{type(exc).__name__}: {str(exc)[:120]}", case)
            return
        label = str(res.units) if hasattr(res, "units") else ""
        judge_binary(rec, ufname, form, "call", d0, d1, u0, u1, av, bv, A, B, s0, s1, K, idx, res, label, ws,
                     kclass="where", ctr="evals:rareform:where-noout")
        return
    # ufunc.at: unbuffered in-place operation on the first operand at unique positions
    sel = [k for k in range(n) if k % 2 == 0]
    res, exc, ws = observe(lambda: (uf.at(a, sel, b[:len(sel)]), a)[1])
    rec.count("calls:rareform")
    rec.reach(f"rareform:{ufname}:{form}")
    rec.count("evals:rareform:at")
    if exc is not None:
        # unyt does not implement ufunc.at (three inputs): a refusal cannot truncate anything
        rec.note(f"refused:ufunc.at:{type(exc).__name__}")
        rec.ok(("refused-at", ufname, d0, d1))
        return
    idx = [(k, sel.index(k)) if k in sel else ("keep", av[k] if not isinstance(av[k], complex) else av[k].real, s0) for k in range(n)]
    label = str(res.units) if hasattr(res, "units") else ""
    judge_binary(rec, ufname, form, "out", d0, d1, u0, u1, av, bv, A, B, s0, s1, K, idx, res, label, ws,
                 bufdt=np.dtype(d0), kclass="at", ctr="evals:rareform:at-judged")


def out_specs(tier, cplx, c):
    """buffers for one (operand dtypes, unit pair, ufunc): (holder, buffer dtype).  Enumerated, not drawn: c is the running call
    number, so every holder x width x pass x variant combination comes round whatever the seed"""
    if cplx:
        sp = [("nd", "c16"), ("un", "c8"), ("nd", "c8"), ("un", "c16")]
        return sp if tier == "thorough" else [sp[c % 4], sp[(c + 1) % 4], ("nd", INTS[c % 8])]
    if tier == "thorough":
        return [(h, dt) for h in OUT_HOLDERS for dt in OUT_BUF_DT]
    return [("nd", INTS[c % 8]), ("nd", INTS[(c // 8 + c + 3) % 8]), ("nd", FLOATS[c % 3]), ("un", INTS[(c + 5) % 8]),
            ("un", OUT_BUF_DT[(c // 3) % 11])]


def run_outforms(unyt, rec, d0, tier, r):
    thorough = tier == "thorough"
    units = BIN_UNITS[:3] if thorough else BIN_UNITS[:2]
    n = 8 if thorough else 6
    K = 16
    k0 = np.dtype(d0).kind
    c = INTS.index(d0) if d0 in INTS else len(d0)
    for d1 in dts(tier):
        k1 = np.dtype(d1).kind
        for (u0, u1) in units:
            s0, _ = X.unit_exact(u0)
            s1, _ = X.unit_exact(u1)
            av = bvals(d0, r, n, False)
            bv = bvals(d1, r, n, True)
            m = min(len(av), len(bv))
            av, bv = av[:m], bv[:m]
            A = [tuple(None if x is None else x * s0 for x in as_fr(v)) for v in av]
            B = [tuple(None if x is None else x * s1 for x in as_fr(v)) for v in bv]
            for uf in OUT_UFS:
                cplx = "c" in (k0, k1)
                if cplx and uf not in CPLX_OK:
                    continue
                for (holder, bdt) in out_specs(tier, cplx, c):
                    c += 1
                    do_outform(unyt, rec, uf, holder, bdt, OUT_PASS[c % 3], OUT_VARIANTS[c % 7], d0, d1, u0, u1, av, bv, A, B, s0, s1, K)
                do_rareform(unyt, rec, uf, "where-noout" if c % 2 else "at", d0, d1, u0, u1, av, bv, A, B, s0, s1, K)
                if thorough:
                    do_rareform(unyt, rec, uf, "at" if c % 2 else "where-noout", d0, d1, u0, u1, av, bv, A, B, s0, s1, K)
    rec.sample({"batch": "outbuf", "d0": d0, "ufuncs": OUT_UFS, "units": units, "buffers": OUT_BUF_DT, "holders": OUT_HOLDERS,
                "pass": OUT_PASS, "variants": sorted(set(OUT_VARIANTS))})


# ------------------------------------------------------------------ value axis of integer operands
# Everything above puts ordinary numbers into the operands (the second one is never zero, a scalar operand holds one fixed
# reading).  The dtype of a mixed-unit result must be a function of the operands' dtypes and units alone, so here the VALUE
# an integer operand holds becomes a workload dimension of its own (vf/gen/c17_valueaxis.py): value class {zero, one,
# minus-one, dtype max, dtype min, ...} x operand spelling {quantity, 0-d array, 1-element array, filled n-d arrays, NumPy
# scalar * Unit, Python int * Unit} x operand position {first, second, both} x every mixed-unit binary ufunc x {function,
# operator, ufunc.outer}, no out=.  Each group first makes the CONTROL call (the ordinary reading 3 in the same spelling,
# same dtypes, same units, same shapes); every special value then owes (a) a floating-point (comparisons: bool) result,
# (b) the very dtype of the control, (c) no refusal where the control returned, (d) the exactly combined values.
VA_UFS = UF_QUICK + UF_MORE                    # judged for dtype and values (exact model in bin_expected)
VA_DTYPE_ONLY = ["nextafter", "heaviside"]     # rescaled like add (same unit rule) but without an exact model: dtype only
VA_OTHER_DT = INTS + FLOATS
VA_N = 3
VA_REFLECTED = {"less": "greater", "greater": "less", "less_equal": "greater_equal", "greater_equal": "less_equal", "equal": "equal",
                "not_equal": "not_equal"}


def va_forms(uf):
    return ["function", "outer"] + (["operator"] if uf in OPER else [])


def run_valaxis(unyt, rec, d, tier, r):
    from vf.gen import c17_valueaxis as VA
    thorough = tier == "thorough"
    c = INTS.index(d)
    for uf in VA_UFS + VA_DTYPE_ONLY:
        for form in va_forms(uf):
            for pos in VA.POSITIONS:
                for sp in VA.SPELLINGS:
                    if not VA.spelling_applies(sp, d):
                        continue
                    # the other operand's dtype, the unit pair and the other operand's spelling are enumerated by the running
                    # group number (every combination comes round whatever the seed); thorough: two other dtypes per group
                    # and the wider value-class list (about 3x the quick size)
                    for d_other in [VA_OTHER_DT[(c + 5 * k) % len(VA_OTHER_DT)] for k in range(2 if thorough else 1)]:
                        c += 1
                        u0, u1 = BIN_UNITS[c % len(BIN_UNITS)]
                        ospell = VA.OTHER_SPELLINGS[(c // len(BIN_UNITS)) % len(VA.OTHER_SPELLINGS)]
                        va_group(unyt, rec, VA, uf, form, pos, sp, d, d_other, u0, u1, ospell, thorough, c, r)
    rec.sample({"batch": "valaxis", "special dtype": d, "ufuncs": VA_UFS + VA_DTYPE_ONLY, "spellings": VA.SPELLINGS,
                "positions": VA.POSITIONS, "value classes": [k for k, _ in VA.special_values(d, thorough)]})


def va_group(unyt, rec, VA, ufname, form, pos, sp, d, d_other, u0, u1, ospell, thorough, c, r):
    """one control call and every special value of one (ufunc, form, position, spelling, dtypes, units) combination"""
    K = 16
    uf = getattr(np, ufname)
    s0, _ = X.unit_exact(u0)
    s1, _ = X.unit_exact(u1)
    sp2 = None
    if pos == "both":
        d0, d1 = d, (d_other if np.dtype(d_other).kind in "iu" else d)
        ok_sp = [s for s in VA.SPELLINGS if VA.spelling_applies(s, d1)]
        sp2 = ok_sp[c % len(ok_sp)]
        cases = [(("control", "control"), VA.CONTROL[0], VA.CONTROL[1])]
        cases += [((ca, cb), va, vb) for ((ca, va), (cb, vb)) in VA.value_pairs(d0, d1, thorough, c)]
        spname = sp + "+" + sp2
    else:
        d0, d1 = (d, d_other) if pos == "first" else (d_other, d)
        ov = VA.ordinary_values(d_other, r, VA_N)
        cases = [(("control",), VA.CONTROL[0], None)] + [((k,), v, None) for k, v in VA.special_values(d, thorough)]
        spname = sp
    c0, c1 = cls_of(d0), cls_of(d1)
    fname = f"{form}:{pos}:{spname}" + ("" if pos == "both" else ":other-" + ospell)
    case = {"ufunc": ufname, "form": fname, "d0": d0, "d1": d1, "u0": u0, "u1": u1}
    control_dt = None
    for (classes, va, vb) in cases:
        is_control = classes[0] == "control"
        try:
            if pos == "both":
                a, sha, av = VA.spell(unyt, sp, d0, va, u0, VA_N)
                b, shb, bv = VA.spell(unyt, sp2, d1, vb, u1, VA_N)
            elif pos == "first":
                a, sha, av = VA.spell(unyt, sp, d0, va, u0, VA_N)
                b, shb, bv = VA.spell_other(unyt, ospell, d1, ov, u1)
            else:
                a, sha, av = VA.spell_other(unyt, ospell, d0, ov, u0)
                b, shb, bv = VA.spell(unyt, sp, d1, va, u1, VA_N)
        except Exception as e:                       # noqa: BLE001 - constructing the input is not the subject
            rec.note(f"valaxis:build-failed:{spname}:{type(e).__name__}")
            if is_control:
                return
            continue
        if not same_dtype(a.dtype, d0) or not same_dtype(b.dtype, d1):
            rec.note(f"valaxis:spelling-does-not-keep-dtype:{spname}")
            if is_control:
                return
            continue
        if form == "function":
            fn = lambda: uf(a, b)
        elif form == "operator":
            fn = lambda: eval("a %s b" % OPER[ufname], {"a": a, "b": b})
        else:
            fn = lambda: uf.outer(a, b)
        res, exc, ws = observe(fn)
        rec.count("calls:valaxis")
        rec.reach(f"valaxis:{ufname}:{form}")
        vtag = "+".join(classes)
        # structural tag of the keys: value class(es), spelling (both operands special: only scalar/array, the pair of exact
        # spellings is in the description), position
        tag = f"{vtag}-{spname}-{pos}" if pos != "both" else f"{vtag}-{'array' if sha else 'scalar'}+{'array' if shb else 'scalar'}-both"
        what = f" [value axis: {vtag} as {spname}, {pos} operand" + ("s]" if pos == "both" else f", other operand {ospell}]")
        shown = f"np.{ufname} ({form}) of {av[:2]} {u0} ({d0}, shape {sha}) and {bv[:2]} {u1} ({d1}, shape {shb})"
        A = [(Fr(v) * s0, None) for v in av]
        B = [(Fr(v) * s1, None) for v in bv]
        idx = VA.index_map(sha, shb, form == "outer")
        # what the interpreter really calls: for `a < b` with type(b) a proper subclass of type(a) (a quantity on the right of
        # an array) Python tries the reflected method of the subclass first, i.e. np.greater(b, a) - there `a` is the operand
        # that is rescaled.  Arithmetic operators keep the order (ndarray.__radd__(b, a) is np.add(a, b)).
        J = (ufname, d0, d1, u0, u1, av, bv, A, B, s0, s1, idx)
        if form == "operator" and ufname in COMPARE and type(b) is not type(a) and isinstance(b, type(a)):
            J = (VA_REFLECTED[ufname], d1, d0, u1, u0, bv, av, B, A, s1, s0, [(j, i) for (i, j) in idx])
            rec.count("valaxis:reflected-comparison-dispatch")
        if is_control:
            rec.count("evals:valaxis:control")
            if exc is not None:
                # value independent: the ordinary key of the binary matrix (same rule as do_binary)
                if np.dtype(d1).kind in "iu" and np.dtype(d1).itemsize == 1:
                    rec.violation(f"C17:binary/call:raises:second-operand-int8:{type(exc).__name__}", f"{shown} raised {type(exc).__name__}: "
                                  f"{str(exc)[:120]}{what}", case)
                else:
                    rec.violation(f"C17:{ufname}/call:raises:{c0}+{c1}:{type(exc).__name__}", f"{shown} raised {type(exc).__name__}: "
                                  f"{str(exc)[:120]}{what}", case)
                rec.count("valaxis:control-refused")
                return
            cdt = np.asarray(res).dtype
            label = str(res.units) if hasattr(res, "units") else ""
            if ufname in VA_DTYPE_ONLY:
                if cdt.kind != "f":
                    rec.violation(f"C17:{ufname}/call:int-result:{c0}+{c1}", f"{shown} returned dtype {cdt}{what}", case)
                    return
                rec.ok(("valaxis-control", ufname, form, pos, spname, d0, d1))
            else:
                judge_binary(rec, J[0], fname, "call", *J[1:11], K, J[11], res, label, ws,
                             ctr="evals:valaxis:control-judged", what=what)
                if cdt.kind != ("b" if ufname in COMPARE else "f"):
                    rec.count("valaxis:control-has-wrong-kind")          # reported by judge_binary under the ordinary key
                    return
            control_dt = cdt
            continue
        # ---- a special value: (c) no refusal where the control returned
        for name in ["dtype"] + ["value:" + k for k in set(classes)] + ["spelling:" + s for s in {sp, sp2} if s] + ["position:" + pos, "form:" + form]:
            rec.count("evals:valaxis:" + name)
        if exc is not None:
            rec.violation(f"C17:{ufname}/value-axis:raises:{tag}:{type(exc).__name__}", f"{shown} raised {type(exc).__name__}: {str(exc)[:120]}; "
                          f"with the ordinary reading {VA.CONTROL[0]} in the same place the call returns {control_dt}{what}", case)
            continue
        rdt = np.asarray(res).dtype
        label = str(res.units) if hasattr(res, "units") else ""
        # ---- (a) kind, (b) the dtype of the control
        if rdt.kind != control_dt.kind and rdt.kind in "iub":
            rec.violation(f"C17:{ufname}/value-axis:int-result:{tag}", f"{shown} returned integer dtype {rdt}: {flat(res)[1][:4]} {label}; with the "
                          f"ordinary reading {VA.CONTROL[0]} in the same place the result is {control_dt} - whether integer data in different "
                          f"units combine to floating point depends on the VALUE{what}", case)
            continue
        if rdt != control_dt:
            rec.violation(f"C17:{ufname}/value-axis:dtype-depends-on-value:{tag}", f"{shown} returned dtype {rdt}; with the ordinary reading "
                          f"{VA.CONTROL[0]} in the same place the result is {control_dt}{what}", case)
            continue
        rec.ok(("valaxis-dtype", ufname, form, pos, spname, vtag, d0, d1))
        # ---- (d) values (ordinary keys: a wrong number is the same defect whoever drives the call)
        if ufname not in VA_DTYPE_ONLY:
            judge_binary(rec, J[0], fname, "call", *J[1:11], K, J[11], res, label, ws,
                         ctr="evals:valaxis:values", what=what)


# ------------------------------------------------------------------ list coercion, setitem note
def run_misc(unyt, rec, tier, r):
    K = 16
    for d0 in dts(tier):
        for d1 in dts(tier):
            k0, k1 = np.dtype(d0), np.dtype(d1)
            for (u0, u1) in BIN_UNITS[:2]:
                s0, _ = X.unit_exact(u0)
                s1, _ = X.unit_exact(u1)
                av = bvals(d0, r, 6, False)
                bv = bvals(d1, r, 6, False)
                i, j = r.randrange(len(av)), r.randrange(len(bv))
                qa = unyt.unyt_quantity(make_array(d0, av)[i], u0)
                qb = unyt.unyt_quantity(make_array(d1, bv)[j], u1)
                for ctor in ("unyt_array([qa,qb])", "unyt_array((qa,qb))"):
                    res, exc, ws = observe(lambda: unyt.unyt_array([qa, qb] if "[" in ctor[10:] else (qa, qb)))
                    rec.count("calls:ctor-list")
                    rec.reach("ctor-list")
                    case = {"ctor": ctor, "d0": d0, "d1": d1, "u0": u0, "u1": u1}
                    c0, c1 = cls_of(d0), cls_of(d1)
                    if exc is not None:
                        if k1.kind in "iu" and k1.itemsize == 1 or k0.kind in "iu" and k0.itemsize == 1:
                            rec.note(f"refused:8bit:ctor-list:{type(exc).__name__}")
                            continue
                        rec.violation(f"C17:ctor-list:raises:{c0}+{c1}:{type(exc).__name__}", f"{ctor} with {d0} {u0}, {d1} {u1} raised {type(exc).__name__}: {str(exc)[:100]}", case)
                        continue
                    rdt, rvals = flat(res)
                    label = str(res.units)
                    try:
                        sout, _ = X.unit_exact(label)
                    except X.Unparsed:
                        rec.note("unit-label-not-interpreted:" + label)
                        continue
                    rec.count("evals:ctor-list")
                    if rdt.kind in "iub":
                        rec.violation(f"C17:ctor-list:int-result:{c0}+{c1}", f"{ctor} of {av[i]!r} {u0} ({d0}) and {bv[j]!r} {u1} ({d1}) returned integer dtype {rdt}: {rvals} {label}", case)
                        continue
                    if "c" in (k0.kind, k1.kind) and rdt.kind != "c":
                        rec.violation(f"C17:ctor-list:complex-lost:{c0}+{c1}", f"{ctor} of {d0} and {d1} returned {rdt}", case)
                        continue
                    if comp_size(rdt) < max(comp_size(k0), comp_size(k1)):
                        rec.violation(f"C17:ctor-list:dtype:{c0}+{c1}->{rdt.name}", f"{ctor} of {d0} and {d1} returned {rdt}", case)
                        continue
                    fi = X.BY_SIZE[min(8, comp_size(k0), comp_size(k1), comp_size(rdt))]
                    fail = None
                    for v, s, g in ((av[i], s0, rvals[0]), (bv[j], s1, rvals[1])):
                        re, im = as_fr(v)
                        gre, gim = (g.real, g.imag) if isinstance(g, complex) else (g, 0.0)
                        fail = fail or X.judge(float(gre), re * s / sout, fi, K, ())
                        fail = fail or X.judge(float(gim), (im or Fr(0)) * s / sout, fi, K, (abs(re * s / sout),))
                    if fail:
                        rec.violation(f"C17:ctor-list:{fail}:{c0}+{c1}", f"{ctor} of {av[i]!r} {u0} ({d0}) and {bv[j]!r} {u1} ({d1}) gave {rvals} {label}", case)
                    else:
                        rec.ok(("ctor-list", d0, d1, u0, u1))
    # recorded only: assignment into an integer buffer (outside the quantifier)
    a = unyt.unyt_array(np.array([1, 2, 3], dtype="i4"), "m")
    a[0] = unyt.unyt_quantity(3, "inch")
    if a.dtype.kind in "iu":
        rec.note("not-judged:setitem-into-int-buffer-truncates(3 inch -> %r m)" % int(a.d[0]))
    rec.sample({"batch": "misc", "ctor": "unyt_array([q0, q1]) with quantities in different units"})


# ------------------------------------------------------------------ dtype histories within one process
# Conversion machinery may remember things per unit pair (factor, offset, dtype).  Every other batch converts one dtype
# per forked child, so nothing it observes has a past.  Here one child converts an ordered unit pair FIRST with one dtype
# through one route and THEN with every dtype through every route; each later result is still owed the exactly converted
# value rounded to its own float type.  A failing observation is repeated by a pristine twin (vf/monitors/c17_pristine.py)
# to decide whether it depends on the past.
# (source, destination, destination is the mks base equivalent of the source, usable as operands of one binary ufunc)
HIST_PAIRS_QUICK = [("m", "km", False, True), ("ft", "mile", False, True), ("cm", "inch", False, True), ("g", "lb", False, True),
                    ("ft", "m", True, True), ("lb", "kg", True, True), ("km/hr", "m/s", True, True), ("degF", "K", True, False),
                    ("min", "hr", False, True)]
HIST_PAIRS_MORE = [("inch", "cm", False, True), ("mile", "km", False, True), ("km", "m", True, True), ("min", "s", True, True),
                   ("mm", "m", True, True), ("degC", "degF", False, False), ("delta_degF", "delta_degC", False, False),
                   ("J", "erg", False, True), ("T", "G", False, False), ("yd", "inch", False, True),
                   ("g/cm**3", "kg/m**3", True, True), ("hr", "min", False, True), ("inch", "m", True, True), ("mile", "m", True, True)]
HIST_FIRST_DT_QUICK = ["f2", "f4", "i2", "i4", "f8", "c16", "i8", "u8"]
HIST_FIRST_DT_MORE = ["c8", "u2", "u4", "i1", "u1"]
HIST_FIRST_QUICK = ["to", "in_units", "to_value", "convert_to_units", "in_base", "convert_to_base", "ufunc:add",
                    "ufunc:floor_divide", "Unit.get_conversion_factor"]
HIST_FIRST_MORE = ["to(Unit)", "in_mks", "convert_to_mks", "ufunc:subtract", "ufunc:maximum", "ufunc:less", "ufunc:hypot",
                   "ufunc:remainder", "inplace-op:add", "out:add", "scalar:add"]
HIST_BASE_ROUTES = ("in_base", "convert_to_base", "in_mks", "convert_to_mks")
HIST_UFS = ["add", "subtract", "maximum", "less", "floor_divide", "true_divide", "hypot", "remainder"]


def is_narrow(dt):
    return comp_size(dt) <= 4


class CapRec:
    """recorder with the interface of core.Rec that only collects: the history monitor decides afterwards under which key
    a violation is reported"""

    def __init__(self):
        self.oks, self.viol, self.notes, self.counts, self.reached = [], [], [], [], []

    def ok(self, cell=None, n=1):
        self.oks.append((cell, n))

    def violation(self, key, desc, case=None):
        self.viol.append((key, desc, case))

    def note(self, key, n=1):
        self.notes.append((key, n))

    def count(self, name, n=1):
        self.counts.append((name, n))

    def sample(self, *a, **k):
        pass

    def reach(self, name):
        self.reached.append(name)


_HIST_EXP = {}


def hist_eval(unyt, rec, case):
    """run and judge one observation described by plain data (also executed, unchanged, by the pristine twin)"""
    if case[0] == "conv":
        _, route, dt, form, src, dst, fvals = case
        d = np.dtype(dt)
        base = route in HIST_BASE_ROUTES
        sub = ("base" if base else "conv") + (":inplace" if FAMILY[route] == "convert_to_units" else ":copy")
        state = {"dtype_bad": set(), "value_bad": set()}
        for (obj, idxs) in build(unyt, form, dt, fvals, src):
            res, exc, ws = observe(lambda: call_route(unyt, route, obj, dst))
            rec.count("calls:" + FAMILY[route])
            rec.reach("route:" + route)
            if exc is not None:
                if d.kind in "iu" and d.itemsize == 1 and FAMILY[route] == "convert_to_units":
                    rec.note(f"refused:8bit:{route}:{type(exc).__name__}")
                    rec.ok(("refused-8bit", route, dt, form))
                    rec.count("evals:refusal")
                    continue
                rec.violation(f"C17:{FAMILY[route]}:raises:{cls_of(dt)}:{type(exc).__name__}",
                              f"{route} ({form}) of {dt} data {src}->{dst} raised {type(exc).__name__}: {str(exc)[:120]}",
                              {"route": route, "dtype": dt, "form": form, "from": src, "to": dst})
                continue
            label = str(res.units) if (base and hasattr(res, "units")) else dst
            if base and label != dst:
                rec.note(f"base-label-differs:{src}:{label}")
            ck = (dt, src, label, tuple(repr(v) for v in fvals))
            if ck not in _HIST_EXP:
                try:
                    _HIST_EXP[ck] = (conv_expect(fvals, src, label), X.ratio_exact(src, label))
                except X.Unparsed:
                    _HIST_EXP[ck] = None
                    rec.note(f"unit-label-not-interpreted:{label}")
            if _HIST_EXP[ck] is None:
                continue
            exps_all, ratio = _HIST_EXP[ck]
            ok = judge_conversion(rec, route, dt, form, src, label, res, idxs, exps_all, 8, ratio, state, fvals)
            rec.count("evals:" + sub)
            if ok:
                rec.ok((route, dt, src, label, form))
    elif case[0] == "bin":
        _, uf, form, d0, d1, u0, u1, av, bv = case
        s0, _ = X.unit_exact(u0)
        s1, _ = X.unit_exact(u1)
        A = [tuple(None if c is None else c * s0 for c in as_fr(v)) for v in av]
        B = [tuple(None if c is None else c * s1 for c in as_fr(v)) for v in bv]
        do_binary(unyt, rec, uf, form, d0, d1, u0, u1, av, bv, A, B, s0, s1, 16)
    else:
        raise ValueError(case[0])


def _pristine_eval(case):
    import unyt
    cap = CapRec()
    hist_eval(unyt, cap, case)
    return [(k, d) for (k, d, _) in cap.viol]


def hist_key(key, first_dt):
    return "C17:history:" + key.split(":", 1)[1] + f":after-{cls_of(first_dt)}-first"


class History:
    """one process, many unit pairs; per pair a first (dtype, route) and then everything else"""

    def __init__(self, unyt, rec, first_dt, first_route, twin):
        self.unyt, self.rec, self.first_dt, self.first_route, self.twin = unyt, rec, first_dt, first_route, twin
        self.memo = {}          # (base key, pair) -> None (not history dependent) or text of what the twin saw
        self.log = []

    def step(self, case, pair, later_dt, is_first):
        rec = self.rec
        cap = CapRec()
        hist_eval(self.unyt, cap, case)
        what = f"{later_dt}:{case[1] if case[0] == 'conv' else 'np.' + case[1] + '/' + case[2]}"
        pref = ("history", cls_of(self.first_dt), self.first_route)
        for cell, n in cap.oks:
            rec.ok(pref + tuple(cell) if cell is not None else None, n)
        nev = 0
        for name, n in cap.counts:
            rec.count("hist:" + name, n)
            if name.startswith("evals:") and name.count(":") == 1 or name in ("evals:conv:copy", "evals:conv:inplace", "evals:base:copy", "evals:base:inplace"):
                nev += n
        for key, n in cap.notes:
            rec.note("hist:" + key, n)
        for name in cap.reached:
            rec.reach("hist:" + name)
        if not is_first and nev:
            rec.count("hist:evals:%s->%s" % ("narrow" if is_narrow(self.first_dt) else "wide", "narrow" if is_narrow(later_dt) else "wide"), nev)
        done = set()
        for key, desc, vcase in cap.viol:
            if key in done:
                continue
            done.add(key)
            # a dtype key names the whole observable (input widths -> result dtype): once the twin fails with the identical
            # key, the past makes no difference to it on any pair; value keys are decided per pair
            mk = (key, None) if ":dtype:" in key else (key, pair)
            if mk not in self.memo:
                try:
                    seen = dict(self.twin.run(case))
                    rec.count("hist:control-runs")
                    if key in seen:
                        self.memo[mk] = None
                    else:
                        self.memo[mk] = ("holds" if not seen else "fails differently (" + ", ".join(sorted(seen)) + ")")
                except Exception as e:          # noqa: BLE001 - no control: the observation is reported as it was made
                    rec.count("hist:control-failed")
                    rec.note("hist:control-failed:" + type(e).__name__)
                    self.memo[mk] = "could not be repeated (control unavailable)"
            verdict = self.memo[mk]
            if verdict is None:
                rec.count("hist:violations:not-history-dependent")
                rec.violation(key, desc + " [seen by the history monitor; the same call in a pristine process fails the same way]", vcase)
            else:
                rec.count("hist:violations:history-dependent")
                hist = f"{self.first_dt}:{self.first_route}" + (" ... " + ", ".join(self.log[-3:]) if self.log else "")
                rec.violation(hist_key(key, self.first_dt),
                              desc + f" | HISTORY: earlier in this process the pair {pair[0]}->{pair[1]} was converted as [{hist}]; "
                              f"the same call in a process that never converted anything {verdict}",
                              dict(vcase or {}, first_dtype=self.first_dt, first_route=self.first_route, pair=list(pair),
                                   replay=core.jsonable(case)))
        self.log.append(what)
        return not cap.viol


def hist_conv_vals(dt, tier, seed):
    r = core.rng(seed, "hist-values", dt)
    vals = values_for(dt, r, 6 if tier == "thorough" else 3)
    if tier != "thorough":
        vals = pick(vals, 9)
    fin = [v for v in vals if not (isinstance(v, float) and (v != v or v in (float("inf"), float("-inf"))))]
    scal = [fin[k] for k in (2, 4) if k < len(fin)]
    return vals, scal


def hist_first_case(first_route, dt, src, dst, base, binok, tier, seed):
    """the first observation of a pair, or None when this route cannot start a history on this pair"""
    if first_route.split(":")[0] in ("ufunc", "inplace-op", "out", "scalar"):
        form, uf = first_route.split(":")
        if not binok or (np.dtype(dt).kind == "c" and uf not in CPLX_OK):
            return None
        r = core.rng(seed, "hist-bvals", dt, dt)
        return ("bin", uf, form, dt, dt, dst, src, bvals(dt, r, 6, False), bvals(dt, r, 6, True))
    if first_route in HIST_BASE_ROUTES and not base:
        return None
    vals, _ = hist_conv_vals(dt, tier, seed)
    return ("conv", first_route, dt, "arr1d", src, dst, vals)


def run_history(unyt, rec, first_dt, first_route, tier, seed, r):
    from vf.monitors import c17_pristine
    thorough = tier == "thorough"
    twin = c17_pristine.Pristine(_pristine_eval)        # forked before this process converts anything
    try:
        # thorough: the quick pairs plus a per-batch draw from the wider list (every batch draws differently, so over the
        # first-dtype x first-route grid every pair is started by many kinds of first conversion)
        pairs = HIST_PAIRS_QUICK + (r.sample(HIST_PAIRS_MORE, 6) if thorough else [])
        routes = ["to", "in_units", "to_value", "convert_to_units"] + (["to(Unit)"] if thorough else [])
        broutes = ["in_base", "convert_to_base"] + (["in_mks", "convert_to_mks"] if thorough else [])
        forms = ["arr1d", "quantity"]                     # thorough: arr1d plus one drawn from the other container forms
        H = History(unyt, rec, first_dt, first_route, twin)
        for (src, dst, base, binok) in pairs:
            pair = (src, dst)
            H.log = []
            # ---- the first conversion of this ordered pair in this process
            if first_route == "Unit.get_conversion_factor":
                res, exc, ws = observe(lambda: unyt.Unit(src).get_conversion_factor(unyt.Unit(dst), np.dtype(first_dt)))
                rec.note("hist:first-by-get_conversion_factor:" + ("raised:" + type(exc).__name__ if exc is not None else "returned"))
            else:
                case = hist_first_case(first_route, first_dt, src, dst, base, binok, tier, seed)
                if case is None:
                    rec.note(f"hist:first-route-not-applicable:{first_route}:{src}->{dst}")
                    continue
                H.step(case, pair, first_dt, True)
            rec.count("hist:first-steps")
            rec.reach("hist-first:" + first_route)
            # ---- then every dtype through every route on the same pair
            later = dts(tier)
            r.shuffle(later)
            for dt in later:
                vals, scal = hist_conv_vals(dt, tier, seed)
                todo = [("conv", rt, dt, form, src, dst, vals if form not in ("quantity", "0d") else scal)
                        for rt in routes + (broutes if base else [])
                        for form in (forms if not thorough else ["arr1d", r.choice(["quantity", "strided", "0d", "arr2d"])])]
                if binok:
                    for d0 in ([dt, r.choice(["f8", "i4", "f2", "c8"])] if thorough and r.random() < 0.5 else [dt]):
                        rb = core.rng(seed, "hist-bvals", d0, dt)
                        av, bv = bvals(d0, rb, 6, False), bvals(dt, rb, 6, True)
                        m = min(len(av), len(bv))
                        for uf in HIST_UFS:
                            if "c" in (np.dtype(d0).kind, np.dtype(dt).kind) and uf not in CPLX_OK:
                                continue
                            bforms = ["ufunc"] + (["operator"] if uf in ("add", "less", "floor_divide") else [])
                            if thorough:
                                bforms = ["ufunc", r.choice(["scalar", "arr-q", "q-arr"] + (["operator"] if uf in OPER else [])
                                                            + (["out", "out-float"] if uf not in COMPARE else [])
                                                            + (["inplace-op"] if uf in INPLACE_OP and uf in OPER else []))]
                            todo += [("bin", uf, bf, d0, dt, dst, src, av[:m], bv[:m]) for bf in bforms]
                r.shuffle(todo)
                for case in todo:
                    H.step(case, pair, dt, False)
        rec.count("hist:control-twin-runs", twin.runs)
        rec.sample({"batch": "history", "first": [first_dt, first_route], "pairs": [p[:2] for p in pairs], "forms": forms})
    finally:
        twin.close()


# ------------------------------------------------------------------ evidence
def extra(tier, seed, results):
    counters = {}
    reached = set()
    for bid, rr in results:
        for k, v in rr.get("counters", {}).items():
            counters[k] = counters.get(k, 0) + v
        reached.update(rr.get("reached", []))
    deciding = ["evals:conv:copy", "evals:conv:inplace", "evals:base:copy", "evals:base:inplace", "evals:equiv:copy",
                "evals:equiv:inplace", "evals:agree", "evals:warn-required", "evals:binary", "evals:binary:call",
                "evals:binary:out", "evals:ctor-list", "passive_evals"]
    deciding += [f"evals:warn-required:{f}" for f in ("in_units", "convert_to_units", "in_base", "to_equivalent", "convert_to_equivalent")]
    # history sub-monitors (dtype histories within one process): each must have judged something, in both orders, and
    # every kind of first route must have started at least one history
    hist_deciding = ["hist:evals:conv:copy", "hist:evals:conv:inplace", "hist:evals:base:copy", "hist:evals:base:inplace",
                     "hist:evals:binary", "hist:evals:narrow->wide", "hist:evals:wide->narrow", "hist:evals:narrow->narrow",
                     "hist:evals:wide->wide", "hist:first-steps"]
    deciding += hist_deciding
    # caller-owned out= buffers and rarely used call forms: every buffer kind, width, way of passing and variant must have been
    # judged on both observables (returned object, caller's buffer)
    deciding += ["evals:outbuf:returned", "evals:outbuf:buffer", "evals:outbuf:returned:out", "evals:outbuf:buffer:out", "evals:outbuf:refusal"]
    deciding += ["evals:outbuf:kind:" + k for k in ("nd-int", "nd-float", "nd-complex", "un-int", "un-float", "un-complex")]
    deciding += ["evals:outbuf:pass:" + k for k in OUT_PASS] + ["evals:outbuf:variant:" + k for k in sorted(set(OUT_VARIANTS))]
    deciding += ["evals:outbuf:width:%d" % w for w in (16, 32, 64, 128)]
    deciding += ["evals:rareform:where-noout", "evals:rareform:where-noout:call", "evals:rareform:at"]
    # value axis of integer operands: the dtype-against-control monitor and the value monitor must have judged every value
    # class, operand spelling, operand position and call form
    from vf.gen import c17_valueaxis as VA
    deciding += ["evals:valaxis:control", "evals:valaxis:control-judged", "evals:valaxis:dtype", "evals:valaxis:values", "evals:valaxis:values:call"]
    deciding += ["evals:valaxis:value:" + k for k in VA.VCLASSES_QUICK + (VA.VCLASSES_MORE if tier == "thorough" else ())]
    deciding += ["evals:valaxis:spelling:" + k for k in VA.SPELLINGS] + ["evals:valaxis:position:" + k for k in VA.POSITIONS]
    deciding += ["evals:valaxis:form:" + k for k in VA.FORMS]
    first_routes = HIST_FIRST_QUICK + (HIST_FIRST_MORE if tier == "thorough" else [])
    zero = [k for k in deciding if not counters.get(k)]
    zero += ["hist-first:" + fr for fr in first_routes if "hist-first:" + fr not in reached]
    broken = [bid for bid, rr in results if rr.get("status") != "ok"]
    if zero and not broken:
        raise core.Inconclusive("sub-monitors-evaluated-0-times:" + ",".join(zero))
    want_routes = ["route:" + x for x in ALL_ROUTES if tier == "thorough" or "imperial" not in x]
    ufs = UF_QUICK + UF_MORE
    want_uf = [f"ufunc:{u}:ufunc" for u in ufs]
    unreached = [x for x in want_routes + want_uf + ["ctor-list"] if x not in reached]
    unreached += ["hist:ufunc:%s:ufunc" % u for u in HIST_UFS if "hist:ufunc:%s:ufunc" % u not in reached]
    unreached += [f"valaxis:{u}:{f}" for u in VA_UFS + VA_DTYPE_ONLY for f in va_forms(u) if f"valaxis:{u}:{f}" not in reached]
    unreached += [f"outbuf:{u}:{v}:{h}" for u in OUT_UFS for v in sorted(set(OUT_VARIANTS)) for h in OUT_HOLDERS
                  if not any(f"outbuf:{u}:{v}:{p}:{h}" in reached for p in OUT_PASS)]
    return {"sub_monitor_evaluations": {k: counters.get(k, 0) for k in deciding},
            "valaxis": {k: v for k, v in counters.items() if k.startswith("valaxis:") or k.startswith("evals:valaxis") or k == "calls:valaxis"},
            "outbuf": {k: v for k, v in counters.items() if k.startswith("outbuf:") or k.startswith("evals:rareform") or k == "calls:outbuf"},
            "history_control": {k[5:]: v for k, v in counters.items() if k.startswith("hist:control") or k.startswith("hist:violations")},
            "entry_point_calls": {k[4:]: v for k, v in counters.items() if k.startswith("tap:")},
            "unreached": unreached,
            "dtypes": dts(tier)}
